//! C18 (a) — S2I replay of `SyncProto.tla` into the real `SyncRequester` / `SyncResponder`.
//!
//! behaviour: `{"side":"req"|"resp", "resp":2,
//!              "steps":[{"call":{"call":"new","how":..}|{"call":"poll"[, "buf":..]}|{"call":"recv","msg":{..}}|{"call":"push"},
//!                        "exp":{"res":..,"ready":bool,"index":n,"st":..}} ..],      witness path
//!              "fan":[{"call":..,"exp":..}..]}`                                     every call from the reached state
//!
//! Messages are concretised with the wire mirror.  After every call the engine decides the
//! property's own predicates on the real machine — a requester returns commands only for its own
//! session and exactly the next index, and what it returns lies inside the received buffer; a
//! responder labels its responses with the adopted session and 0,1,2..; an unsupported request is an
//! error that leaves the machine ready() and the next poll closes the session; ready() is false
//! exactly when poll answers NotReady; nothing panics — and compares result class and ready() with
//! the spec (differences that do not touch those predicates are drift).
use std::collections::BTreeSet;

use aranya_runtime::{
    Address, CmdId, Command, GraphId, MaxCut, PeerCache, Prior, Priority, StorageProvider, SyncError, SyncIncoming, SyncRequester,
    SyncResponder, MAX_SYNC_MESSAGE_SIZE,
};
use vrt::{json, Args, Value, J};

use crate::{
    model::{Expanded, Kind, Layout, Replica},
    wire::{dec, enc, FixedRng, MMeta, MRequest, MResponse, MSyncType},
};

const SID: [u128; 3] = [0, 0x0123_4567_89ab_cdef_0fed_cba9_8765_4321, 0x7777_0000_1111_2222_3333_4444_5555_6666];

fn err_name(e: &SyncError) -> String {
    match e {
        SyncError::SessionMismatch => "SessionMismatch".into(),
        SyncError::MissingSyncResponse => "MissingSyncResponse".into(),
        SyncError::SessionState => "SessionState".into(),
        SyncError::NotReady => "NotReady".into(),
        SyncError::CommandOverflow => "CommandOverflow".into(),
        SyncError::BufferTooSmall => "BufferTooSmall".into(),
        SyncError::Serialize(postcard::Error::SerializeBufferFull) => "BufferTooSmall".into(),
        SyncError::MalformedResponse => "MalformedResponse".into(),
        SyncError::UnsupportedRequest => "UnsupportedRequest".into(),
        SyncError::Storage(_) => "Storage".into(),
        SyncError::Serialize(_) => "Serialize".into(),
        SyncError::Bug(_) => "Bug".into(),
        _ => "other".into(),
    }
}

struct Fail(String, String, Value);

/// The storage both machines run against: init + one chain of 150 commands (two responses).
fn storage(seed: u64) -> (Expanded, Replica) {
    let par = vec![vec![], vec![], vec![1]];
    let exp = Expanded::new(par, vec![Kind::Chain; 3], vec![1, 1, 150], seed);
    let lay = Layout { seed, frag: 0, commit_every: 0, flush_den: 0, batch_max: 0, node_cut: true };
    let rep = Replica::build(&exp, &BTreeSet::from([1, 2]), &lay).unwrap_or_else(|e| vrt::die(&format!("proto storage: {e}")));
    (exp, rep)
}

// ------------------------------------------------------------------------------------------------
// Requester
// ------------------------------------------------------------------------------------------------

struct Req {
    r: SyncRequester,
    graph: GraphId,
}

fn response_bytes(kind: &str, sid: u128, ix: u64, seed: u64) -> (Vec<u8>, usize) {
    let a = Address { id: CmdId::from([3u8; 32]), max_cut: MaxCut::new(5) };
    let mk = |n: u8, len: u32, pol: u32| MMeta {
        id: CmdId::from([n; 32]),
        priority: if n % 2 == 0 { Priority::Basic(n as u32) } else { Priority::Finalize },
        parent: if n % 2 == 0 { Prior::Single(a) } else { Prior::Merge(a, Address { id: CmdId::from([4u8; 32]), max_cut: MaxCut::new(9) }) },
        policy_length: pol,
        length: len,
    };
    let (metas, data_len) = match kind {
        "Response" => (vec![mk(10 + (seed % 7) as u8, 5, 0), mk(21, 7, 3)], 15usize),
        // the second command claims more payload than follows
        _ => (vec![mk(10, 5, 0), mk(21, 70, 3)], 15usize),
    };
    let mut m = enc(&MResponse::SyncResponse { session_id: sid, response_index: ix, commands: metas });
    let hdr = m.len();
    m.extend((0..data_len).map(|k| 0xa0 + k as u8));
    (m, hdr)
}

/// Offset of the trailing command bytes of a bare response encoding (`hdr` = 0: none).
fn _hdr_or_len(bytes: &[u8], hdr: usize) -> usize {
    if hdr == 0 { bytes.len() } else { hdr }
}

fn req_step(q: &mut Req, rep: &mut Replica, cache: &PeerCache, call: &Value, exp: &Value, prev_index: u64, seed: u64) -> Result<u64, Fail> {
    let what = call.s("call");
    let ready_before = q.r.ready();
    let mut drift = 0;
    let res: String;
    match what {
        "poll" => {
            let mut buf = vec![0u8; MAX_SYNC_MESSAGE_SIZE];
            let Replica { client, bufs, .. } = rep;
            let r = vrt::catch_any(|| q.r.poll(&mut buf, client.provider(), &cache.session_heads(), &mut bufs.traversal.primary));
            res = match r {
                Err(p) => return Err(Fail("C18:panic".into(), format!("SyncRequester::poll panicked: {p}"), json!({"call": call}))),
                Ok(Err(e)) => err_name(&e),
                Ok(Ok((n, _))) => match dec::<MSyncType>(&buf[..n]) {
                    Ok((MSyncType::Poll { request: MRequest::SyncRequest { session_id, .. } }, _)) if session_id == SID[1] => "msg:SyncRequest".into(),
                    Ok((MSyncType::Poll { request: MRequest::SyncResume { session_id, .. } }, _)) if session_id == SID[1] => "msg:SyncResume".into(),
                    Ok((MSyncType::Poll { request: MRequest::EndSession { session_id } }, _)) if session_id == SID[1] => "msg:EndSession".into(),
                    other => format!("msg:?{other:?}"),
                },
            };
            if ready_before != (res != "NotReady") {
                return Err(Fail("C18:ready-inconsistent".into(), format!("requester ready() was {ready_before} but poll gave {res}"), json!({"call": call})));
            }
        }
        "recv" | "push" => {
            let m = call.g("msg");
            let sid = SID[m.u("s") as usize];
            let ix = match m.s("ix") {
                "next" => prev_index,
                "skip" => prev_index + 1,
                _ => if prev_index == 0 { 7 } else { prev_index - 1 },
            };
            let (bytes, _hdr) = match m.s("k") {
                k @ ("Response" | "Malformed") => response_bytes(k, sid, ix, seed),
                "End" => (enc(&MResponse::SyncEnd { session_id: sid, max_index: ix, remaining: false }), 0),
                "Offer" => (enc(&MResponse::Offer { session_id: sid, head: CmdId::from([5u8; 32]) }), 0),
                _ => (enc(&MResponse::EndSession { session_id: sid }), 0),
            };
            // `push`: the same message inside a SyncType::Push (message, graph id, then the command
            // bytes), decoded by SyncIncoming::decode and handed to receive_push
            let bytes = if what == "push" {
                let (msg, _): (MResponse, _) = dec(&bytes).unwrap_or_else(|e| vrt::die(&format!("own message does not decode: {e}")));
                let mut b = enc(&MSyncType::Push { message: msg, graph_id: q.graph });
                b.extend_from_slice(&bytes[_hdr_or_len(&bytes, _hdr)..]);
                b
            } else {
                bytes
            };
            // exact-size heap allocation so that an out-of-buffer slice is detectable by address
            let data: Box<[u8]> = bytes.into_boxed_slice();
            let lo = data.as_ptr() as usize;
            let hi = lo + data.len();
            let is_push = what == "push";
            let r = vrt::catch_any(|| {
                let got = if is_push {
                    match SyncIncoming::decode(&data) {
                        Ok(SyncIncoming::Push(p)) => {
                            if p.session_id() != sid || p.graph_id() != q.graph {
                                vrt::die("decode changed the session or graph id of a push");
                            }
                            q.r.receive_push(p)
                        }
                        Ok(_) => vrt::die("a push decoded as another message type"),
                        Err(e) => vrt::die(&format!("a well-formed push was rejected by decode: {e}")),
                    }
                } else {
                    q.r.receive(&data)
                };
                got.map(|o| {
                    o.map(|cmds| {
                        cmds.iter()
                            .map(|c| {
                                let b = c.bytes();
                                let p = c.policy().unwrap_or(&[]);
                                let inside = |s: &[u8]| s.is_empty() || (s.as_ptr() as usize >= lo && s.as_ptr() as usize + s.len() <= hi);
                                (inside(b) && inside(p), b.len(), p.len())
                            })
                            .collect::<Vec<_>>()
                    })
                })
            });
            res = match r {
                Err(p) => return Err(Fail("C18:panic".into(), format!("SyncRequester::receive/receive_push panicked: {p}"), json!({"call": call}))),
                Ok(Err(e)) => err_name(&e),
                Ok(Ok(None)) => "none".into(),
                Ok(Ok(Some(cmds))) => {
                    let obs = json!({"call": call, "index": ix, "expected_next": prev_index, "cmds": cmds.len()});
                    if cmds.iter().any(|c| !c.0) {
                        return Err(Fail("C18:slice-outside-buffer".into(), "a returned command slice lies outside the received bytes".into(), obs));
                    }
                    if sid != SID[1] {
                        return Err(Fail("C18:cross-session-accept".into(), "the requester returned commands of a foreign session".into(), obs));
                    }
                    if ix != prev_index {
                        return Err(Fail("C18:out-of-sequence-accept".into(), "the requester returned commands of a response that does not carry the next index".into(), obs));
                    }
                    if exp.s("res") != "cmds" {
                        return Err(Fail("C18:accept-in-wrong-state".into(), format!("the requester returned commands where the protocol machine answers {}", exp.s("res")), obs));
                    }
                    if cmds.len() != 2 || cmds[0].1 != 5 || cmds[1].1 != 7 || cmds[1].2 != 3 {
                        return Err(Fail("C18:wrong-slices".into(), "returned command slices do not have the lengths sent".into(), obs));
                    }
                    "cmds".into()
                }
            };
        }
        _ => vrt::die("unknown requester call"),
    }
    if res != exp.s("res") {
        drift += 1;
    }
    if q.r.ready() != exp.b("ready") {
        drift += 1;
    }
    let _ = q.graph;
    Ok(drift)
}

// ------------------------------------------------------------------------------------------------
// Responder
// ------------------------------------------------------------------------------------------------

struct RespM {
    r: SyncResponder,
    adopted: Option<u128>,
    responses: u64,
    last_unsupported: bool,
}

fn resp_step(q: &mut RespM, x: &Expanded, rep: &mut Replica, call: &Value, exp: &Value) -> Result<u64, Fail> {
    let what = call.s("call");
    let ready_before = q.r.ready();
    let was_unsupported = q.last_unsupported;
    q.last_unsupported = false;
    let mut drift = 0;
    let res: String;
    match what {
        "recv" => {
            let m = call.g("msg");
            let sid = SID[m.u("s") as usize];
            let req = match m.s("k") {
                "Request" => MRequest::SyncRequest { session_id: sid, graph_id: x.graph, max_bytes: 0, commands: vec![] },
                "RequestBadGraph" => MRequest::SyncRequest { session_id: sid, graph_id: GraphId::from([0xee; 32]), max_bytes: 0, commands: vec![] },
                "Missing" => MRequest::RequestMissing { session_id: sid, indexes: vec![0, 2] },
                "Resume" => MRequest::SyncResume { session_id: sid, response_index: 0, max_bytes: 10 },
                _ => MRequest::EndSession { session_id: sid },
            };
            let bytes = enc(&MSyncType::Poll { request: req });
            let r = vrt::catch_any(|| match SyncIncoming::decode(&bytes) {
                Ok(SyncIncoming::Poll(p)) => {
                    if p.session_id() != sid {
                        return Err("decode changed the session id".to_string());
                    }
                    Ok(q.r.receive(p))
                }
                Ok(_) => Err("a poll decoded as another message type".to_string()),
                Err(e) => Err(format!("a well-formed poll was rejected: {e}")),
            });
            res = match r {
                Err(p) => return Err(Fail("C18:panic".into(), format!("decode/receive panicked: {p}"), json!({"call": call}))),
                Ok(Err(e)) => return Err(Fail("C18:wellformed-rejected".into(), e, json!({"call": call}))),
                Ok(Ok(Ok(()))) => "ok".into(),
                Ok(Ok(Err(e))) => err_name(&e),
            };
            if q.adopted.is_some() && q.adopted != Some(sid) && res != "SessionMismatch" {
                return Err(Fail("C18:foreign-session-accepted".into(), format!("the responder processed a request of a session it did not adopt (result {res})"), json!({"call": call})));
            }
            if q.adopted.is_none() {
                q.adopted = Some(sid);
            }
            if matches!(m.s("k"), "Missing" | "Resume") && q.adopted == Some(sid) {
                if res == "ok" {
                    return Err(Fail("C18:unsupported-not-rejected".into(), "an unsupported request was accepted".into(), json!({"call": call})));
                }
                if !q.r.ready() {
                    return Err(Fail("C18:unsupported-not-ready".into(), "after an unsupported request the responder is not ready() to close the session".into(), json!({"call": call})));
                }
                q.last_unsupported = true;
            }
        }
        "poll" | "push" => {
            let size = match call.get("buf").and_then(Value::as_str).unwrap_or("big") {
                "big" => MAX_SYNC_MESSAGE_SIZE,
                "small" => 64,
                _ => 3,
            };
            let mut buf = vec![0u8; size];
            let mut cache = PeerCache::new();
            let Replica { client, bufs, .. } = rep;
            let r = if what == "poll" {
                vrt::catch_any(|| q.r.poll(&mut buf, client.provider(), &mut cache, &mut bufs.traversal))
            } else {
                vrt::catch_any(|| q.r.push(&mut buf, client.provider(), &mut bufs.traversal))
            };
            let mut labelled: Option<(u128, u64)> = None;
            res = match r {
                // `bug!` panics in builds with debug assertions.  One such path is not driven by any
                // message: `push` before any request resets a responder that has no session id, and the
                // Reset arm of `poll` then needs one (API misuse, modelled as result "Bug"; reported as
                // an adjacent observation, not as a C18 failure)
                Err(p) if what == "poll" && q.adopted.is_none() && p.contains("session id is set") => "Bug".into(),
                Err(p) => return Err(Fail("C18:panic".into(), format!("SyncResponder::{what} panicked: {p}"), json!({"call": call}))),
                Ok(Err(e)) => err_name(&e),
                Ok(Ok(0)) => "none".into(),
                Ok(Ok(n)) => {
                    if what == "poll" {
                        match dec::<MResponse>(&buf[..n]) {
                            Ok((MResponse::SyncResponse { session_id, response_index, .. }, _)) => {
                                labelled = Some((session_id, response_index));
                                "msg:SyncResponse".into()
                            }
                            Ok((MResponse::SyncEnd { session_id, max_index, .. }, _)) => {
                                if Some(session_id) != q.adopted || max_index != q.responses {
                                    return Err(Fail("C18:responder-end-label".into(), "SyncEnd carries a foreign session or a max_index that is not the number of responses".into(), json!({"call": call, "max_index": max_index, "responses": q.responses})));
                                }
                                "msg:SyncEnd".into()
                            }
                            Ok((MResponse::EndSession { session_id }, _)) => {
                                if Some(session_id) != q.adopted {
                                    return Err(Fail("C18:responder-foreign-session".into(), "EndSession carries a session the responder never adopted".into(), json!({"call": call})));
                                }
                                "msg:EndSession".into()
                            }
                            other => format!("msg:?{:?}", other.map(|o| o.0)),
                        }
                    } else {
                        match dec::<MSyncType>(&buf[..n]) {
                            Ok((MSyncType::Push { message: MResponse::SyncResponse { session_id, response_index, .. }, graph_id }, _)) if graph_id == x.graph => {
                                labelled = Some((session_id, response_index));
                                "msg:Push".into()
                            }
                            other => format!("msg:?{:?}", other.map(|o| o.0)),
                        }
                    }
                }
            };
            if let Some((s, ix)) = labelled {
                let obs = json!({"call": call, "index": ix, "responses_before": q.responses});
                if Some(s) != q.adopted {
                    return Err(Fail("C18:responder-foreign-session".into(), "a response carries a session the responder never adopted".into(), obs));
                }
                if ix != q.responses {
                    return Err(Fail("C18:responder-index".into(), "response indices are not 0,1,2,..".into(), obs));
                }
                q.responses += 1;
            }
            if what == "poll" {
                if ready_before != (res != "NotReady") {
                    return Err(Fail("C18:ready-inconsistent".into(), format!("responder ready() was {ready_before} but poll gave {res}"), json!({"call": call})));
                }
                if was_unsupported && res != "msg:EndSession" && res != "BufferTooSmall" {
                    return Err(Fail("C18:unsupported-not-closed".into(), format!("the poll after an unsupported request gave {res}, not EndSession"), json!({"call": call})));
                }
            }
        }
        _ => vrt::die("unknown responder call"),
    }
    if res != exp.s("res") {
        drift += 1;
        if std::env::var_os("VH_DRIFT_VERBOSE").is_some() {
            eprintln!("drift: {call} gave {res}, spec {}", exp.s("res"));
        }
    }
    if q.r.ready() != exp.b("ready") {
        drift += 1;
        if std::env::var_os("VH_DRIFT_VERBOSE").is_some() {
            eprintln!("drift: {call} ready {} spec {}", q.r.ready(), exp.b("ready"));
        }
    }
    Ok(drift)
}

// ------------------------------------------------------------------------------------------------

enum M {
    Req(Req),
    Resp(RespM),
}

fn fresh(side: &str, how: &str, x: &Expanded) -> M {
    if side == "req" {
        let r = if how == "new" { SyncRequester::new(x.graph, FixedRng(SID[1])) } else { SyncRequester::new_session_id(x.graph, SID[1]) };
        M::Req(Req { r, graph: x.graph })
    } else {
        M::Resp(RespM { r: SyncResponder::new(), adopted: None, responses: 0, last_unsupported: false })
    }
}

fn replay(side: &str, x: &Expanded, rep: &mut Replica, steps: &[Value], extra: Option<&Value>, seed: u64) -> Result<u64, (i64, Fail)> {
    let cache = PeerCache::new();
    let how = steps[0].g("call").get("how").and_then(Value::as_str).unwrap_or("new").to_string();
    let mut m = fresh(side, &how, x);
    // the constructor's own observation
    let ready0 = match &m {
        M::Req(q) => q.r.ready(),
        M::Resp(q) => q.r.ready(),
    };
    let mut drift = u64::from(ready0 != steps[0].g("exp").b("ready"));
    let mut prev_index = steps[0].g("exp").u("index");
    let all = steps[1..].iter().chain(extra);
    for (k, st) in all.enumerate() {
        let (call, exp) = (st.g("call"), st.g("exp"));
        let r = match &mut m {
            M::Req(q) => req_step(q, rep, &cache, call, exp, prev_index, seed),
            M::Resp(q) => resp_step(q, x, rep, call, exp),
        };
        match r {
            Ok(d) => drift += d,
            Err(f) => return Err((k as i64 + 1, f)),
        }
        prev_index = exp.u("index");
    }
    Ok(drift)
}

pub fn run(args: &Args) {
    if let Err(e) = crate::wire::selftest() {
        vrt::die(&format!("wire mirror self-test failed (wire layout changed?): {e}"));
    }
    let mut out = args.out();
    let (x, mut rep) = storage(args.seed);
    for (i, b) in args.read_input().iter().enumerate() {
        let side = b.s("side");
        let steps = b.a("steps");
        let mut drift = 0;
        let mut failed = false;
        match replay(side, &x, &mut rep, steps, None, args.seed) {
            Ok(d) => drift += d,
            Err((k, Fail(key, msg, obs))) => {
                out.fail(i, k, &key, &msg, obs);
                continue;
            }
        }
        let empty = vec![];
        let fan = b.get("fan").and_then(Value::as_array).unwrap_or(&empty);
        for (k, f) in fan.iter().enumerate() {
            match replay(side, &x, &mut rep, steps, Some(f), args.seed) {
                Ok(d) => drift += d,
                Err((_, Fail(key, msg, obs))) => {
                    out.fail(i, (steps.len() + k) as i64, &key, &msg, obs);
                    failed = true;
                    break;
                }
            }
        }
        if !failed {
            out.emit(json!({"i": i, "ok": true, "step": -1, "drift": drift, "obs": {"steps": steps.len(), "fan": fan.len()}}));
        }
    }
    out.finish();
}
