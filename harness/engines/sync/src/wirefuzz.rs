//! C18 (b) — TABLE concretisation of `SyncWire.tla`: a generic interpreter of the field grammar
//! emitted with every cell builds the real postcard bytes of the template, applies the cell's
//! mutation, and hands the bytes to every receive/dispatch entry point of the sync layer:
//!
//!   fam "type"  `SyncIncoming::decode`, then per variant: Poll -> `SyncResponder::receive` + `poll`
//!               on real storage; Subscribe -> accessors + `ClientState::update_heads`; Unsubscribe ->
//!               accessor; Push -> `SyncRequester::new_session_id(..).receive_push` (+ `add_commands`
//!               into a scratch replica); Hello -> accessors
//!   fam "resp"  `SyncRequester::receive` on a requester that has polled (+ `add_commands`)
//!   fam "sub"   `SubscribeResponse::decode`
//!
//! Decides (the property's predicate): no panic; every command slice handed out lies inside the
//! received bytes; the unmutated template is accepted (grammar self-test, tool error otherwise).
//! The outcome class ok/err is compared with the spec's `expect` as drift only.
//! Cell "random": seeded random byte strings and random byte-level mutations of all valid template
//! encodings through all entry points.
use std::collections::BTreeSet;

use aranya_runtime::{
    Command, MemSpill, PeerCache, StorageProvider, SubscribeResponse, SyncHello, SyncIncoming, SyncRequester, SyncResponder,
    MAX_SYNC_MESSAGE_SIZE,
};
use vrt::{json, Args, Rng, Value, J};

use crate::{
    model::{Expanded, Kind, Layout, Null, Replica},
    wire::FixedRng,
};

struct Fld {
    k: String,
    v: u64,
    w: u64,
    g: usize,
}

fn varint(mut x: u128) -> Vec<u8> {
    let mut o = Vec::new();
    loop {
        let b = (x & 0x7f) as u8;
        x >>= 7;
        if x == 0 {
            o.push(b);
            return o;
        }
        o.push(b | 0x80);
    }
}

struct World {
    exp: Expanded,
    rep: Replica,
}

fn world(seed: u64) -> World {
    let par = vec![vec![], vec![], vec![1]];
    let exp = Expanded::new(par, vec![Kind::Chain; 3], vec![1, 1, 12], seed);
    let lay = Layout { seed, frag: 0, commit_every: 0, flush_den: 0, batch_max: 0, node_cut: true };
    let rep = Replica::build(&exp, &BTreeSet::from([1, 2]), &lay).unwrap_or_else(|e| vrt::die(&format!("wire storage: {e}")));
    World { exp, rep }
}

fn field_bytes(w: &World, f: &Fld, idx: usize) -> Vec<u8> {
    match f.k.as_str() {
        "tag" | "u" | "seqlen" | "plen" | "dlen" | "idlen" => varint(f.v as u128),
        "bool" => vec![f.v as u8],
        "idbytes" => match f.v {
            1 => w.exp.graph.as_bytes().to_vec(),
            2 => w.exp.cmds[0].cmd.id.as_bytes().to_vec(),
            _ => vec![0x40 + (idx as u8 % 0x3f); 32],
        },
        "data" => (0..f.w as usize).map(|k| 0xd0 + (k as u8 % 16)).collect(),
        k => vrt::die(&format!("unknown field kind {k}")),
    }
}

/// Build the (possibly mutated) bytes of a cell.  Returns None if the mutation does not apply.
fn build(w: &World, fs: &[Fld], i: usize, m: &str) -> Option<Vec<u8>> {
    let mut parts: Vec<Vec<u8>> = fs.iter().enumerate().map(|(k, f)| field_bytes(w, f, k)).collect();
    let total_data: u64 = fs.iter().filter(|f| f.k == "data").map(|f| f.w).sum();
    let cat = |p: &[Vec<u8>]| p.iter().flatten().copied().collect::<Vec<u8>>();
    if m == "none" {
        return Some(cat(&parts));
    }
    if m == "trailing" {
        let mut b = cat(&parts);
        b.extend_from_slice(&[0x00, 0xff, 0x80, 0x01, 0x7f, 0x33, 0x80]);
        return Some(b);
    }
    let k = i.checked_sub(1)?;
    let f = fs.get(k)?;
    match m {
        "cut-before" => Some(cat(&parts[..k])),
        "cut-inside" => {
            let mut b = cat(&parts[..k]);
            let mut own = parts[k].clone();
            if f.k == "u" && own.len() < 2 {
                own = varint(0x3fff + f.v as u128); // make the varint multi-byte, keep only its first byte
            }
            if own.len() < 2 {
                return None;
            }
            b.extend_from_slice(&own[..own.len() / 2]);
            Some(b)
        }
        "unknown" => {
            parts[k] = varint(f.w as u128);
            Some(cat(&parts))
        }
        "huge" => {
            parts[k] = vec![0xff, 0xff, 0xff, 0xff, 0x0f];
            Some(cat(&parts))
        }
        "overlong" => {
            let n = if f.w == 128 { 19 } else { 10 };
            let mut v = vec![0xff; n];
            v.push(0x7f);
            parts[k] = v;
            Some(cat(&parts))
        }
        "max" => {
            parts[k] = match f.w {
                32 => varint(u32::MAX as u128),
                64 => varint(u64::MAX as u128),
                _ => varint(u128::MAX),
            };
            Some(cat(&parts))
        }
        "short" => {
            parts[k] = varint(31);
            Some(cat(&parts))
        }
        "long" => {
            parts[k] = varint(33);
            Some(cat(&parts))
        }
        "over-cap-claim" => {
            parts[k] = varint(f.w as u128 + 1);
            Some(cat(&parts))
        }
        "over-cap-real" => {
            if f.v == 0 || f.g == 0 {
                return None;
            }
            let elem = cat(&parts[k + 1..k + 1 + f.g]);
            let rest = cat(&parts[k + 1 + f.g * f.v as usize..]);
            let mut b = cat(&parts[..k]);
            b.extend(varint(f.w as u128 + 1));
            for _ in 0..=f.w {
                b.extend_from_slice(&elem);
            }
            b.extend(rest);
            Some(b)
        }
        "two" => {
            parts[k] = vec![2];
            Some(cat(&parts))
        }
        "plus-one" => {
            parts[k] = varint(total_data as u128 + 1);
            Some(cat(&parts))
        }
        _ => vrt::die(&format!("unknown mutation {m}")),
    }
}

#[derive(Default)]
struct Obs {
    class: &'static str, // "ok" | "err"
    detail: String,
    slices_ok: bool,
    cmds: usize,
}

/// Check that every slice of the returned commands lies inside `data`.
fn inside<C: Command>(data: &[u8], cmds: &[C]) -> bool {
    let lo = data.as_ptr() as usize;
    let hi = lo + data.len();
    cmds.iter().all(|c| {
        let ok = |s: &[u8]| s.is_empty() || (s.as_ptr() as usize >= lo && s.as_ptr() as usize + s.len() <= hi);
        ok(c.bytes()) && c.policy().is_none_or(ok)
    })
}

fn ingest<C: Command>(w: &mut World, cmds: &[C]) -> String {
    // a scratch replica holding the graph's init command
    let mut scratch = Replica::empty(w.exp.graph);
    let init = [w.exp.cmds[0].cmd.clone()];
    let mut trx = scratch.client.transaction(w.exp.graph);
    let _ = scratch.client.add_commands(&mut trx, &mut Null, &init, &mut scratch.bufs, MemSpill::new);
    match scratch.client.add_commands(&mut trx, &mut Null, cmds, &mut scratch.bufs, MemSpill::new) {
        Ok(n) => {
            let _ = scratch.client.commit(trx, &mut Null, &mut scratch.bufs, MemSpill::new);
            format!("added {n}")
        }
        Err(e) => format!("add_commands: {}", crate::model::err_class(&e)),
    }
}

fn run_type(w: &mut World, data: &[u8]) -> Obs {
    let mut o = Obs { class: "err", slices_ok: true, ..Default::default() };
    match SyncIncoming::decode(data) {
        Err(e) => o.detail = format!("decode: {e}"),
        Ok(SyncIncoming::Poll(p)) => {
            o.class = "ok";
            let _ = p.session_id();
            let mut r = SyncResponder::new();
            let rr = r.receive(p);
            o.detail = format!("poll receive={:?}", rr.as_ref().map_err(|e| e.to_string()));
            let mut polls = 0;
            let mut buf = vec![0u8; MAX_SYNC_MESSAGE_SIZE];
            let mut cache = PeerCache::new();
            while r.ready() && polls < 6 {
                polls += 1;
                let Replica { client, bufs, .. } = &mut w.rep;
                if r.poll(&mut buf, client.provider(), &mut cache, &mut bufs.traversal).is_err() {
                    break;
                }
            }
        }
        Ok(SyncIncoming::Subscribe(s)) => {
            o.class = "ok";
            let _ = (s.remain_open(), s.max_bytes(), s.heads().as_slice().len());
            let mut cache = PeerCache::new();
            let Replica { client, bufs, .. } = &mut w.rep;
            let r = client.update_heads(s.graph_id(), s.heads().iter(), &mut cache, &mut bufs.traversal.primary);
            o.detail = format!("subscribe update_heads={:?} cache={}", r.map_err(|e| e.to_string()), cache.heads().len());
        }
        Ok(SyncIncoming::Unsubscribe(u)) => {
            o.class = "ok";
            let _ = u.graph_id();
        }
        Ok(SyncIncoming::Push(p)) => {
            let mut rq = SyncRequester::new_session_id(p.graph_id(), p.session_id());
            match rq.receive_push(p) {
                Err(e) => o.detail = format!("receive_push: {e}"),
                Ok(None) => o.class = "ok",
                Ok(Some(cmds)) => {
                    o.class = "ok";
                    o.cmds = cmds.len();
                    o.slices_ok = inside(data, &cmds);
                    o.detail = ingest(w, &cmds);
                }
            }
        }
        Ok(SyncIncoming::Hello(h)) => {
            o.class = "ok";
            match h {
                SyncHello::Subscribe(s) => {
                    let _ = (s.graph_id(), s.graph_change_delay(), s.duration(), s.schedule_delay());
                }
                SyncHello::Unsubscribe(u) => {
                    let _ = u.graph_id();
                }
                SyncHello::Hello(n) => {
                    let Replica { client, bufs, .. } = &mut w.rep;
                    let r = client.should_sync_on_hello(n.graph_id(), n.head(), &mut bufs.traversal.primary);
                    o.detail = format!("hello should_sync={:?}", r.map_err(|e| e.to_string()));
                }
            }
        }
    }
    o
}

fn run_resp(w: &mut World, data: &[u8], started: bool) -> Obs {
    let mut o = Obs { class: "err", slices_ok: true, ..Default::default() };
    let mut rq = if started {
        let mut rq = SyncRequester::new(w.exp.graph, FixedRng(77));
        let mut buf = vec![0u8; MAX_SYNC_MESSAGE_SIZE];
        let cache = PeerCache::new();
        let Replica { client, bufs, .. } = &mut w.rep;
        let _ = rq.poll(&mut buf, client.provider(), &cache.session_heads(), &mut bufs.traversal.primary);
        rq
    } else {
        SyncRequester::new_session_id(w.exp.graph, 77)
    };
    match rq.receive(data) {
        Err(e) => o.detail = format!("receive: {e}"),
        Ok(None) => o.class = "ok",
        Ok(Some(cmds)) => {
            o.class = "ok";
            o.cmds = cmds.len();
            o.slices_ok = inside(data, &cmds);
            o.detail = ingest(w, &cmds);
        }
    }
    o
}

fn run_sub(data: &[u8]) -> Obs {
    let mut o = Obs { class: "err", slices_ok: true, ..Default::default() };
    match SubscribeResponse::decode(data) {
        Ok(_) => o.class = "ok",
        Err(e) => o.detail = format!("decode: {e}"),
    }
    o
}

fn run_family(w: &mut World, fam: &str, data: &[u8]) -> Result<Obs, String> {
    // exact-size heap copy: slices outside the message are outside this allocation
    let boxed: Box<[u8]> = data.to_vec().into_boxed_slice();
    vrt::catch_any(|| match fam {
        "type" => run_type(w, &boxed),
        "resp" => run_resp(w, &boxed, true),
        "resp-waiting" => run_resp(w, &boxed, false),
        _ => run_sub(&boxed),
    })
}

pub fn run(args: &Args) {
    let mut out = args.out();
    let mut w = world(args.seed);
    let input = args.read_input();
    // valid encodings of all templates (seed corpus of the random cell)
    let mut corpus: Vec<(String, Vec<u8>)> = Vec::new();
    let parse = |b: &Value| -> Vec<Fld> {
        b.a("f").iter().map(|f| Fld { k: f.s("k").to_string(), v: f.u("v"), w: f.u("w"), g: f.u("g") as usize }).collect()
    };
    for b in &input {
        if b.s("m") == "none" {
            let fs = parse(b);
            if let Some(bytes) = build(&w, &fs, 0, "none") {
                corpus.push((b.s("fam").to_string(), bytes));
            }
        }
    }
    let nrandom = args.opt_u64("random", 20_000);
    for (i, b) in input.iter().enumerate() {
        let (t, m, fam, expect) = (b.s("t"), b.s("m"), b.s("fam"), b.s("expect"));
        if m == "random" {
            // seeded random byte strings and byte-level mutations of valid encodings, all entry points
            let mut rng = Rng::new(args.seed ^ 0xc18);
            let mut evals = 0u64;
            let mut nontrivial = 0u64;
            let mut failed = false;
            for n in 0..nrandom {
                let data: Vec<u8> = if n % 3 == 0 || corpus.is_empty() {
                    let len = rng.below(300) as usize;
                    let mut d = vec![0u8; len];
                    rng.fill(&mut d);
                    if len > 0 && rng.chance(1, 2) {
                        d[0] = rng.below(6) as u8; // plausible outer tag
                    }
                    d
                } else {
                    let mut d = rng.pick(&corpus).1.clone();
                    for _ in 0..rng.range(1, 4) {
                        if d.is_empty() {
                            break;
                        }
                        let p = rng.below(d.len() as u64) as usize;
                        match rng.below(5) {
                            0 => d[p] ^= 1 << rng.below(8),
                            1 => d[p] = rng.next_u64() as u8,
                            2 => {
                                d.insert(p, rng.next_u64() as u8);
                            }
                            3 => {
                                d.remove(p);
                            }
                            _ => d.truncate(p),
                        }
                    }
                    d
                };
                for fam in ["type", "resp", "resp-waiting", "sub"] {
                    evals += 1;
                    match run_family(&mut w, fam, &data) {
                        Err(p) => {
                            out.fail(i, n as i64, "C18:panic", &format!("panic in the {fam} entry point: {p}"), json!({"fam": fam, "bytes": hex(&data)}));
                            failed = true;
                        }
                        Ok(o) if !o.slices_ok => {
                            out.fail(i, n as i64, "C18:slice-outside-buffer", "a returned command slice lies outside the received bytes", json!({"fam": fam, "bytes": hex(&data)}));
                            failed = true;
                        }
                        Ok(o) => {
                            if o.class == "ok" {
                                nontrivial += 1;
                            }
                        }
                    }
                    if failed {
                        break;
                    }
                }
                if failed {
                    break;
                }
            }
            if !failed {
                out.emit(json!({"i": i, "ok": true, "step": -1, "obs": {"random_inputs": nrandom, "evaluations": evals, "accepted": nontrivial}}));
            }
            continue;
        }
        let fs = parse(b);
        let Some(bytes) = build(&w, &fs, b.u("i") as usize, m) else {
            out.emit(json!({"i": i, "ok": true, "step": -1, "obs": {"skipped": "mutation not applicable"}}));
            continue;
        };
        match run_family(&mut w, fam, &bytes) {
            Err(p) => out.fail(i, 0, "C18:panic", &format!("panic while handling template {t}, field {}, mutation {m}: {p}", b.u("i")), json!({"bytes": hex(&bytes)})),
            Ok(o) if !o.slices_ok => out.fail(i, 0, "C18:slice-outside-buffer", "a returned command slice lies outside the received bytes", json!({"bytes": hex(&bytes), "cmds": o.cmds})),
            Ok(o) => {
                if m == "none" && o.class != expect {
                    // the grammar (or the mirror of the wire layout) is wrong: not a verdict about the code
                    vrt::die(&format!("grammar self-test: unmutated template {t} gave {} ({}) but the spec says {expect}", o.class, o.detail));
                }
                let drift = u64::from(expect != "any" && o.class != expect);
                out.emit(json!({"i": i, "ok": true, "step": -1, "drift": drift,
                                "obs": {"class": o.class, "detail": o.detail, "len": bytes.len(), "cmds": o.cmds}}));
            }
        }
    }
    out.finish();
}

fn hex(b: &[u8]) -> String {
    b.iter().map(|x| format!("{x:02x}")).collect()
}
