//! Shared machinery of the sync engine: an accept-everything policy over self-describing
//! commands, the expansion (STRETCH) of a TLC-chosen abstract DAG into real commands, and a
//! replica builder that delivers any causally closed part of that expansion into a real
//! `ClientState` over in-memory linear storage with a seeded layout (delivery order, segment
//! cuts by `Transaction::flush`, commit points).
//!
//! Abstract DAG: nodes 1..=N (1 = init), `par[n]` = set of 0/1/2 smaller nodes.  Every node
//! expands to `size` real commands, either a *chain* (element i+1 is the child of element i;
//! element 1 carries the abstract parents; children of the node attach to the last element)
//! or a *fan* (all elements are siblings carrying the abstract parents; children attach to
//! element 1).  The integer `code = node * 1000 + element` names a real command in traces.
use std::collections::{BTreeMap, BTreeSet};

use aranya_runtime::{
    storage::linear::testing::MemStorageProvider, testing::hash_for_testing_only, ActionPlacement,
    Address, ClientError, ClientState, CmdId, Command, CommandPlacement, FactPerspective, GraphId,
    Keys, MaxCut, MemSpill, MergeIds, Perspective, Policy, PolicyError, PolicyId, PolicyStore,
    Prior, Priority, RuntimeBuffers, Sink, Storage, StorageProvider, Transaction,
};
use vrt::{die, Rng, Value, J};

pub type SP = MemStorageProvider;
pub type Seg = <SP as StorageProvider>::Segment;
pub type Bufs = RuntimeBuffers<Seg>;
pub type Client = ClientState<VStore, SP>;
pub type Trx = Transaction<SP, VStore>;

// ------------------------------------------------------------------------------------------
// Policy
// ------------------------------------------------------------------------------------------

/// A self-describing command: the runtime derives nothing from ids but order, so the
/// harness chooses id, parent, priority and payload freely.
#[derive(Clone, Debug)]
pub struct VCmd {
    pub id: CmdId,
    pub parent: Prior<Address>,
    pub prio: Priority,
    pub policy: Option<Vec<u8>>,
    pub data: Vec<u8>,
}

impl Command for VCmd {
    fn priority(&self) -> Priority {
        self.prio.clone()
    }
    fn id(&self) -> CmdId {
        self.id
    }
    fn parent(&self) -> Prior<Address> {
        self.parent
    }
    fn policy(&self) -> Option<&[u8]> {
        self.policy.as_deref()
    }
    fn bytes(&self) -> &[u8] {
        &self.data
    }
}

pub struct VStore {
    policy: VPolicy,
}

impl VStore {
    pub fn new() -> Self {
        VStore { policy: VPolicy }
    }
}

impl PolicyStore for VStore {
    type Policy = VPolicy;
    type Effect = ();
    fn add_policy(&mut self, _policy: &[u8]) -> Result<PolicyId, PolicyError> {
        Ok(PolicyId::new(0))
    }
    fn get_policy(&self, _id: PolicyId) -> Result<&Self::Policy, PolicyError> {
        Ok(&self.policy)
    }
}

pub struct VPolicy;

/// Action: publish one basic command with the given id/priority/payload on the current head.
pub struct VAction {
    pub id: CmdId,
    pub prio: u32,
    pub data: Vec<u8>,
}

impl Policy for VPolicy {
    type Action<'a> = VAction;
    type Effect = ();
    type Command<'a> = VCmd;

    fn serial(&self) -> u32 {
        0
    }

    fn call_rule(
        &self,
        command: &impl Command,
        facts: &mut impl FactPerspective,
        _sink: &mut impl Sink<()>,
        _placement: CommandPlacement,
    ) -> Result<(), PolicyError> {
        // accept everything; one small fact per command (key = id) so fact storage is exercised
        let id = command.id();
        let b = command.bytes();
        let v: Vec<u8> = b.iter().take(4).copied().collect();
        facts
            .insert("c".into(), Keys::from_iter([id.as_bytes().to_vec()]), v.into())
            .map_err(|_| PolicyError::Write)?;
        Ok(())
    }

    fn call_action(
        &self,
        action: VAction,
        facts: &mut impl Perspective,
        sink: &mut impl Sink<()>,
        _placement: ActionPlacement,
    ) -> Result<(), PolicyError> {
        let parent = match facts.head_address()? {
            Prior::None => Prior::None,
            Prior::Single(a) => Prior::Single(a),
            Prior::Merge(_, _) => return Err(PolicyError::InternalError),
        };
        let init = matches!(parent, Prior::None);
        let cmd = VCmd {
            id: action.id,
            parent,
            prio: if init { Priority::Init } else { Priority::Basic(action.prio) },
            policy: if init { Some(vec![0u8]) } else { None },
            data: action.data,
        };
        self.call_rule(&cmd, facts, sink, CommandPlacement::OnGraphAtOrigin)?;
        facts.add_command(&cmd).map_err(|_| PolicyError::Write)?;
        Ok(())
    }

    fn merge<'a>(&self, _target: &'a mut [u8], ids: MergeIds) -> Result<VCmd, PolicyError> {
        let (l, r): (Address, Address) = ids.into();
        let both = [*l.id.as_array(), *r.id.as_array()];
        let id = hash_for_testing_only(both.as_flattened());
        Ok(VCmd { id, parent: Prior::Merge(l, r), prio: Priority::Merge, policy: None, data: b"m".to_vec() })
    }
}

pub struct Null;
impl Sink<()> for Null {
    fn begin(&mut self) {}
    fn consume(&mut self, _: ()) {}
    fn rollback(&mut self) {}
    fn commit(&mut self) {}
}

// ------------------------------------------------------------------------------------------
// Expansion of an abstract DAG (STRETCH)
// ------------------------------------------------------------------------------------------

#[derive(Clone, Copy, Debug, PartialEq, Eq)]
pub enum Kind {
    Chain,
    Fan,
}

#[derive(Clone, Debug)]
pub struct Real {
    pub node: usize,
    pub elem: usize,
    pub code: u64,
    pub parents: Vec<usize>, // indices into Expanded::cmds
    pub cmd: VCmd,
    pub addr: Address,
}

pub struct Expanded {
    pub n: usize,
    pub par: Vec<Vec<usize>>,          // 1-based nodes; par[0] unused
    pub kind: Vec<Kind>,               // per node
    pub size: Vec<usize>,              // per node
    pub cmds: Vec<Real>,               // topological order
    pub of_node: Vec<Vec<usize>>,      // node -> indices of its elements (element order)
    pub by_id: BTreeMap<CmdId, usize>, // id -> index
    pub graph: GraphId,
}

pub const CODE_BASE: u64 = 1000;

fn mk_id(node: usize, elem: usize, salt: u64, low: bool) -> CmdId {
    let mut r = Rng::new(salt ^ ((node as u64) << 32) ^ elem as u64);
    let mut b = [0u8; 32];
    r.fill(&mut b[..8]); // leading bytes decide the id order: pseudo-random w.r.t. ancestry
    if low {
        b[..8].fill(0); // "idlow" nodes sort before every other command (head sets and samples list them first)
    }
    b[8] = node as u8;
    b[9] = (elem >> 8) as u8;
    b[10] = elem as u8;
    b[31] = 0x5a;
    CmdId::from(b)
}

/// Parse `par` (array over nodes 1..N of arrays of parents) from a behaviour.
pub fn parse_par(v: &Value) -> Vec<Vec<usize>> {
    let mut par = vec![vec![]];
    for (i, ps) in v.as_array().unwrap_or_else(|| die("par not an array")).iter().enumerate() {
        let mut p: Vec<usize> = ps
            .as_array()
            .unwrap_or_else(|| die("par[i] not an array"))
            .iter()
            .map(|x| x.as_u64().unwrap_or_else(|| die("parent not a number")) as usize)
            .collect();
        p.sort();
        if p.iter().any(|&q| q == 0 || q > i) || p.len() > 2 || (i == 0 && !p.is_empty()) || (i > 0 && p.is_empty()) {
            die(&format!("malformed par at node {}: {:?}", i + 1, p));
        }
        par.push(p);
    }
    par
}

pub fn parse_set(v: &Value) -> BTreeSet<usize> {
    v.as_array().unwrap_or_else(|| die("set not an array")).iter().map(|x| x.as_u64().unwrap_or_else(|| die("set element not a number")) as usize).collect()
}

/// Parse the stretch plan: array over nodes of {"kind":"chain"|"fan","k":n}; missing = chain/1.
pub fn parse_stretch(b: &Value, n: usize) -> (Vec<Kind>, Vec<usize>, Vec<bool>) {
    let mut kind = vec![Kind::Chain; n + 1];
    let mut size = vec![1usize; n + 1];
    let mut low = vec![false; n + 1];
    if let Some(a) = b.get("stretch").and_then(Value::as_array) {
        for (i, s) in a.iter().enumerate().take(n) {
            kind[i + 1] = if s.s("kind") == "fan" { Kind::Fan } else { Kind::Chain };
            size[i + 1] = (s.u("k") as usize).clamp(1, (CODE_BASE - 1) as usize);
            low[i + 1] = s.get("idlow").and_then(Value::as_bool).unwrap_or(false);
        }
    }
    if kind[1] == Kind::Fan {
        die("init node cannot be a fan");
    }
    (kind, size, low)
}

impl Expanded {
    pub fn new(par: Vec<Vec<usize>>, kind: Vec<Kind>, size: Vec<usize>, salt: u64) -> Self {
        let low = vec![false; par.len()];
        Self::new_with(par, kind, size, low, salt)
    }

    pub fn new_with(par: Vec<Vec<usize>>, kind: Vec<Kind>, size: Vec<usize>, low: Vec<bool>, salt: u64) -> Self {
        let n = par.len() - 1;
        let mut cmds: Vec<Real> = Vec::new();
        let mut of_node: Vec<Vec<usize>> = vec![vec![]; n + 1];
        let attach = |of_node: &Vec<Vec<usize>>, kind: &Vec<Kind>, p: usize| -> usize {
            match kind[p] {
                Kind::Chain => *of_node[p].last().unwrap(),
                Kind::Fan => of_node[p][0],
            }
        };
        for node in 1..=n {
            for elem in 1..=size[node] {
                let parents: Vec<usize> = if elem == 1 || kind[node] == Kind::Fan {
                    par[node].iter().map(|&p| attach(&of_node, &kind, p)).collect()
                } else {
                    vec![*of_node[node].last().unwrap()]
                };
                let id = mk_id(node, elem, salt, low[node]);
                let mut paddr: Vec<Address> = parents.iter().map(|&i| cmds[i].addr).collect();
                paddr.sort_by_key(|a| a.id);
                let (parent, mc, prio) = match paddr.len() {
                    0 => (Prior::None, 0, Priority::Init),
                    1 => (Prior::Single(paddr[0]), paddr[0].max_cut.get() + 1, Priority::Basic((node * 7 + elem) as u32 % 5)),
                    _ => (
                        Prior::Merge(paddr[0], paddr[1]),
                        paddr[0].max_cut.get().max(paddr[1].max_cut.get()) + 1,
                        Priority::Merge,
                    ),
                };
                // payload: a few bytes, length varies (exercises the length fields of CommandMeta)
                let mut data = vec![node as u8, (elem >> 8) as u8, elem as u8];
                data.extend(std::iter::repeat_n(0xc0 + node as u8, (node * 3 + elem) % 11));
                let cmd = VCmd {
                    id,
                    parent,
                    prio,
                    policy: if paddr.is_empty() { Some(vec![0u8]) } else { None },
                    data,
                };
                let addr = Address { id, max_cut: MaxCut::new(mc) };
                of_node[node].push(cmds.len());
                cmds.push(Real { node, elem, code: node as u64 * CODE_BASE + elem as u64, parents, cmd, addr });
            }
        }
        let by_id = cmds.iter().enumerate().map(|(i, c)| (c.cmd.id, i)).collect();
        let graph = GraphId::transmute(cmds[0].cmd.id);
        Expanded { n, par, kind, size, cmds, of_node, by_id, graph }
    }

    pub fn from_behaviour(b: &Value, salt: u64) -> Self {
        let par = parse_par(b.g("par"));
        let n = par.len() - 1;
        let (kind, size, low) = parse_stretch(b, n);
        Expanded::new_with(par, kind, size, low, salt)
    }

    /// All real command indices of a set of abstract nodes.
    pub fn reals_of(&self, nodes: &BTreeSet<usize>) -> BTreeSet<usize> {
        nodes.iter().flat_map(|&n| self.of_node[n].iter().copied()).collect()
    }

    /// The real command that stands for abstract node `n` when an *address* of the node is needed
    /// (chain: its last element; fan: element 1) — the one children attach to.
    pub fn rep(&self, n: usize) -> usize {
        match self.kind[n] {
            Kind::Chain => *self.of_node[n].last().unwrap(),
            Kind::Fan => self.of_node[n][0],
        }
    }

    pub fn code_of(&self, id: CmdId) -> Option<u64> {
        self.by_id.get(&id).map(|&i| self.cmds[i].code)
    }

    /// Ancestors (strict) of real command `i`, as indices.
    pub fn ancestors(&self, i: usize) -> BTreeSet<usize> {
        let mut out = BTreeSet::new();
        let mut st = self.cmds[i].parents.clone();
        while let Some(x) = st.pop() {
            if out.insert(x) {
                st.extend(self.cmds[x].parents.iter().copied());
            }
        }
        out
    }
}

// ------------------------------------------------------------------------------------------
// Replica
// ------------------------------------------------------------------------------------------

/// Layout parameters of a replica (how its history was delivered).
#[derive(Clone, Debug)]
pub struct Layout {
    pub seed: u64,
    /// 0: follow a chain as long as possible (long segments); 1: switch strand with prob 1/6;
    /// 2: switch after every command (maximal fragmentation)
    pub frag: u64,
    /// commit after about this many commands (0 = one commit at the end)
    pub commit_every: u64,
    /// flush (segment cut without commit) with probability 1/flush_den per batch (0 = never)
    pub flush_den: u64,
    /// largest add_commands batch (0 = 40); with flush_den = 1 or commit_every = 1 this is the
    /// segment length (1 = every command its own segment, as a replica that authored them has)
    pub batch_max: u64,
    /// deliver abstract node by abstract node and cut a segment at every node boundary
    pub node_cut: bool,
}

impl Layout {
    pub fn parse(v: Option<&Value>, dflt_seed: u64) -> Self {
        let mut l = Layout { seed: dflt_seed, frag: 0, commit_every: 0, flush_den: 0, batch_max: 0, node_cut: false };
        if let Some(v) = v {
            if let Some(x) = v.get("seed").and_then(Value::as_u64) {
                l.seed = x;
            }
            if let Some(x) = v.get("frag").and_then(Value::as_u64) {
                l.frag = x;
            }
            if let Some(x) = v.get("commit_every").and_then(Value::as_u64) {
                l.commit_every = x;
            }
            if let Some(x) = v.get("flush_den").and_then(Value::as_u64) {
                l.flush_den = x;
            }
            if let Some(x) = v.get("batch_max").and_then(Value::as_u64) {
                l.batch_max = x;
            }
            if let Some(x) = v.get("node_cut").and_then(Value::as_bool) {
                l.node_cut = x;
            }
        }
        l
    }
}

pub struct Replica {
    pub client: Client,
    pub graph: GraphId,
    pub bufs: Bufs,
    /// real command indices committed (harness bookkeeping, cross-checked by `walk`)
    pub have: BTreeSet<usize>,
}

pub fn err_class(e: &ClientError) -> String {
    match e {
        ClientError::NoSuchParent(_) => "NoSuchParent".into(),
        ClientError::PolicyError(_) => "PolicyError".into(),
        ClientError::StorageError(s) => format!("StorageError:{s}"),
        ClientError::InitError => "InitError".into(),
        ClientError::ParallelFinalize => "ParallelFinalize".into(),
        ClientError::ConcurrentTransaction => "ConcurrentTransaction".into(),
        ClientError::Bug(b) => format!("Bug:{b}"),
        e => format!("other:{e}"),
    }
}

impl Replica {
    pub fn empty(graph: GraphId) -> Self {
        Replica { client: ClientState::new(VStore::new(), SP::default()), graph, bufs: RuntimeBuffers::new(), have: BTreeSet::new() }
    }

    /// A seeded topological delivery order of `want` (causally closed set of real indices).
    pub fn delivery_order(exp: &Expanded, want: &BTreeSet<usize>, lay: &Layout) -> Vec<usize> {
        if lay.node_cut {
            return want.iter().copied().collect(); // expansion order: node by node, elements ascending
        }
        let mut rng = Rng::new(lay.seed ^ 0x11);
        let mut done: BTreeSet<usize> = BTreeSet::new();
        let mut children: BTreeMap<usize, Vec<usize>> = BTreeMap::new();
        for &i in want {
            for &p in &exp.cmds[i].parents {
                children.entry(p).or_default().push(i);
            }
        }
        let mut ready: Vec<usize> = want.iter().copied().filter(|&i| exp.cmds[i].parents.is_empty()).collect();
        let mut order = Vec::with_capacity(want.len());
        let mut last: Option<usize> = None;
        while !ready.is_empty() {
            // prefer the single-parent child of the last delivered command (stay on the strand)
            let stay = last.and_then(|l| ready.iter().position(|&r| exp.cmds[r].parents == [l]));
            let switch = match lay.frag {
                0 => false,
                1 => rng.chance(1, 6),
                _ => true,
            };
            let pos = match stay {
                Some(p) if !switch => p,
                _ => {
                    if ready.len() > 1 && switch {
                        // pick something that is not the continuation if possible
                        let cand: Vec<usize> = (0..ready.len()).filter(|&p| Some(p) != stay).collect();
                        *rng.pick(&cand)
                    } else {
                        rng.below(ready.len() as u64) as usize
                    }
                }
            };
            let c = ready.swap_remove(pos);
            order.push(c);
            done.insert(c);
            last = Some(c);
            if let Some(ch) = children.get(&c) {
                for &k in ch {
                    if !done.contains(&k) && !ready.contains(&k) && exp.cmds[k].parents.iter().all(|p| done.contains(p)) {
                        ready.push(k);
                    }
                }
            }
        }
        if order.len() != want.len() {
            die("delivery_order: set is not causally closed");
        }
        order
    }

    /// Deliver `order` (real indices, parents first) through transactions with the layout's cuts.
    /// Commands up to `commit_upto` (count) are committed; the rest is added and flushed into an
    /// open transaction that is returned (flushed-but-uncommitted storage content).
    pub fn deliver(&mut self, exp: &Expanded, order: &[usize], lay: &Layout, commit_all: bool) -> Result<Option<Trx>, String> {
        let mut rng = Rng::new(lay.seed ^ 0x22);
        let mut trx = self.client.transaction(self.graph);
        let mut pending: Vec<usize> = Vec::new();
        let mut since_commit = 0u64;
        let mut pos = 0;
        while pos < order.len() {
            let bmax = if lay.batch_max == 0 { 40 } else { lay.batch_max };
            let mut bl = (rng.range(1, bmax) as usize).min(order.len() - pos);
            if lay.node_cut {
                // never cross an abstract-node boundary inside a batch
                let node = exp.cmds[order[pos]].node;
                bl = order[pos..pos + bl].iter().take_while(|&&i| exp.cmds[i].node == node).count();
            }
            let batch: Vec<VCmd> = order[pos..pos + bl].iter().map(|&i| exp.cmds[i].cmd.clone()).collect();
            self.client
                .add_commands(&mut trx, &mut Null, &batch, &mut self.bufs, MemSpill::new)
                .map_err(|e| format!("build add_commands: {}", err_class(&e)))?;
            pending.extend_from_slice(&order[pos..pos + bl]);
            pos += bl;
            since_commit += bl as u64;
            let node_end = lay.node_cut && (pos >= order.len() || exp.cmds[order[pos]].node != exp.cmds[order[pos - 1]].node);
            if node_end || (lay.flush_den > 0 && rng.chance(1, lay.flush_den)) {
                let st = self.client.provider().get_storage(self.graph).map_err(|e| format!("get_storage: {e}"))?;
                trx.flush(st).map_err(|e| format!("flush: {}", err_class(&e)))?;
            }
            if commit_all && lay.commit_every > 0 && since_commit >= lay.commit_every && pos < order.len() {
                self.client.commit(trx, &mut Null, &mut self.bufs, MemSpill::new).map_err(|e| format!("build commit: {}", err_class(&e)))?;
                self.have.extend(pending.drain(..));
                trx = self.client.transaction(self.graph);
                since_commit = 0;
            }
        }
        if commit_all {
            self.client.commit(trx, &mut Null, &mut self.bufs, MemSpill::new).map_err(|e| format!("build commit: {}", err_class(&e)))?;
            self.have.extend(pending.drain(..));
            Ok(None)
        } else {
            if !order.is_empty() {
                let st = self.client.provider().get_storage(self.graph).map_err(|e| format!("get_storage: {e}"))?;
                trx.flush(st).map_err(|e| format!("flush: {}", err_class(&e)))?;
            }
            Ok(Some(trx))
        }
    }

    pub fn build(exp: &Expanded, nodes: &BTreeSet<usize>, lay: &Layout) -> Result<Self, String> {
        let mut r = Replica::empty(exp.graph);
        let want = exp.reals_of(nodes);
        let order = Replica::delivery_order(exp, &want, lay);
        r.deliver(exp, &order, lay, true)?;
        Ok(r)
    }

    /// Ids of every command reachable from the committed heads (real storage walk).
    pub fn walk(&mut self) -> Result<BTreeSet<CmdId>, String> {
        use aranya_runtime::Segment as _;
        let st = self.client.provider().get_storage(self.graph).map_err(|e| format!("get_storage: {e}"))?;
        let mut seen_seg = BTreeSet::new();
        let mut out = BTreeSet::new();
        let mut stack: Vec<aranya_runtime::Location> = st.get_heads().map_err(|e| format!("get_heads: {e}"))?.iter().map(|h| h.location()).collect();
        while let Some(loc) = stack.pop() {
            let seg = st.get_segment(loc).map_err(|e| format!("get_segment: {e}"))?;
            // commands of the segment up to `loc` are reachable; the whole segment is, if visited from its head;
            // a prior may point mid-segment: collect only up to that point
            let first = seg.first_location();
            for c in seg.get_from(first) {
                use aranya_runtime::CommandExt as _;
                let mc = c.max_cut().map_err(|e| format!("max_cut: {e}"))?;
                if mc <= loc.max_cut {
                    out.insert(c.id());
                }
            }
            if seen_seg.insert((seg.index(), loc.max_cut)) {
                stack.extend(seg.prior());
            }
        }
        Ok(out)
    }

    pub fn head_ids(&mut self) -> Result<Vec<CmdId>, String> {
        let st = self.client.provider().get_storage(self.graph).map_err(|e| format!("get_storage: {e}"))?;
        Ok(st.get_heads().map_err(|e| format!("get_heads: {e}"))?.iter().map(|h| h.id).collect())
    }
}
