//! C16 / C17 — I2S: real `SyncRequester` / `SyncResponder` sessions between two real replicas built
//! from a TLC-chosen (DAG shape, A.committed, B.committed) triple, recorded as an ndjson trace that
//! `Trace_Sync.tla` decides.
//!
//! case: `{"par":[[..]..], "A":[..], "B":[..],            abstract DAG and committed sets (TLC)
//!         "stretch":[{"kind","k"}..], "layA":{..}, "layB":{..}, "salt":n,     concretisation
//!         "pattern":"R"|"T"|"D", "bufs":"max"|"retry"|"ladder", "pingpong":bool}`
//!
//! patterns (all three occur in the repository):
//!   R  one requester, one responder polled until SyncEnd; one transaction, commit, update_heads
//!      (sync/responder.rs tests `run_full_session`)
//!   T  one response per session: fresh requester and responder per exchange, transaction +
//!      commit + update_heads per exchange (aranya-tcp-syncer `sync`/`dispatch`)
//!   D  one response per session against a transaction kept open across exchanges, flushed after
//!      every exchange and advertised through `Transaction::session_heads`; commit + update_heads
//!      when an exchange received nothing new and at the end (testing/dsl.rs `sync` + Sync rule)
//! bufs: responder poll buffers — always MAX_SYNC_MESSAGE_SIZE; a too-small first attempt followed
//!   by a retry with the full size; or a ladder of growing sizes until the poll succeeds.
//!
//! The trace names real commands by their 1-based topological index in the expansion; `par` of
//! the `reset` event is the real (stretched) DAG, so the trace spec applies the operators of
//! SyncAbs to the real commands.
use std::{collections::BTreeSet, io::Write};

use aranya_runtime::{
    Address, Command, CommandExt as _, MemSpill, PeerCache, StorageProvider, SyncError, SyncIncoming, SyncRequester,
    SyncResponder, MAX_SYNC_MESSAGE_SIZE,
};
use vrt::{json, Args, Rng, Value, J};

use crate::{
    model::{err_class, Expanded, Layout, Null, Replica, Trx},
    wire::{dec, FixedRng, MRequest, MResponse, MSyncType},
};

pub struct Peer {
    pub name: &'static str,
    pub rep: Replica,
    /// what this peer knows the other has (requester side; `update_heads`)
    pub req_cache: PeerCache,
    /// the responder-side cache for the other peer (`SyncResponder::poll`)
    pub resp_cache: PeerCache,
}

pub struct Log {
    w: Box<dyn Write>,
    pub case: usize,
    pub lines: usize,
}

impl Log {
    pub fn ev(&mut self, mut v: Value) {
        v.as_object_mut().unwrap().insert("case".into(), json!(self.case));
        vrt::serde_json::to_writer(&mut self.w, &v).unwrap();
        self.w.write_all(b"\n").unwrap();
        self.lines += 1;
    }
}

fn sync_err(e: &SyncError) -> String {
    match e {
        SyncError::SessionMismatch => "SessionMismatch".into(),
        SyncError::MissingSyncResponse => "MissingSyncResponse".into(),
        SyncError::SessionState => "SessionState".into(),
        SyncError::NotReady => "NotReady".into(),
        SyncError::CommandOverflow => "CommandOverflow".into(),
        SyncError::BufferTooSmall => "BufferTooSmall".into(),
        SyncError::MalformedResponse => "MalformedResponse".into(),
        SyncError::UnsupportedRequest => "UnsupportedRequest".into(),
        SyncError::Storage(s) => format!("Storage:{s}"),
        SyncError::Serialize(s) => format!("Serialize:{s}"),
        SyncError::Bug(b) => format!("Bug:{b}"),
        e => format!("other:{e}"),
    }
}

fn too_small(e: &SyncError) -> bool {
    matches!(e, SyncError::BufferTooSmall | SyncError::Serialize(postcard::Error::SerializeBufferFull))
}

#[derive(Clone, Copy, PartialEq)]
enum Bufs {
    Max,
    Retry,
    Ladder,
}

/// One responder poll with the case's buffer plan.  Returns (bytes, retries) or the error.
fn poll_responder(
    r: &mut SyncResponder,
    resp: &mut Peer,
    target: &mut [u8],
    plan: Bufs,
    rng: &mut Rng,
) -> Result<(usize, u64), SyncError> {
    let sizes: Vec<usize> = match plan {
        Bufs::Max => vec![MAX_SYNC_MESSAGE_SIZE],
        Bufs::Retry => vec![*rng.pick(&[40usize, 64, 300, 600, 2000, 9000]), MAX_SYNC_MESSAGE_SIZE],
        Bufs::Ladder => vec![48, 700, 6000, 40_000, MAX_SYNC_MESSAGE_SIZE],
    };
    let mut retries = 0;
    let mut last = None;
    for s in sizes {
        let Replica { client, bufs, .. } = &mut resp.rep;
        match r.poll(&mut target[..s], client.provider(), &mut resp.resp_cache, &mut bufs.traversal) {
            Ok(n) => return Ok((n, retries)),
            Err(e) if too_small(&e) => {
                retries += 1;
                last = Some(e);
            }
            Err(e) => return Err(e),
        }
    }
    Err(last.unwrap())
}

/// Map the commands of a real response to trace indices (0 = not a command of the case, or a
/// command whose parent/priority/payload differs from the original).
fn map_cmds<'a, C: Command>(exp: &Expanded, cmds: impl Iterator<Item = &'a C>) -> Vec<u64>
where
    C: 'a,
{
    cmds.map(|c| match exp.by_id.get(&c.id()) {
        Some(&i) => {
            let o = &exp.cmds[i].cmd;
            if c.parent() == o.parent && c.priority() == o.prio && c.bytes() == o.data.as_slice() && c.policy() == o.policy.as_deref() {
                i as u64 + 1
            } else {
                0
            }
        }
        None => 0,
    })
    .collect()
}

struct SessOut {
    received: Vec<Address>, // addresses of every received command (for update_heads)
    new_cmds: usize,        // as counted by add_commands
    fatal: bool,            // the session hit an error; the case stops
}

/// One session: requester of `req` samples, responder of `resp` answers (`oneshot`: a single poll),
/// received commands go into `trx`.  Logs sample / response / end|noend|error / close.
#[allow(clippy::too_many_arguments)]
fn session(
    exp: &Expanded,
    req: &mut Peer,
    resp: &mut Peer,
    trx: &mut Trx,
    use_trx_heads: bool,
    oneshot: bool,
    sid: u128,
    plan: Bufs,
    rng: &mut Rng,
    log: &mut Log,
) -> SessOut {
    let mut out = SessOut { received: vec![], new_cmds: 0, fatal: false };
    let graph = exp.graph;
    let mut requester = SyncRequester::new(graph, FixedRng(sid));
    let mut buf = vec![0u8; MAX_SYNC_MESSAGE_SIZE];
    let head_ix: Vec<u64> = req.rep.head_ids().map(|h| h.iter().map(|id| exp.by_id.get(id).map(|&i| i as u64 + 1).unwrap_or(0)).collect()).unwrap_or_default();
    let heads = head_ix.len();
    let polled = {
        let Replica { client, bufs, .. } = &mut req.rep;
        if use_trx_heads {
            requester.poll(&mut buf, client.provider(), &trx.session_heads(&req.req_cache), &mut bufs.traversal.primary)
        } else {
            requester.poll(&mut buf, client.provider(), &req.req_cache.session_heads(), &mut bufs.traversal.primary)
        }
    };
    let len = match polled {
        Ok((len, _)) => len,
        Err(e) => {
            log.ev(json!({"e": "error", "who": "requester.poll", "what": sync_err(&e)}));
            log.ev(json!({"e": "close", "inseg_ok": false, "straddled": false, "resp_cache": []}));
            out.fatal = true;
            return out;
        }
    };
    // what went on the wire
    let sample: Vec<u64> = match dec::<MSyncType>(&buf[..len]) {
        Ok((MSyncType::Poll { request: MRequest::SyncRequest { commands, session_id, .. } }, _)) if session_id == sid => {
            commands.iter().map(|a| match exp.by_id.get(&a.id) {
                Some(&i) if exp.cmds[i].addr == *a => i as u64 + 1,
                _ => 0,
            }).collect()
        }
        other => vrt::die(&format!("requester poll is not a SyncRequest of this session: {other:?}")),
    };
    let cache: Vec<u64> = req.req_cache.heads().iter().map(|h| exp.by_id.get(&h.id).map(|&i| i as u64 + 1).unwrap_or(0)).collect();
    log.ev(json!({"e": "sample", "req": req.name, "resp": resp.name, "sid": (sid & 0xffff) as u64, "sample": sample,
                  "heads": heads, "head_ix": head_ix, "oneshot": oneshot, "cache": cache, "push": false}));
    let mut responder = SyncResponder::new();
    match SyncIncoming::decode(&buf[..len]) {
        Ok(SyncIncoming::Poll(p)) => {
            if let Err(e) = responder.receive(p) {
                log.ev(json!({"e": "error", "who": "responder.receive", "what": sync_err(&e)}));
                log.ev(json!({"e": "close", "inseg_ok": false, "straddled": false, "resp_cache": []}));
                out.fatal = true;
                return out;
            }
        }
        _ => vrt::die("real poll did not decode as a poll"),
    }
    let mut target = vec![0u8; MAX_SYNC_MESSAGE_SIZE];
    let bound = exp.cmds.len() + 2; // a session sends every command at most once
    let mut rounds = 0usize;
    let mut ended = false;
    while responder.ready() {
        if rounds >= bound {
            break;
        }
        rounds += 1;
        let (n, retries) = match poll_responder(&mut responder, resp, &mut target, plan, rng) {
            Ok(x) => x,
            Err(e) => {
                log.ev(json!({"e": "error", "who": "responder.poll", "what": sync_err(&e)}));
                out.fatal = true;
                break;
            }
        };
        // independent reading of the response header
        let (hdr_index, hdr_end) = match dec::<MResponse>(&target[..n]) {
            Ok((MResponse::SyncResponse { response_index, session_id, .. }, _)) if session_id == sid => (Some(response_index), None),
            Ok((MResponse::SyncEnd { max_index, session_id, .. }, _)) if session_id == sid => (None, Some(max_index)),
            other => {
                log.ev(json!({"e": "error", "who": "responder.poll", "what": format!("unexpected message {:?}", other.map(|o| o.0))}));
                out.fatal = true;
                break;
            }
        };
        match requester.receive(&target[..n]) {
            Ok(Some(cmds)) => {
                let ids = map_cmds(exp, cmds.iter());
                let Replica { client, bufs, .. } = &mut req.rep;
                let added = client.add_commands(trx, &mut Null, &cmds, bufs, MemSpill::new);
                let (add, cnt) = match &added {
                    Ok(n) => ("ok".to_string(), *n),
                    Err(e) => (err_class(e), 0),
                };
                log.ev(json!({"e": "response", "index": hdr_index.map(|x| x as i64).unwrap_or(-1), "cmds": ids, "add": add,
                              "added": cnt, "retries": retries}));
                out.received.extend(cmds.iter().filter_map(|c| c.address().ok()));
                out.new_cmds += cnt;
                if added.is_err() {
                    out.fatal = true;
                    break;
                }
            }
            Ok(None) => {
                log.ev(json!({"e": "end", "max_index": hdr_end.map(|x| x as i64).unwrap_or(-1), "retries": retries}));
                ended = true;
                break;
            }
            Err(e) => {
                log.ev(json!({"e": "error", "who": "requester.receive", "what": sync_err(&e)}));
                out.fatal = true;
                break;
            }
        }
        if oneshot {
            break;
        }
    }
    if !oneshot && !ended && !out.fatal {
        log.ev(json!({"e": "noend", "rounds": rounds, "ready": responder.ready()}));
        out.fatal = true;
    }
    let (inseg_ok, straddled) = if out.new_cmds == 0 && !out.received.is_empty() && !out.fatal {
        dup_observations(exp, resp, &sample, &out.received)
    } else {
        (true, false)
    };
    let rc = cache_ix(exp, &resp.resp_cache);
    log.ev(json!({"e": "close", "inseg_ok": inseg_ok, "straddled": straddled, "resp_cache": rc}));
    out
}

fn cache_ix(exp: &Expanded, c: &PeerCache) -> Vec<u64> {
    c.heads().iter().map(|h| exp.by_id.get(&h.id).map(|&i| i as u64 + 1).unwrap_or(0)).collect()
}

/// One subscribe + push exchange as in aranya-tcp-syncer: `req` subscribes (its sample travels in the
/// Subscribe message), `resp` records the sample in its cache for the peer (`update_heads`), starts
/// a session from that cache (`start_session`) and pushes one message; `req` ingests it with
/// `receive_push`, commits and updates its own cache.
fn push_exchange(exp: &Expanded, req: &mut Peer, resp: &mut Peer, sid: u128, log: &mut Log) -> Result<(), ()> {
    let graph = exp.graph;
    let mut rq = SyncRequester::new(graph, FixedRng(sid));
    let mut buf = vec![0u8; MAX_SYNC_MESSAGE_SIZE];
    let head_ix: Vec<u64> = req.rep.head_ids().map(|h| h.iter().map(|id| exp.by_id.get(id).map(|&i| i as u64 + 1).unwrap_or(0)).collect()).unwrap_or_default();
    let n = {
        let Replica { client, bufs, .. } = &mut req.rep;
        match rq.subscribe(&mut buf, client.provider(), &req.req_cache.session_heads(), 60, 1 << 20, &mut bufs.traversal.primary) {
            Ok(n) => n,
            Err(e) => {
                log.ev(json!({"e": "error", "who": "requester.subscribe", "what": sync_err(&e)}));
                return Err(());
            }
        }
    };
    let sample: Vec<u64> = match dec::<MSyncType>(&buf[..n]) {
        Ok((MSyncType::Subscribe { commands, .. }, _)) => commands.iter().map(|a| match exp.by_id.get(&a.id) {
            Some(&i) if exp.cmds[i].addr == *a => i as u64 + 1,
            _ => 0,
        }).collect(),
        other => vrt::die(&format!("subscribe did not write a Subscribe message: {other:?}")),
    };
    log.ev(json!({"e": "sample", "req": req.name, "resp": resp.name, "sid": (sid & 0xffff) as u64, "sample": sample,
                  "heads": head_ix.len(), "head_ix": head_ix, "oneshot": true, "cache": cache_ix(exp, &req.req_cache), "push": true}));
    let fail = |log: &mut Log, who: &str, what: String| {
        log.ev(json!({"e": "error", "who": who, "what": what}));
        Err(())
    };
    match SyncIncoming::decode(&buf[..n]) {
        Ok(SyncIncoming::Subscribe(sub)) => {
            let Replica { client, bufs, .. } = &mut resp.rep;
            if let Err(e) = client.update_heads(sub.graph_id(), sub.heads().iter(), &mut resp.resp_cache, &mut bufs.traversal.primary) {
                return fail(log, "update_heads", err_class(&e));
            }
        }
        _ => vrt::die("a real subscribe message did not decode as Subscribe"),
    }
    let mut responder = SyncResponder::new();
    let psid = sid ^ 0x5050;
    if let Err(e) = responder.start_session(psid, graph, 0, resp.resp_cache.heads().iter().map(|h| h.address())) {
        return fail(log, "responder.start_session", sync_err(&e));
    }
    let mut target = vec![0u8; MAX_SYNC_MESSAGE_SIZE];
    let len = {
        let Replica { client, bufs, .. } = &mut resp.rep;
        match responder.push(&mut target, client.provider(), &mut bufs.traversal) {
            Ok(n) => n,
            Err(e) => return fail(log, "responder.push", sync_err(&e)),
        }
    };
    let mut received: Vec<Address> = vec![];
    if len > 0 {
        let index = match dec::<MSyncType>(&target[..len]) {
            Ok((MSyncType::Push { message: MResponse::SyncResponse { response_index, session_id, .. }, graph_id }, _)) if session_id == psid && graph_id == graph => response_index as i64,
            other => return fail(log, "responder.push", format!("unexpected message {:?}", other.map(|o| o.0))),
        };
        match SyncIncoming::decode(&target[..len]) {
            Ok(SyncIncoming::Push(p)) => {
                let mut r2 = SyncRequester::new_session_id(p.graph_id(), p.session_id());
                match r2.receive_push(p) {
                    Ok(Some(cmds)) => {
                        let ids = map_cmds(exp, cmds.iter());
                        let mut trx = req.rep.client.transaction(graph);
                        let Replica { client, bufs, .. } = &mut req.rep;
                        let added = client.add_commands(&mut trx, &mut Null, &cmds, bufs, MemSpill::new);
                        let (add, cnt) = match &added {
                            Ok(n) => ("ok".to_string(), *n),
                            Err(e) => (err_class(e), 0),
                        };
                        log.ev(json!({"e": "response", "index": index, "cmds": ids, "add": add, "added": cnt, "retries": 0}));
                        received.extend(cmds.iter().filter_map(|c| c.address().ok()));
                        if added.is_err() {
                            log.ev(json!({"e": "close", "inseg_ok": false, "straddled": false, "resp_cache": cache_ix(exp, &resp.resp_cache)}));
                            return Err(());
                        }
                        log.ev(json!({"e": "close", "inseg_ok": true, "straddled": false, "resp_cache": cache_ix(exp, &resp.resp_cache)}));
                        if !commit(exp, req, trx, received, log) {
                            return Err(());
                        }
                        return Ok(());
                    }
                    Ok(None) => {}
                    Err(e) => return fail(log, "requester.receive_push", sync_err(&e)),
                }
            }
            _ => return fail(log, "decode", "a push did not decode as Push".into()),
        }
    }
    log.ev(json!({"e": "close", "inseg_ok": true, "straddled": false, "resp_cache": cache_ix(exp, &resp.resp_cache)}));
    Ok(())
}

/// Storage-level observations about a session that delivered only duplicates (used by Trace_Sync
/// to classify it): `inseg_ok` — no received command has, in its own responder segment, a sample
/// address the responder can locate at or above it (the responder honoured in-segment coverage);
/// `straddled` — every received command that is an ancestor-or-self of a located sample address
/// lies in a responder segment that also holds, above it, a command no located sample address covers
/// (the segment was queued from its uncovered head; the coverage arrived through a prior that points
/// into the middle of the segment and was dropped by `TraversalQueue::push_covered`).
fn dup_observations(exp: &Expanded, resp: &mut Peer, sample: &[u64], received: &[Address]) -> (bool, bool) {
    use aranya_runtime::Storage as _;
    let graph = exp.graph;
    let committed = match resp.rep.walk() {
        Ok(w) => w,
        Err(_) => return (false, false),
    };
    let Replica { client, bufs, .. } = &mut resp.rep;
    let Ok(st) = client.provider().get_storage(graph) else { return (false, false) };
    let mut loc_of = |a: Address| st.get_location(a, &mut bufs.traversal.primary).ok().flatten();
    // located sample addresses and what they cover
    let located: Vec<usize> = sample.iter().filter(|&&s| s > 0).map(|&s| s as usize - 1).filter(|&i| committed.contains(&exp.cmds[i].cmd.id)).collect();
    let mut covered: BTreeSet<usize> = BTreeSet::new();
    for &l in &located {
        covered.insert(l);
        covered.extend(exp.ancestors(l));
    }
    let sample_locs: Vec<_> = located.iter().filter_map(|&i| loc_of(exp.cmds[i].addr)).collect();
    // responder-side location of every committed command (for `straddled`)
    let all_locs: Vec<(usize, aranya_runtime::Location)> = exp.cmds.iter().enumerate()
        .filter(|(_, c)| committed.contains(&c.cmd.id))
        .filter_map(|(i, c)| loc_of(c.addr).map(|l| (i, l))).collect();
    let mut inseg_ok = true;
    let mut straddled = true;
    let mut any_covered = false;
    for a in received {
        let Some(&i) = exp.by_id.get(&a.id) else { return (false, false) };
        let Some(l) = loc_of(*a) else { return (false, false) };
        if sample_locs.iter().any(|s| s.segment == l.segment && s.max_cut >= l.max_cut) {
            inseg_ok = false;
        }
        if covered.contains(&i) {
            any_covered = true;
            if !all_locs.iter().any(|(u, ul)| ul.segment == l.segment && ul.max_cut > l.max_cut && !covered.contains(u)) {
                straddled = false;
            }
        }
    }
    (inseg_ok, straddled && any_covered)
}

fn commit(exp: &Expanded, p: &mut Peer, trx: Trx, received: Vec<Address>, log: &mut Log) -> bool {
    let Replica { client, bufs, .. } = &mut p.rep;
    let res = client.commit(trx, &mut Null, bufs, MemSpill::new);
    let ok = match &res {
        Ok(_) => "ok".to_string(),
        Err(e) => err_class(e),
    };
    if res.is_ok() {
        // as the transports do: record what the peer evidently has
        let _ = client.update_heads(exp.graph, received, &mut p.req_cache, &mut bufs.traversal.primary);
    }
    let walk: Vec<u64> = match p.rep.walk() {
        Ok(ids) => ids.iter().map(|id| exp.by_id.get(id).map(|&i| i as u64 + 1).unwrap_or(0)).collect::<BTreeSet<_>>().into_iter().collect(),
        Err(_) => vec![0],
    };
    let heads: Vec<u64> = p.rep.head_ids().map(|h| h.iter().map(|id| exp.by_id.get(id).map(|&i| i as u64 + 1).unwrap_or(0)).collect()).unwrap_or_default();
    log.ev(json!({"e": "commit", "who": p.name, "ok": ok, "walk": walk, "heads": heads}));
    res.is_ok()
}

/// Repeated sessions `req <- resp` until `req` holds everything `resp` has (harness bookkeeping by
/// real storage walks), a session fails, or sessions stall.  Returns (sessions, received anything).
#[allow(clippy::too_many_arguments)]
fn sync_until(
    exp: &Expanded,
    req: &mut Peer,
    resp: &mut Peer,
    pattern: &str,
    plan: Bufs,
    sid: &mut u128,
    rng: &mut Rng,
    log: &mut Log,
) -> Result<(usize, bool), ()> {
    let want = resp.rep.walk().map_err(|_| ())?;
    let mut have = req.rep.walk().map_err(|_| ())?;
    let mut missing = want.difference(&have).count();
    let cap = missing.min(40) + 4;
    let mut sessions = 0;
    let mut stalls = 0;
    let mut any = false;
    let mut open: Option<(Trx, Vec<Address>)> = None;
    loop {
        // pattern D keeps sampling while the open transaction may still lack something
        let held_all = open.as_ref().map(|(_, r)| r.len()).unwrap_or(0);
        if (missing == 0 && pattern != "D") || sessions >= cap || stalls >= 3 {
            break;
        }
        if pattern == "D" && missing == 0 {
            break;
        }
        *sid += 1;
        sessions += 1;
        let (mut trx, mut recv) = open.take().unwrap_or_else(|| (req.rep.client.transaction(exp.graph), vec![]));
        let so = session(exp, req, resp, &mut trx, pattern == "D", pattern != "R", *sid, plan, rng, log);
        any |= so.new_cmds > 0;
        if so.new_cmds == 0 {
            stalls += 1;
        } else {
            stalls = 0;
        }
        recv.extend(so.received.iter().copied());
        if so.fatal {
            // leave the replica as it is; the trace spec has the verdict
            return Err(());
        }
        if pattern == "D" {
            let st = req.rep.client.provider().get_storage(exp.graph).map_err(|_| ())?;
            if trx.flush(st).is_err() {
                log.ev(json!({"e": "error", "who": "transaction.flush", "what": "flush failed"}));
                return Err(());
            }
            missing = missing.saturating_sub(so.new_cmds);
            let _ = held_all;
            if so.new_cmds == 0 {
                // as the DSL's Sync rule: an exchange that received nothing ends the rule —
                // commit, advance the peer cache; a later rule opens a new transaction
                if !commit(exp, req, trx, recv, log) {
                    return Err(());
                }
            } else {
                open = Some((trx, recv));
            }
        } else {
            if !commit(exp, req, trx, recv, log) {
                return Err(());
            }
            have = req.rep.walk().map_err(|_| ())?;
            missing = want.difference(&have).count();
        }
    }
    if let Some((trx, recv)) = open.take() {
        if !commit(exp, req, trx, recv, log) {
            return Err(());
        }
    }
    log.ev(json!({"e": "converge", "req": req.name, "resp": resp.name, "sessions": sessions}));
    Ok((sessions, any))
}

pub fn run(args: &Args) {
    if let Err(e) = crate::wire::selftest() {
        vrt::die(&format!("wire mirror self-test failed (wire layout changed?): {e}"));
    }
    let mut out = args.out();
    let tpath = args.opt_str("trace", "sync-trace.ndjson");
    let f = std::fs::File::create(&tpath).unwrap_or_else(|e| vrt::die(&format!("create {tpath}: {e}")));
    let mut log = Log { w: Box::new(std::io::BufWriter::new(f)), case: 0, lines: 0 };
    for (i, b) in args.read_input().iter().enumerate() {
        log.case = i;
        let first_line = log.lines + 1;
        let salt = b.get("salt").and_then(Value::as_u64).unwrap_or(0);
        let exp = Expanded::from_behaviour(b, args.seed ^ salt);
        let a_nodes = crate::model::parse_set(b.g("A"));
        let b_nodes = crate::model::parse_set(b.g("B"));
        let pattern = b.get("pattern").and_then(Value::as_str).unwrap_or("R").to_string();
        let plan = match b.get("bufs").and_then(Value::as_str).unwrap_or("max") {
            "retry" => Bufs::Retry,
            "ladder" => Bufs::Ladder,
            _ => Bufs::Max,
        };
        let pingpong = b.get("pingpong").and_then(Value::as_bool).unwrap_or(false);
        let push = b.get("push").and_then(Value::as_bool).unwrap_or(false);
        let deep = b.get("deep").and_then(Value::as_bool).unwrap_or(false);
        let lay_a = Layout::parse(b.get("layA"), args.seed ^ 0xa);
        let lay_b = Layout::parse(b.get("layB"), args.seed ^ 0xb);
        let built = vrt::catch_any(|| -> Result<(Replica, Replica), String> {
            Ok((Replica::build(&exp, &a_nodes, &lay_a)?, Replica::build(&exp, &b_nodes, &lay_b)?))
        });
        let (ra, rb) = match built {
            Ok(Ok(x)) => x,
            Ok(Err(e)) => {
                out.fail(i, -1, "C17:build", &format!("could not build the replicas: {e}"), json!(null));
                continue;
            }
            Err(p) => {
                out.fail(i, -1, "C17:build", &format!("panic while building the replicas: {p}"), json!(null));
                continue;
            }
        };
        let par: Vec<Vec<u64>> = exp.cmds.iter().map(|c| c.parents.iter().map(|&p| p as u64 + 1).collect()).collect();
        let to_idx = |s: &BTreeSet<usize>| -> Vec<u64> { exp.reals_of(s).iter().map(|&x| x as u64 + 1).collect() };
        log.ev(json!({"e": "reset", "n": exp.cmds.len(), "par": par, "A": to_idx(&a_nodes), "B": to_idx(&b_nodes),
                      "pattern": pattern, "deep": deep, "lim": {"sample": 100, "resp": 100}}));
        let mut pa = Peer { name: "A", rep: ra, req_cache: PeerCache::new(), resp_cache: PeerCache::new() };
        let mut pb = Peer { name: "B", rep: rb, req_cache: PeerCache::new(), resp_cache: PeerCache::new() };
        let mut rng = Rng::new(args.seed ^ salt ^ 0x5e55);
        let mut sid: u128 = 0x1000 + (i as u128) * 0x100;
        let res = vrt::catch_any(|| -> Result<usize, ()> {
            if push {
                sid += 1;
                push_exchange(&exp, &mut pa, &mut pb, sid, &mut log)?;
            }
            let (s0, _) = sync_until(&exp, &mut pa, &mut pb, &pattern, plan, &mut sid, &mut rng, &mut log)?;
            let mut total = s0;
            if pingpong {
                // both directions until neither side receives anything
                let mut rounds = 0;
                loop {
                    rounds += 1;
                    let (s1, any1) = sync_until(&exp, &mut pb, &mut pa, &pattern, plan, &mut sid, &mut rng, &mut log)?;
                    let (s2, any2) = sync_until(&exp, &mut pa, &mut pb, &pattern, plan, &mut sid, &mut rng, &mut log)?;
                    total += s1 + s2;
                    if (!any1 && !any2) || rounds >= 6 {
                        break;
                    }
                }
                let ha = pa.rep.head_ids().map_err(|_| ())?;
                let hb = pb.rep.head_ids().map_err(|_| ())?;
                let wa = pa.rep.walk().map_err(|_| ())?;
                let wb = pb.rep.walk().map_err(|_| ())?;
                log.ev(json!({"e": "final", "heads_equal": ha == hb, "sets_equal": wa == wb, "rounds": rounds}));
            }
            Ok(total)
        });
        let sessions = match res {
            Ok(Ok(n)) => n as i64,
            Ok(Err(())) => -1,
            Err(p) => {
                log.ev(json!({"e": "error", "who": "panic", "what": p}));
                log.ev(json!({"e": "close", "inseg_ok": false, "straddled": false, "resp_cache": []}));
                -2
            }
        };
        out.emit(json!({"i": i, "ok": true, "step": -1,
                        "obs": {"first_line": first_line, "last_line": log.lines, "sessions": sessions, "cmds": exp.cmds.len()}}));
    }
    let _ = log.w.flush();
    out.finish();
}
