//! C20 — S2I replay of `PeerCache.tla` into `aranya_runtime::PeerCache::add_command`.
//!
//! behaviour: `{"par":[[..]..], "st":["c"|"f"|"u"..], "cap":10,
//!              "steps":[{"addr":{"n":k,"ok":bool},"cache":[..]}..],   witness path to a state
//!              "fan":[{"addr":..,"cache":[..]}..],                    every transition out of it
//!              "stretch":[{"kind","k"}..], "layout":{..}}`            concretisation (driver)
//!
//! The storage is a real replica: committed nodes are delivered and committed, "f" nodes are
//! delivered into a second transaction that is flushed and kept open, "u" nodes are never
//! delivered.  After every `add_command` the engine decides the property on the real state
//! (<= 10 entries, each committed and correctly located, antichain, only ancestors of the recorded
//! command were removed, nothing else appeared) and compares `heads()` with the spec's cache.
use std::collections::BTreeSet;

use aranya_runtime::{Address, MaxCut, PeerCache, Storage, StorageProvider};
use vrt::{json, Args, Value, J};

use crate::model::{Expanded, Layout, Replica};

struct Ctx<'a> {
    exp: &'a Expanded,
    rep: &'a mut Replica,
    committed_nodes: BTreeSet<usize>,
}

fn addr_of(exp: &Expanded, a: &Value) -> (usize, bool, Address) {
    let n = a.u("n") as usize;
    let ok = a.b("ok");
    let r = &exp.cmds[exp.rep(n)];
    let mut addr = r.addr;
    if !ok {
        // same id, wrong max cut (alternate +1 / -1 so both directions occur)
        let mc = addr.max_cut.get();
        addr.max_cut = MaxCut::new(if mc > 0 && n % 2 == 0 { mc - 1 } else { mc + 1 });
    }
    (n, ok, addr)
}

/// Project the real cache to abstract nodes (or `Err` describing a foreign entry).
fn project(c: &Ctx, cache: &PeerCache) -> Result<Vec<usize>, String> {
    let mut v = Vec::new();
    for h in cache.heads() {
        match c.exp.by_id.get(&h.id) {
            Some(&i) if c.exp.rep(c.exp.cmds[i].node) == i => v.push(c.exp.cmds[i].node),
            Some(&i) => return Err(format!("entry is a filler command code {}", c.exp.cmds[i].code)),
            None => return Err("entry with an id that was never offered".into()),
        }
    }
    Ok(v)
}

/// One add_command on the real cache; returns Err(key,msg) if the property's predicate fails.
fn step(c: &mut Ctx, cache: &mut PeerCache, a: &Value, expect: &Value) -> Result<u64, (String, String, Value)> {
    let (n, _ok, addr) = addr_of(c.exp, a);
    let before = project(c, cache).map_err(|e| ("C20:foreign-entry".to_string(), e, json!(null)))?;
    let graph = c.rep.graph;
    let res = {
        let Replica { client, bufs, .. } = &mut *c.rep;
        vrt::catch_any(|| {
            let st = client.provider().get_storage(graph).map_err(|e| format!("get_storage: {e}"))?;
            cache.add_command(st, addr, &mut bufs.traversal.primary).map_err(|e| format!("{e}"))
        })
    };
    let obs_err = match &res {
        Ok(Ok(())) => None,
        Ok(Err(e)) => Some(format!("error: {e}")),
        Err(p) => Some(format!("panic: {p}")),
    };
    if let Some(e) = obs_err {
        return Err(("C20:error".into(), format!("add_command failed on in-memory storage: {e}"), json!({"addr": a})));
    }
    let after = project(c, cache).map_err(|e| ("C20:foreign-entry".to_string(), e, json!({"addr": a})))?;
    let exp_cache: Vec<usize> = expect.as_array().map(|v| v.iter().map(|x| x.as_u64().unwrap_or(0) as usize).collect()).unwrap_or_default();
    let obs = json!({"addr": a, "before": before, "after": after, "expected": exp_cache});

    // --- the property's own predicate on the real state
    if cache.heads().len() > 10 {
        return Err(("C20:over-capacity".into(), "more than ten entries".into(), obs));
    }
    let aset: BTreeSet<usize> = after.iter().copied().collect();
    if aset.len() != after.len() {
        return Err(("C20:duplicate-entry".into(), "the same command recorded twice".into(), obs));
    }
    for &e in &after {
        if !c.committed_nodes.contains(&e) {
            return Err(("C20:uncommitted-entry".into(), format!("entry {e} is not committed in the local graph"), obs));
        }
    }
    // located correctly: segment/max_cut of the entry is where committed storage finds the address
    for h in cache.heads() {
        let Replica { client, bufs, .. } = &mut *c.rep;
        let st = client.provider().get_storage(graph).map_err(|e| ("C20:error".to_string(), format!("{e}"), json!(null)))?;
        let loc = st.get_location(h.address(), &mut bufs.traversal.primary).ok().flatten();
        if loc != Some(h.location()) {
            return Err(("C20:bad-location".into(), "entry's location is not the committed location of its address".into(), obs));
        }
    }
    let anc = |x: usize| -> BTreeSet<usize> {
        c.exp.ancestors(c.exp.rep(x)).into_iter().map(|i| c.exp.cmds[i].node).filter(|&m| m != x).collect()
    };
    for &x in &after {
        let ax = anc(x);
        if after.iter().any(|y| ax.contains(y)) {
            return Err(("C20:not-antichain".into(), format!("an entry is an ancestor of entry {x}"), obs));
        }
    }
    let bset: BTreeSet<usize> = before.iter().copied().collect();
    let an = anc(n);
    if bset.difference(&aset).any(|r| !an.contains(r)) {
        return Err(("C20:removed-non-ancestor".into(), "recording removed an entry that is not an ancestor of the recorded command".into(), obs));
    }
    if aset.difference(&bset).any(|&x| x != n) {
        return Err(("C20:foreign-entry".into(), "an entry other than the recorded command appeared".into(), obs));
    }
    // --- comparison with the spec's successor state
    let eset: BTreeSet<usize> = exp_cache.iter().copied().collect();
    if eset != aset {
        if eset.contains(&n) && !aset.contains(&n) {
            return Err(("C20:not-recorded".into(), "a committed command that is no ancestor of an entry was not recorded although there was room".into(), obs));
        }
        if !eset.contains(&n) && aset.contains(&n) {
            return Err(("C20:recorded-ignorable".into(), "a command that must be ignored was recorded".into(), obs));
        }
        return Err(("C20:heads-mismatch".into(), "heads() differs from the specified cache".into(), obs));
    }
    Ok(u64::from(exp_cache != after))
}

pub fn run(args: &Args) {
    let mut out = args.out();
    // consecutive behaviours over the same storage (same DAG, labelling, stretch, layout) share the
    // replica: add_command never mutates storage
    let mut cached: Option<(String, Expanded, Replica, Option<crate::model::Trx>)> = None;
    for (i, b) in args.read_input().iter().enumerate() {
        let ckey = format!("{}|{}|{}|{}|{}", b.g("par"), b.g("st"), b.get("stretch").unwrap_or(&Value::Null), b.get("layout").unwrap_or(&Value::Null), b.get("salt").unwrap_or(&Value::Null));
        if cached.as_ref().is_some_and(|c| c.0 != ckey) {
            cached = None;
        }
        if cached.is_none() {
        let exp = Expanded::from_behaviour(b, args.seed ^ b.get("salt").and_then(Value::as_u64).unwrap_or(0));
        let st: Vec<String> = b.a("st").iter().map(|s| s.as_str().unwrap_or("u").to_string()).collect();
        if st.len() != exp.n {
            vrt::die("st length differs from par length");
        }
        let nodes = |k: &str| -> BTreeSet<usize> { (1..=exp.n).filter(|&n| st[n - 1] == k).collect() };
        let committed = nodes("c");
        let flushed = nodes("f");
        let lay = Layout::parse(b.get("layout"), args.seed);
        let built = vrt::catch_any(|| -> Result<(Replica, Option<crate::model::Trx>), String> {
            let mut rep = Replica::build(&exp, &committed, &lay)?;
            let want = exp.reals_of(&flushed);
            let mut both = exp.reals_of(&committed);
            both.extend(want.iter().copied());
            // deliver only the flushed part, in an order consistent with the whole
            let order: Vec<usize> = Replica::delivery_order(&exp, &both, &lay).into_iter().filter(|x| want.contains(x)).collect();
            let trx = if order.is_empty() { None } else { rep.deliver(&exp, &order, &lay, false)? };
            Ok((rep, trx))
        });
        let (mut rep, _open_trx) = match built {
            Ok(Ok(x)) => x,
            Ok(Err(e)) => {
                out.fail(i, -1, "C20:build", &format!("could not build the replica: {e}"), json!(null));
                continue;
            }
            Err(p) => {
                out.fail(i, -1, "C20:build", &format!("panic while building the replica: {p}"), json!(null));
                continue;
            }
        };
        // harness sanity: what the real storage says is committed
        match rep.walk() {
            Ok(ids) => {
                let want: BTreeSet<_> = exp.reals_of(&committed).iter().map(|&i| exp.cmds[i].cmd.id).collect();
                if ids != want {
                    out.fail(i, -1, "C20:build", "committed walk differs from the requested committed set", json!({"walk": ids.len(), "want": want.len()}));
                    continue;
                }
            }
            Err(e) => {
                out.fail(i, -1, "C20:build", &e, json!(null));
                continue;
            }
        }
        cached = Some((ckey, exp, rep, _open_trx));
        }
        let (_, exp, rep, _) = cached.as_mut().unwrap();
        let st: Vec<String> = b.a("st").iter().map(|s| s.as_str().unwrap_or("u").to_string()).collect();
        let committed: BTreeSet<usize> = (1..=exp.n).filter(|&n| st[n - 1] == "c").collect();
        let mut c = Ctx { exp, rep, committed_nodes: committed };
        let steps = b.a("steps");
        let mut drift = 0u64;
        let mut failed = false;
        let mut cache = PeerCache::new();
        for (k, s) in steps.iter().enumerate() {
            match step(&mut c, &mut cache, s.g("addr"), s.g("cache")) {
                Ok(d) => drift += d,
                Err((key, msg, obs)) => {
                    out.fail(i, k as i64, &key, &msg, obs);
                    failed = true;
                    break;
                }
            }
        }
        if failed {
            continue;
        }
        // fan-out: every transition out of the reached state
        let empty = vec![];
        let fan = b.get("fan").and_then(Value::as_array).unwrap_or(&empty);
        for (k, f) in fan.iter().enumerate() {
            let mut cache = PeerCache::new();
            let mut bad = None;
            for s in steps {
                if let Err(e) = step(&mut c, &mut cache, s.g("addr"), s.g("cache")) {
                    bad = Some(e);
                    break;
                }
            }
            if bad.is_none() {
                match step(&mut c, &mut cache, f.g("addr"), f.g("cache")) {
                    Ok(d) => drift += d,
                    Err(e) => bad = Some(e),
                }
            }
            if let Some((key, msg, obs)) = bad {
                out.fail(i, (steps.len() + k) as i64, &key, &msg, obs);
                failed = true;
                break;
            }
        }
        if !failed {
            out.emit(json!({"i": i, "ok": true, "step": -1, "drift": drift,
                            "obs": {"steps": steps.len(), "fan": fan.len(), "cmds": exp.cmds.len()}}));
        }
    }
    out.finish();
}
