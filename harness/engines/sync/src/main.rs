//! `vh-sync` — conformance engine for the sync subsystem (DESIGN §3.3, C16–C18, C20).
mod model;
mod peercache;

fn main() {
    let args = vrt::Args::parse();
    match args.sub.as_str() {
        "peercache" => peercache::run(&args),
        s => vrt::die(&format!("unknown subcommand {s}")),
    }
}
