//! `vh-sync` — conformance engine for the sync subsystem (DESIGN §3.3, C16–C18, C20).
mod model;
mod peercache;
mod proto;
mod session;
mod wire;
mod wirefuzz;

fn main() {
    let args = vrt::Args::parse();
    match args.sub.as_str() {
        "peercache" => peercache::run(&args),
        "session" => session::run(&args),
        "proto" => proto::run(&args),
        "wire" => wirefuzz::run(&args),
        "wire-selftest" => match wire::selftest() {
            Ok(()) => println!("wire mirror ok"),
            Err(e) => vrt::die(&e),
        },
        s => vrt::die(&format!("unknown subcommand {s}")),
    }
}
