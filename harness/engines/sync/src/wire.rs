//! Mirror of the crate-private postcard wire types of `aranya_runtime::sync`
//! (`wire::SyncType`, `SyncRequestMessage`, `SyncResponseMessage`, `CommandMeta`, `SyncHelloType`).
//!
//! The real types are `pub(crate)`; the harness needs to (a) read what a real requester /
//! responder put on the wire (sample, response index, command metas, end index) and (b) build
//! well-formed and deliberately ill-formed messages for C18.  The mirror uses the *real* public leaf
//! types (`CmdId`, `GraphId`, `Address`, `Priority`, `Prior`) and `std::Vec` where the real types use
//! `heapless::Vec` (same wire form; lets C18 exceed the capacities).  `selftest()` proves the
//! mirror against the real code in both directions on every run; a layout change in the
//! repository makes it fail as a tool error, not as a false alarm.
use core::time::Duration;

use aranya_runtime::{Address, CmdId, GraphId, Prior, Priority};
use serde::{Deserialize, Serialize};

#[derive(Serialize, Deserialize, Debug, Clone, PartialEq)]
pub enum MRequest {
    SyncRequest { session_id: u128, graph_id: GraphId, max_bytes: u64, commands: Vec<Address> },
    RequestMissing { session_id: u128, indexes: Vec<u64> },
    SyncResume { session_id: u128, response_index: u64, max_bytes: u64 },
    EndSession { session_id: u128 },
}

#[derive(Serialize, Deserialize, Debug, Clone, PartialEq)]
pub struct MMeta {
    pub id: CmdId,
    pub priority: Priority,
    pub parent: Prior<Address>,
    pub policy_length: u32,
    pub length: u32,
}

#[derive(Serialize, Deserialize, Debug, Clone, PartialEq)]
pub enum MResponse {
    SyncResponse { session_id: u128, response_index: u64, commands: Vec<MMeta> },
    SyncEnd { session_id: u128, max_index: u64, remaining: bool },
    Offer { session_id: u128, head: CmdId },
    EndSession { session_id: u128 },
}

#[derive(Serialize, Deserialize, Debug, Clone, PartialEq)]
pub enum MHello {
    Subscribe { graph_id: GraphId, graph_change_delay: Duration, duration: Duration, schedule_delay: Duration },
    Unsubscribe { graph_id: GraphId },
    Hello { graph_id: GraphId, head: Address },
}

#[derive(Serialize, Deserialize, Debug, Clone, PartialEq)]
pub enum MSyncType {
    Poll { request: MRequest },
    Subscribe { remain_open: u64, max_bytes: u64, commands: Vec<Address>, graph_id: GraphId },
    Unsubscribe { graph_id: GraphId },
    Push { message: MResponse, graph_id: GraphId },
    Hello(MHello),
}

pub fn enc<T: Serialize>(v: &T) -> Vec<u8> {
    postcard::to_allocvec(v).expect("postcard encode of a mirror value")
}

/// Decode a mirror value from the front of `b`; returns value and the rest.
pub fn dec<'a, T: Deserialize<'a>>(b: &'a [u8]) -> Result<(T, &'a [u8]), String> {
    postcard::take_from_bytes(b).map_err(|e| format!("{e}"))
}

/// A `Csprng` that yields a chosen session id (deterministic sessions).
pub struct FixedRng(pub u128);

impl aranya_crypto::Csprng for FixedRng {
    fn fill_bytes(&self, dst: &mut [u8]) {
        let b = self.0.to_le_bytes();
        for (i, d) in dst.iter_mut().enumerate() {
            *d = b[i % 16];
        }
    }
}

/// Prove the mirror against the real code: (1) what a real requester writes decodes as the mirror
/// and re-encodes to the same bytes; (2) a mirror-encoded response is understood by a real
/// requester exactly as written; (3) every SyncType variant encoded by the mirror is decoded by
/// the real `SyncIncoming::decode` into the matching variant.
pub fn selftest() -> Result<(), String> {
    use aranya_runtime::{
        storage::linear::testing::MemStorageProvider, MaxCut, PeerCache, SyncIncoming, SyncRequester, TraversalBuffer,
        MAX_SYNC_MESSAGE_SIZE,
    };
    let gid = GraphId::from([7u8; 32]);
    let sid = 0x1122_3344_5566_7788_99aa_bbcc_ddee_ff00u128;
    let mut rq = SyncRequester::new(gid, FixedRng(sid));
    let mut buf = vec![0u8; MAX_SYNC_MESSAGE_SIZE];
    let mut prov = MemStorageProvider::default();
    let cache = PeerCache::new();
    let mut tb = TraversalBuffer::new();
    let (len, _) = rq.poll(&mut buf, &mut prov, &cache.session_heads(), &mut tb).map_err(|e| format!("poll: {e}"))?;
    let (m, rest): (MSyncType, _) = dec(&buf[..len])?;
    if !rest.is_empty() {
        return Err("mirror left bytes of a real poll".into());
    }
    match &m {
        MSyncType::Poll { request: MRequest::SyncRequest { session_id, graph_id, commands, .. } }
            if *session_id == sid && *graph_id == gid && commands.is_empty() => {}
        _ => return Err(format!("real poll decoded as {m:?}")),
    }
    if enc(&m) != buf[..len] {
        return Err("mirror re-encoding of a real poll differs".into());
    }
    // (2)
    let id = CmdId::from([9u8; 32]);
    let meta = MMeta { id, priority: Priority::Basic(3), parent: Prior::Single(Address { id: CmdId::from([8u8; 32]), max_cut: MaxCut::new(4) }), policy_length: 0, length: 3 };
    let mut msg = enc(&MResponse::SyncResponse { session_id: sid, response_index: 0, commands: vec![meta] });
    msg.extend_from_slice(b"xyz");
    match rq.receive(&msg) {
        Ok(Some(cmds)) if cmds.len() == 1 => {
            use aranya_runtime::Command as _;
            let c = &cmds[0];
            if c.id() != id || c.bytes() != b"xyz" || c.priority() != Priority::Basic(3) {
                return Err("real requester read a mirror response differently".into());
            }
        }
        other => return Err(format!("real requester rejected a mirror response: {:?}", other.map(|o| o.map(|v| v.len())))),
    }
    // (3)
    let addr = Address { id, max_cut: MaxCut::new(1) };
    let all = [
        MSyncType::Poll { request: MRequest::EndSession { session_id: sid } },
        MSyncType::Subscribe { remain_open: 5, max_bytes: 6, commands: vec![addr], graph_id: gid },
        MSyncType::Unsubscribe { graph_id: gid },
        MSyncType::Push { message: MResponse::SyncEnd { session_id: sid, max_index: 2, remaining: false }, graph_id: gid },
        MSyncType::Hello(MHello::Hello { graph_id: gid, head: addr }),
        MSyncType::Hello(MHello::Subscribe { graph_id: gid, graph_change_delay: Duration::new(1, 2), duration: Duration::new(3, 4), schedule_delay: Duration::new(5, 6) }),
        MSyncType::Hello(MHello::Unsubscribe { graph_id: gid }),
    ];
    for (k, m) in all.iter().enumerate() {
        let b = enc(m);
        let ok = match (SyncIncoming::decode(&b), k) {
            (Ok(SyncIncoming::Poll(p)), 0) => p.session_id() == sid,
            (Ok(SyncIncoming::Subscribe(s)), 1) => s.graph_id() == gid && s.heads().as_slice() == [addr] && s.max_bytes() == 6,
            (Ok(SyncIncoming::Unsubscribe(u)), 2) => u.graph_id() == gid,
            (Ok(SyncIncoming::Push(p)), 3) => p.graph_id() == gid && p.session_id() == sid,
            (Ok(SyncIncoming::Hello(aranya_runtime::SyncHello::Hello(h))), 4) => h.graph_id() == gid && h.head() == addr,
            (Ok(SyncIncoming::Hello(aranya_runtime::SyncHello::Subscribe(h))), 5) => h.graph_id() == gid && h.duration() == Duration::new(3, 4),
            (Ok(SyncIncoming::Hello(aranya_runtime::SyncHello::Unsubscribe(h))), 6) => h.graph_id() == gid,
            _ => false,
        };
        if !ok {
            return Err(format!("real SyncIncoming::decode disagrees with the mirror on variant {k}"));
        }
    }
    Ok(())
}
