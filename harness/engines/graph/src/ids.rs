//! Spec ids (sequences, lexicographic) -> real 32-byte command ids whose byte order is the spec order.
//!
//!   init            <<3>>              -> [3]
//!   basic rank r    <<1, r>>           -> [1, r, j_hi, j_lo]   (j = index inside a STRETCH chain)
//!   merge l r       <<T>> \o l \o r    -> [T] ++ bytes(l) ++ bytes(r)      (T = MergeTag)
//!
//! The encoding is a prefix code, so comparing the zero-padded 32-byte arrays equals comparing
//! the sequences.
use aranya_runtime::CmdId;

pub const INIT_TAG: u8 = 3;
pub const BASIC_TAG: u8 = 1;

pub fn init_id() -> [u8; 32] {
    let mut b = [0u8; 32];
    b[0] = INIT_TAG;
    b
}

pub fn basic_id(rank: u8, j: u16) -> [u8; 32] {
    let mut b = [0u8; 32];
    b[0] = BASIC_TAG;
    b[1] = rank;
    b[2] = (j >> 8) as u8;
    b[3] = j as u8;
    b
}

/// Tag of a merge id that did not fit the structural encoding (wide head sets): 31 hash bytes
/// follow.  Such ids sort after everything else; they occur only in the wide families, whose
/// verdicts do not depend on the spec's id order.
pub const HASHED_TAG: u8 = 0xFD;

/// Length of the encoded id at the start of `b` (`merge_tag` distinguishes merges).
pub fn id_len(b: &[u8], merge_tag: u8) -> Option<usize> {
    let t = *b.first()?;
    if t == HASHED_TAG {
        return (b.len() >= 32).then_some(32);
    }
    if t == INIT_TAG {
        Some(1)
    } else if t == BASIC_TAG {
        (b.len() >= 4).then_some(4)
    } else if t == merge_tag {
        let l = id_len(&b[1..], merge_tag)?;
        let r = id_len(b.get(1 + l..)?, merge_tag)?;
        Some(1 + l + r)
    } else {
        None
    }
}

/// Structural merge id; `None` when it does not fit 32 bytes.
pub fn merge_id(a: &[u8; 32], b: &[u8; 32], merge_tag: u8) -> Option<[u8; 32]> {
    let (l, r) = if a < b { (a, b) } else { (b, a) };
    let ll = id_len(l, merge_tag)?;
    let rl = id_len(r, merge_tag)?;
    if 1 + ll + rl > 32 {
        use std::hash::{Hash, Hasher};
        let mut out = [0u8; 32];
        out[0] = HASHED_TAG;
        for k in 0..4u8 {
            let mut h = std::collections::hash_map::DefaultHasher::new();
            (k, l, r).hash(&mut h);
            let v = h.finish().to_be_bytes();
            let at = 1 + 8 * k as usize;
            let n = (32 - at).min(8);
            out[at..at + n].copy_from_slice(&v[..n]);
        }
        return Some(out);
    }
    let mut out = [0u8; 32];
    out[0] = merge_tag;
    out[1..1 + ll].copy_from_slice(&l[..ll]);
    out[1 + ll..1 + ll + rl].copy_from_slice(&r[..rl]);
    Some(out)
}

pub fn cmd_id(b: [u8; 32]) -> CmdId {
    CmdId::from_bytes(b)
}

pub fn hex(b: &[u8; 32]) -> String {
    let n = b.iter().rposition(|&x| x != 0).map_or(1, |p| p + 1);
    b[..n].iter().map(|x| format!("{x:02x}")).collect()
}
