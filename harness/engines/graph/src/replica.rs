//! A real replica (`ClientState` over memory- or file-backed linear storage) plus the
//! abstraction function the spec's projections are compared with.
use std::collections::{BTreeMap, BTreeSet};

use aranya_runtime::{
    storage::linear::LinearStorageProvider, Address, ClientError, ClientState, CmdId,
    Command as _, GraphId, Location, MemSpill, PolicyError, Prior, RuntimeBuffers, Segment as _,
    Storage as _, StorageError, StorageProvider, Transaction, TraversalBuffer,
};

use crate::audit::{self, AAction, ACmd, ASink, AuditStore};

/// memory-backed linear storage with a read-fault switch (`faulty.rs`)
#[cfg(not(feature = "filestore"))]
pub type SP = LinearStorageProvider<crate::faulty::FaultyManager>;
/// feature `filestore`: the real file-backed storage (`FileManager`) and `LibcSpill`
#[cfg(feature = "filestore")]
pub type SP = LinearStorageProvider<aranya_runtime::storage::linear::libc::FileManager>;
pub type Seg = <SP as StorageProvider>::Segment;
pub type Txn = Transaction<SP, AuditStore>;

pub struct Replica {
    pub client: ClientState<AuditStore, SP>,
    /// `RuntimeBuffers` are documented as "construct once per long-lived component and reuse
    /// across calls": the engine re-uses the same buffers for every replica of every case it
    /// replays (taken from / returned to a pool), so state leaking from one braid or traversal
    /// into the next shows up as a wrong result of a later case.
    pub buffers: RuntimeBuffers<Seg>,
    pub graph: GraphId,
    #[cfg(feature = "filestore")]
    pub dir: tempfile::TempDir,
}

#[cfg(not(feature = "filestore"))]
macro_rules! spill {
    ($s:expr) => {
        MemSpill::new
    };
}
#[cfg(feature = "filestore")]
macro_rules! spill {
    ($s:expr) => {{
        let p = $s.dir.path().to_path_buf();
        move || aranya_runtime::LibcSpill::new(&p)
    }};
}

thread_local! {
    static POOL: std::cell::RefCell<Vec<RuntimeBuffers<Seg>>> = const { std::cell::RefCell::new(Vec::new()) };
}

impl Drop for Replica {
    fn drop(&mut self) {
        let b = std::mem::replace(&mut self.buffers, RuntimeBuffers::new());
        POOL.with(|p| {
            let mut p = p.borrow_mut();
            if p.len() < 4 {
                p.push(b);
            }
        });
    }
}

/// Error classes of the spec.
pub fn err_class(e: &ClientError) -> String {
    match e {
        ClientError::NoSuchParent(_) => "NoSuchParent".into(),
        ClientError::PolicyError(PolicyError::Rejected) => "Rejected".into(),
        ClientError::PolicyError(p) => format!("PolicyError:{p}"),
        ClientError::StorageError(s) => format!("StorageError:{s}"),
        ClientError::InitError => "InitError".into(),
        ClientError::ParallelFinalize => "ParallelFinalize".into(),
        ClientError::ConcurrentTransaction => "ConcurrentTransaction".into(),
        ClientError::Bug(b) => format!("Bug:{b}"),
        e => format!("Other:{e}"),
    }
}

/// Projection of the committed state of a replica.
#[derive(Clone, Debug, PartialEq, Eq)]
pub struct View {
    /// head ids in stored order
    pub heads: Vec<[u8; 32]>,
    /// every command id reachable from the heads
    pub reachable: BTreeSet<[u8; 32]>,
    /// labels in the `seq` fact
    pub seq: Vec<String>,
    /// `kv` facts in iteration order
    pub kv: Vec<(String, String)>,
}

impl Replica {
    #[cfg(feature = "filestore")]
    pub fn new(graph: [u8; 32]) -> Self {
        let base = if std::path::Path::new("/dev/shm").is_dir() { "/dev/shm" } else { "/tmp" };
        let dir = tempfile::Builder::new().prefix("vh-graph-").tempdir_in(base).expect("tempdir");
        let fm = aranya_runtime::storage::linear::libc::FileManager::new(dir.path()).expect("FileManager");
        Replica {
            client: ClientState::new(AuditStore, LinearStorageProvider::new(fm)),
            buffers: POOL.with(|p| p.borrow_mut().pop()).unwrap_or_else(RuntimeBuffers::new),
            graph: GraphId::transmute(CmdId::from_bytes(graph)),
            dir,
        }
    }

    #[cfg(not(feature = "filestore"))]
    pub fn new(graph: [u8; 32]) -> Self {
        Replica {
            client: ClientState::new(AuditStore, SP::default()),
            buffers: POOL.with(|p| p.borrow_mut().pop()).unwrap_or_else(RuntimeBuffers::new),
            graph: GraphId::transmute(CmdId::from_bytes(graph)),
        }
    }

    pub fn exists(&mut self) -> bool {
        self.client.provider().get_storage(self.graph).is_ok()
    }

    pub fn txn(&mut self) -> Txn {
        self.client.transaction(self.graph)
    }

    pub fn deliver(&mut self, t: &mut Txn, sink: &mut ASink, cmds: &[ACmd]) -> Result<usize, ClientError> {
        let sp = spill!(self);
        self.client.add_commands(t, sink, cmds, &mut self.buffers, sp)
    }

    pub fn flush(&mut self, t: &mut Txn) -> Result<(), ClientError> {
        let g = self.graph;
        match self.client.provider().get_storage(g) {
            Ok(s) => t.flush(s),
            Err(StorageError::NoSuchStorage) => Ok(()),
            Err(e) => Err(e.into()),
        }
    }

    pub fn commit(&mut self, t: Txn, sink: &mut ASink) -> Result<bool, ClientError> {
        let sp = spill!(self);
        self.client.commit(t, sink, &mut self.buffers, sp)
    }

    pub fn action(&mut self, sink: &mut ASink, a: &AAction) -> Result<(), ClientError> {
        let sp = spill!(self);
        self.client.action(self.graph, sink, a, &mut self.buffers, sp)
    }

    pub fn new_graph(&mut self, sink: &mut ASink, a: &AAction) -> Result<GraphId, ClientError> {
        self.client.new_graph(b"audit", a, sink)
    }

    pub fn hello(&mut self) -> Result<Address, ClientError> {
        self.client.hello_head(self.graph)
    }

    pub fn should_sync(&mut self, head: Address) -> Result<bool, ClientError> {
        let mut buf = TraversalBuffer::new();
        self.client.should_sync_on_hello(self.graph, head, &mut buf)
    }

    pub fn head_locs(&mut self) -> Result<Vec<(Address, Location)>, StorageError> {
        let s = self.client.provider().get_storage(self.graph)?;
        Ok(s.get_heads()?.iter().map(|h| (h.address(), h.location())).collect())
    }

    /// Walk the stored graph from `starts`: id -> (location, parent ids) of everything reachable.
    pub fn walk(&mut self, starts: &[Location]) -> Result<BTreeMap<[u8; 32], (Location, Vec<[u8; 32]>)>, StorageError> {
        let s = self.client.provider().get_storage(self.graph)?;
        let mut out = BTreeMap::new();
        let mut seen = BTreeSet::new();
        let mut stack: Vec<Location> = starts.to_vec();
        while let Some(loc) = stack.pop() {
            if !seen.insert((loc.segment.get(), loc.max_cut.get())) {
                continue;
            }
            let seg = s.get_segment(loc)?;
            let first = seg.first_location();
            let mut l = loc;
            loop {
                let cmd = seg.get_command(l).ok_or(StorageError::CommandOutOfBounds(l))?;
                let parents: Vec<[u8; 32]> = match cmd.parent() {
                    Prior::None => vec![],
                    Prior::Single(p) => vec![*p.id.as_array()],
                    Prior::Merge(a, b) => vec![*a.id.as_array(), *b.id.as_array()],
                };
                out.entry(*cmd.id().as_array()).or_insert((l, parents));
                if l == first {
                    break;
                }
                match seg.previous(l) {
                    Some(p) => {
                        // stop early if this prefix was already walked
                        if !seen.insert((p.segment.get(), p.max_cut.get())) {
                            break;
                        }
                        l = p;
                    }
                    None => break,
                }
            }
            for p in seg.prior() {
                stack.push(p);
            }
        }
        Ok(out)
    }

    pub fn view(&mut self) -> Result<View, String> {
        let hl = self.head_locs().map_err(|e| format!("heads: {e}"))?;
        let locs: Vec<Location> = hl.iter().map(|(_, l)| *l).collect();
        let reach = self.walk(&locs).map_err(|e| format!("walk: {e}"))?;
        let s = self.client.provider().get_storage(self.graph).map_err(|e| format!("storage: {e}"))?;
        let fc = s.fact_cache().map_err(|e| format!("fact_cache: {e}"))?;
        let seq = audit::read_seq(&fc).map_err(|e| format!("seq: {e}"))?;
        let kv = audit::read_kv(&fc).map_err(|e| format!("kv: {e}"))?;
        Ok(View {
            heads: hl.iter().map(|(a, _)| *a.id.as_array()).collect(),
            reachable: reach.keys().copied().collect(),
            seq,
            kv,
        })
    }
}
