//! The audit policy (DESIGN §2.3): a harness-owned `PolicyStore`/`Policy` whose rules are the
//! spec's `Apply` (tla/Braid.tla) and which logs every `call_rule` with its placement.
//!
//! Command payload (`Command::bytes`): `[op][label utf-8]`
//!   op  n  append label to fact `seq`
//!       q  quiet: accepted, writes nothing
//!       s  n + set   kv[k] = label
//!       d  n + delete kv[k]
//!       x  rejected (nothing written) when kv[k] is present, else like s
//!       p  poison: writes kv[poison] and then fails with `Rejected` (origin only)
//!       m  merge command (never evaluated)
use std::cell::RefCell;

use aranya_runtime::{
    ActionPlacement, Address, CmdId, Command, CommandPlacement, FactPerspective, Keys, MergeIds,
    Perspective, Policy, PolicyError, PolicyId, PolicyStore, Prior, Priority, Sink,
};

use crate::ids;

#[derive(Clone, Debug)]
pub struct ACmd {
    pub id: CmdId,
    pub prio: Priority,
    pub parent: Prior<Address>,
    pub policy: Option<Vec<u8>>,
    pub bytes: Vec<u8>,
}

impl ACmd {
    pub fn new(id: [u8; 32], prio: Priority, parent: Prior<Address>, op: u8, label: &str) -> Self {
        let mut bytes = vec![op];
        bytes.extend_from_slice(label.as_bytes());
        let policy = matches!(parent, Prior::None).then(|| b"audit".to_vec());
        ACmd { id: ids::cmd_id(id), prio, parent, policy, bytes }
    }
    pub fn label(&self) -> String {
        String::from_utf8_lossy(&self.bytes[1..]).into_owned()
    }
    pub fn address(&self) -> Address {
        let mc = match self.parent {
            Prior::None => 0,
            Prior::Single(p) => p.max_cut.get() + 1,
            Prior::Merge(l, r) => l.max_cut.get().max(r.max_cut.get()) + 1,
        };
        Address { id: self.id, max_cut: aranya_runtime::MaxCut::new(mc) }
    }
}

impl Command for ACmd {
    fn priority(&self) -> Priority {
        self.prio.clone()
    }
    fn id(&self) -> CmdId {
        self.id
    }
    fn parent(&self) -> Prior<Address> {
        self.parent
    }
    fn policy(&self) -> Option<&[u8]> {
        self.policy.as_deref()
    }
    fn bytes(&self) -> &[u8] {
        &self.bytes
    }
}

#[derive(Clone, Debug, PartialEq, Eq)]
pub enum Place {
    Origin,
    Braid,
    Off,
}

#[derive(Clone, Debug)]
pub struct RuleCall {
    pub label: String,
    pub place: Place,
    pub merge: bool,
    pub rejected: bool,
}

thread_local! {
    /// every `call_rule` since the last `take_log`
    static LOG: RefCell<Vec<RuleCall>> = const { RefCell::new(Vec::new()) };
    /// every `merge()` call (collapse / synthetic head)
    static MERGES: RefCell<u64> = const { RefCell::new(0) };
    static MERGE_TAG: RefCell<u8> = const { RefCell::new(2) };
}

pub fn take_log() -> Vec<RuleCall> {
    LOG.with(|l| std::mem::take(&mut *l.borrow_mut()))
}
pub fn set_merge_tag(t: u8) {
    MERGE_TAG.with(|m| *m.borrow_mut() = t);
}
pub fn merge_tag() -> u8 {
    MERGE_TAG.with(|m| *m.borrow())
}

#[derive(Clone, Debug, PartialEq, Eq)]
pub struct Effect {
    pub label: String,
    pub place: Place,
}

/// Records the transactional protocol the runtime drives on the sink.
#[derive(Default, Debug)]
pub struct ASink {
    pub events: Vec<String>,
    pending: Vec<Effect>,
    pub committed: Vec<Effect>,
    pub rolled_back: Vec<Effect>,
}

impl ASink {
    pub fn new() -> Self {
        Self::default()
    }
}

impl Sink<Effect> for ASink {
    fn begin(&mut self) {
        self.events.push("begin".into());
    }
    fn consume(&mut self, e: Effect) {
        self.events.push(format!("consume:{}", e.label));
        self.pending.push(e);
    }
    fn rollback(&mut self) {
        self.events.push("rollback".into());
        self.rolled_back.append(&mut self.pending);
    }
    fn commit(&mut self) {
        self.events.push("commit".into());
        self.committed.append(&mut self.pending);
    }
}

/// One command an action publishes.
#[derive(Clone, Debug)]
pub struct Publish {
    pub id: [u8; 32],
    pub prio: Priority,
    pub op: u8,
    pub label: String,
}

/// An action: publish `cmds` in order; fail (after having written facts) once `fail_after`
/// commands were published.  `observe` makes the action record every fact it can see before
/// publishing (C04).
#[derive(Clone, Debug, Default)]
pub struct AAction {
    pub cmds: Vec<Publish>,
    pub fail_after: Option<usize>,
}

thread_local! {
    /// facts an action observed before publishing: (seq, kv listing)
    pub static OBSERVED: RefCell<Option<(Vec<String>, Vec<(String, String)>)>> = const { RefCell::new(None) };
}

pub struct AuditPolicy;
pub struct AuditStore;

impl PolicyStore for AuditStore {
    type Policy = AuditPolicy;
    type Effect = Effect;
    fn add_policy(&mut self, _policy: &[u8]) -> Result<PolicyId, PolicyError> {
        Ok(PolicyId::new(0))
    }
    fn get_policy(&self, _id: PolicyId) -> Result<&Self::Policy, PolicyError> {
        Ok(&AuditPolicy)
    }
}

pub fn read_seq(f: &impl aranya_runtime::Query) -> Result<Vec<String>, PolicyError> {
    let v = f.query("seq", &[]).map_err(|_| PolicyError::Read)?;
    Ok(match v {
        None => vec![],
        Some(b) => String::from_utf8_lossy(&b).split(',').filter(|s| !s.is_empty()).map(str::to_string).collect(),
    })
}

pub fn read_kv(f: &impl aranya_runtime::Query) -> Result<Vec<(String, String)>, PolicyError> {
    let it = f.query_prefix("kv", &[]).map_err(|_| PolicyError::Read)?;
    let mut out = vec![];
    for fact in it {
        let fact = fact.map_err(|_| PolicyError::Read)?;
        let k = fact.key.iter().map(|b| String::from_utf8_lossy(b).into_owned()).collect::<Vec<_>>().join("/");
        out.push((k, String::from_utf8_lossy(&fact.value).into_owned()));
    }
    Ok(out)
}

fn key(k: &str) -> Keys {
    [k.as_bytes()].into_iter().collect()
}

/// The spec's `Apply` on a real fact perspective.
fn apply(op: u8, label: &str, facts: &mut impl FactPerspective) -> Result<(), PolicyError> {
    match op {
        b'q' => return Ok(()), // quiet: accepted, no fact written
        b'p' => {
            facts
                .insert("kv".into(), key("poison"), label.as_bytes().into())
                .map_err(|_| PolicyError::Write)?;
            // the rule also clobbers seq before failing, so a missing revert is visible there too
            facts
                .insert("seq".into(), Keys::default(), b"POISON".as_slice().into())
                .map_err(|_| PolicyError::Write)?;
            return Err(PolicyError::Rejected);
        }
        b'x' => {
            if facts.query("kv", &[b"k".as_slice().into()]).map_err(|_| PolicyError::Read)?.is_some() {
                return Err(PolicyError::Rejected);
            }
        }
        _ => {}
    }
    let mut seq = facts.query("seq", &[]).map_err(|_| PolicyError::Read)?.map(|b| b.to_vec()).unwrap_or_default();
    if !seq.is_empty() {
        seq.push(b',');
    }
    seq.extend_from_slice(label.as_bytes());
    facts.insert("seq".into(), Keys::default(), seq.into()).map_err(|_| PolicyError::Write)?;
    match op {
        b's' | b'x' => facts
            .insert("kv".into(), key("k"), label.as_bytes().into())
            .map_err(|_| PolicyError::Write)?,
        b'd' => facts.delete("kv".into(), key("k")).map_err(|_| PolicyError::Write)?,
        _ => {}
    }
    Ok(())
}

impl Policy for AuditPolicy {
    type Action<'a> = &'a AAction;
    type Effect = Effect;
    type Command<'a> = ACmd;

    fn serial(&self) -> u32 {
        0
    }

    fn call_rule(
        &self,
        command: &impl Command,
        facts: &mut impl FactPerspective,
        sink: &mut impl Sink<Effect>,
        placement: CommandPlacement,
    ) -> Result<(), PolicyError> {
        let bytes = command.bytes();
        let op = bytes.first().copied().unwrap_or(b'n');
        let label = String::from_utf8_lossy(bytes.get(1..).unwrap_or(&[])).into_owned();
        let place = match placement {
            CommandPlacement::OnGraphAtOrigin => Place::Origin,
            CommandPlacement::OnGraphInBraid => Place::Braid,
            CommandPlacement::OffGraph => Place::Off,
        };
        let merge = matches!(command.parent(), Prior::Merge(..));
        let res = if merge { Ok(()) } else { apply(op, &label, facts) };
        LOG.with(|l| {
            l.borrow_mut().push(RuleCall { label: label.clone(), place: place.clone(), merge, rejected: res.is_err() })
        });
        res?;
        sink.consume(Effect { label, place });
        Ok(())
    }

    fn call_action(
        &self,
        action: Self::Action<'_>,
        facts: &mut impl Perspective,
        sink: &mut impl Sink<Effect>,
        placement: ActionPlacement,
    ) -> Result<(), PolicyError> {
        let place = match placement {
            ActionPlacement::OnGraph => Place::Origin,
            ActionPlacement::OffGraph => Place::Off,
        };
        // what an action can observe before it publishes (C04)
        let seen = (read_seq(facts)?, read_kv(facts)?);
        OBSERVED.with(|o| *o.borrow_mut() = Some(seen));
        for (i, p) in action.cmds.iter().enumerate() {
            if action.fail_after == Some(i) {
                // fail after having written: the runtime must discard everything
                let _ = facts.insert("kv".into(), key("poison"), b"action".as_slice().into());
                return Err(PolicyError::Rejected);
            }
            let parent = facts.head_address().map_err(PolicyError::Bug)?;
            let cmd = ACmd::new(p.id, p.prio.clone(), parent, p.op, &p.label);
            apply(p.op, &p.label, facts)?;
            LOG.with(|l| {
                l.borrow_mut().push(RuleCall { label: p.label.clone(), place: place.clone(), merge: false, rejected: false })
            });
            facts.add_command(&cmd).map_err(|_| PolicyError::Write)?;
            sink.consume(Effect { label: p.label.clone(), place: place.clone() });
        }
        if action.fail_after == Some(action.cmds.len()) {
            let _ = facts.insert("kv".into(), key("poison"), b"action".as_slice().into());
            return Err(PolicyError::Rejected);
        }
        Ok(())
    }

    fn merge<'a>(&self, _target: &'a mut [u8], ids: MergeIds) -> Result<ACmd, PolicyError> {
        let (l, r): (Address, Address) = ids.into();
        MERGES.with(|m| *m.borrow_mut() += 1);
        let id = ids::merge_id(l.id.as_array(), r.id.as_array(), merge_tag()).ok_or(PolicyError::InternalError)?;
        Ok(ACmd::new(id, Priority::Merge, Prior::Merge(l, r), b'm', &format!("m{}", ids::hex(&id))))
    }
}
