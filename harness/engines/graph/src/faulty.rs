//! In-memory `IoManager` for linear storage with read-fault injection (a copy of the runtime's
//! `storage::linear::testing::Manager` plus a switch): `fail_nth_fetch(k)` makes the k-th
//! `Read::fetch` from now fail with `StorageError::IoError` (one shot).  Used for the fault
//! dimension of the graph checks: a call interrupted by a read fault must either fail and leave
//! the committed state untouched or succeed completely (the spec's actions are atomic), and a
//! hello decision must never turn a failed lookup into "no sync needed" (C19).
use std::sync::{
    atomic::{AtomicI64, Ordering},
    Arc, Mutex,
};

use aranya_runtime::{
    linear::{FactCacheOffset, IoManager, Read, Write},
    GraphId, HeadSet, HeadSetOffset, Location, MaxCut, SegmentIndex, StorageError,
};

static FAIL_AT: AtomicI64 = AtomicI64::new(-1);
static FETCHES: AtomicI64 = AtomicI64::new(0);
static FAIL_COMMIT: AtomicI64 = AtomicI64::new(0);

/// Make the next `Write::commit` (the head-set write of the backend) fail once.
pub fn fail_next_commit(on: bool) {
    FAIL_COMMIT.store(i64::from(on), Ordering::SeqCst);
}

/// Fail the k-th fetch from now (k = 0: the next one); `None` disables.
pub fn fail_nth_fetch(k: Option<i64>) {
    FAIL_AT.store(k.unwrap_or(-1), Ordering::SeqCst);
}
pub fn reset_fetch_count() {
    FETCHES.store(0, Ordering::SeqCst);
}
pub fn fetch_count() -> i64 {
    FETCHES.load(Ordering::SeqCst)
}

#[derive(Default)]
pub struct FaultyManager {
    graph_ids: Vec<GraphId>,
}

impl IoManager for FaultyManager {
    type Writer = Writer;
    fn create(&mut self, id: GraphId) -> Result<Writer, StorageError> {
        self.graph_ids.push(id);
        Ok(Writer { committed: None, shared: Arc::default() })
    }
    fn open(&mut self, _id: GraphId) -> Result<Option<Writer>, StorageError> {
        Ok(None)
    }
    fn remove(&mut self, _id: GraphId) -> Result<(), StorageError> {
        Ok(())
    }
    fn list(&mut self) -> Result<impl Iterator<Item = Result<GraphId, StorageError>>, StorageError> {
        Ok(self.graph_ids.iter().copied().map(Ok))
    }
}

#[derive(Default)]
struct Shared {
    items: Mutex<Vec<Box<[u8]>>>,
}

#[derive(Clone)]
struct Committed {
    heads: HeadSet,
    fact_cache: FactCacheOffset,
    offset: u64,
}

pub struct Writer {
    committed: Option<Committed>,
    shared: Arc<Shared>,
}

#[derive(Clone)]
pub struct Reader {
    shared: Arc<Shared>,
}

impl Write for Writer {
    type ReadOnly = Reader;
    fn readonly(&self) -> Reader {
        Reader { shared: Arc::clone(&self.shared) }
    }
    fn heads(&self) -> Result<HeadSet, StorageError> {
        self.committed.as_ref().map(|c| c.heads.clone()).ok_or(StorageError::NotInitialized)
    }
    fn fact_cache(&self) -> Result<FactCacheOffset, StorageError> {
        self.committed.as_ref().map(|c| c.fact_cache).ok_or(StorageError::NotInitialized)
    }
    fn heads_offset(&self) -> Result<HeadSetOffset, StorageError> {
        self.committed.as_ref().map(|c| HeadSetOffset::new(c.offset)).ok_or(StorageError::NotInitialized)
    }
    fn append<F, T>(&mut self, builder: F) -> Result<T, StorageError>
    where
        F: FnOnce(u64) -> T,
        T: serde::Serialize,
    {
        let mut items = self.shared.items.lock().unwrap();
        let offset = items.len() as u64;
        let item = builder(offset);
        let bytes = postcard::to_allocvec(&item).map_err(|_| StorageError::IoError)?.into_boxed_slice();
        items.push(bytes);
        Ok(item)
    }
    fn commit(&mut self, heads: &HeadSet, fact_cache: FactCacheOffset) -> Result<(), StorageError> {
        if FAIL_COMMIT.swap(0, Ordering::SeqCst) == 1 {
            return Err(StorageError::IoError);
        }
        let offset = self.committed.as_ref().map_or(0, |c| c.offset + 1);
        self.committed = Some(Committed { heads: heads.clone(), fact_cache, offset });
        Ok(())
    }
}

impl Read for Reader {
    fn fetch<T>(&self, offset: u64) -> Result<T, StorageError>
    where
        T: serde::de::DeserializeOwned,
    {
        FETCHES.fetch_add(1, Ordering::SeqCst);
        let at = FAIL_AT.load(Ordering::SeqCst);
        if at >= 0 {
            if at == 0 {
                FAIL_AT.store(-1, Ordering::SeqCst);
                return Err(StorageError::IoError);
            }
            FAIL_AT.store(at - 1, Ordering::SeqCst);
        }
        let items = self.shared.items.lock().unwrap();
        let bytes = usize::try_from(offset).ok().and_then(|o| items.get(o)).ok_or(
            StorageError::SegmentOutOfBounds(Location::new(SegmentIndex::new(offset), MaxCut::new(u64::MAX))),
        )?;
        postcard::from_bytes(bytes).map_err(|_| StorageError::IoError)
    }
}
