//! `vh-graph` — conformance engine for the graph layer (DESIGN §3.1, §4 `graph`/`index`).
//!
//! Real `ClientState<AuditStore, LinearStorageProvider<Mem>>` replicas are driven by behaviours
//! that TLC generated from `tla/MC_Braid.tla` (sub-command `braid`: one DAG = one case) and
//! `tla/Replica.tla` (sub-command `hist`: multi-replica delivery histories).
mod audit;
mod braid;
#[cfg_attr(feature = "filestore", allow(dead_code))]
mod faulty;
mod hist;
mod ids;
mod replica;

fn main() {
    let args = vrt::Args::parse();
    match args.sub.as_str() {
        "braid" => braid::run(&args),
        "hist" => hist::run(&args),
        s => vrt::die(&format!("unknown subcommand {s}")),
    }
}
