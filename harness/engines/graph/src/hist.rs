//! `vh-graph hist` — multi-replica delivery histories from `tla/Replica.tla` (filled in below).
use vrt::Args;

pub fn run(_args: &Args) {
    vrt::die("hist: not built yet");
}
