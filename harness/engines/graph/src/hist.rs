//! `vh-graph hist` — replay of `tla/Replica.tla` behaviours: several real replicas, actions
//! (lazy-merge collapse), sync deliveries into transactions, poison commands, flushes,
//! commits.  After every step the acting replica's projection is compared with the `view`
//! the spec recorded, and replicas are compared with each other.
//!
//! Verdict keys (DESIGN §2.2 — only the property's own predicate):
//!   C01:diverge            two replicas with equal committed sets differ (heads / facts / hello)
//!   C03:seq|kv             committed fact state differs from the reference braid
//!   C04:action-view|collapse-effects|hello     action observed other facts than queries; collapse emitted effects
//!   C05:missed|spurious    ParallelFinalize wrong
//!   C06:*                  rejected command left a trace / orphan of a rejected command accepted
//!   C07:*                  action not atomic
//!   C08:*                  committed set shrank / commit outcome wrong
//!   C09:*                  head set is not the sorted frontier
//!   C19:*                  hello suppressed a needed sync
use std::collections::{BTreeMap, BTreeSet};

use aranya_runtime::{ClientError, PolicyError, Prior, Priority};
use vrt::{json, Args, Value, J};

use crate::{
    audit::{self, AAction, ACmd, ASink, Publish},
    braid::frontier,
    ids,
    replica::{err_class, Replica, Txn, View},
};

thread_local! {
    /// property whose clause the step being executed belongs to (for panics)
    static PHASE: std::cell::RefCell<(&'static str, usize)> = const { std::cell::RefCell::new(("C08", 0)) };
}

struct Fail {
    key: String,
    msg: String,
    step: usize,
    /// further properties whose predicate the same failure breaks
    also: Vec<String>,
}

struct World {
    reps: BTreeMap<u64, Replica>,
    txns: BTreeMap<(u64, u64), Txn>,
    /// node -> real command
    uni: BTreeMap<u64, ACmd>,
    by_id: BTreeMap<[u8; 32], u64>,
    parents: BTreeMap<[u8; 32], Vec<[u8; 32]>>,
    merge_tag: u8,
    /// last real view per replica
    views: BTreeMap<u64, View>,
    hellos: BTreeMap<u64, [u8; 32]>,
    poison_ids: BTreeSet<[u8; 32]>,
    nfail: u8,
}

impl World {
    fn label(&self, id: &[u8; 32]) -> String {
        match self.by_id.get(id) {
            Some(n) => n.to_string(),
            None => format!("?{}", ids::hex(id)),
        }
    }
    fn labels(&self, v: &[[u8; 32]]) -> Vec<String> {
        v.iter().map(|i| self.label(i)).collect()
    }
    fn register(&mut self, n: u64, cmd: ACmd) {
        let id = *cmd.id.as_array();
        let ps = match cmd.parent {
            Prior::None => vec![],
            Prior::Single(p) => vec![*p.id.as_array()],
            Prior::Merge(l, r) => vec![*l.id.as_array(), *r.id.as_array()],
        };
        self.by_id.insert(id, n);
        self.parents.insert(id, ps);
        self.uni.insert(n, cmd);
    }
    fn register_node(&mut self, rec: &Value) -> Result<(), String> {
        let n = rec.u("n");
        if self.uni.contains_key(&n) {
            return Ok(());
        }
        let par: Vec<u64> = rec.a("par").iter().map(|v| v.as_u64().unwrap()).collect();
        let kind = rec.s("kind");
        let cmd = match kind {
            "merge" => {
                let l = self.uni.get(&par[0]).ok_or("merge parent unknown")?.address();
                let r = self.uni.get(&par[1]).ok_or("merge parent unknown")?.address();
                let id = ids::merge_id(l.id.as_array(), r.id.as_array(), self.merge_tag).ok_or("merge id too long")?;
                let (l, r) = if l.id < r.id { (l, r) } else { (r, l) };
                ACmd::new(id, Priority::Merge, Prior::Merge(l, r), b'm', &format!("m{n}"))
            }
            _ => {
                let p = self.uni.get(&par[0]).ok_or("parent unknown")?.address();
                let prio = if kind == "fin" { Priority::Finalize } else { Priority::Basic(rec.u("prio") as u32) };
                ACmd::new(ids::basic_id(rec.u("rank") as u8, 0), prio, Prior::Single(p), rec.s("op").as_bytes()[0], &n.to_string())
            }
        };
        self.register(n, cmd);
        Ok(())
    }
    fn view_json(&self, v: &View) -> Value {
        json!({"heads": self.labels(&v.heads), "committed": v.reachable.iter().map(|i| self.label(i)).collect::<Vec<_>>(),
               "seq": v.seq, "kv": v.kv})
    }
}

fn f(step: usize, key: &str, msg: String) -> Fail {
    Fail { key: key.into(), msg, step, also: vec![] }
}

/// Compare the real view of replica r with the spec's expected view; returns the real view.
fn check_view(w: &mut World, r: u64, exp: &Value, step: usize, poison_involved: bool) -> Result<View, Fail> {
    let rep = w.reps.get_mut(&r).unwrap();
    let v = rep.view().map_err(|e| f(step, "tool:view", e))?;
    let hello = rep.hello().map_err(|e| f(step, "C04:hello-error", format!("hello_head failed: {}", err_class(&e))))?;
    let got = w.view_json(&v);
    // --- C06: nothing of a rejected command may be visible
    if v.reachable.iter().any(|i| w.poison_ids.contains(i)) {
        return Err(f(step, "C06:poison-stored", format!("a command rejected at origin is in the committed graph; {got}")));
    }
    if v.seq.iter().any(|l| l == "POISON" || l.starts_with('P')) || v.kv.iter().any(|(k, _)| k == "poison") {
        return Err(f(step, "C06:poison-facts", format!("facts written by a rejected rule survived; {got}")));
    }
    // --- C09: independent frontier
    let fr = frontier(&v.reachable, &w.parents);
    if v.heads != fr {
        return Err(f(step, "C09:frontier", format!("head set {:?} is not the sorted frontier {:?} of the committed graph", w.labels(&v.heads), w.labels(&fr))));
    }
    // --- committed set
    let exp_committed: BTreeSet<[u8; 32]> =
        exp.a("committed").iter().map(|n| *w.uni[&n.as_u64().unwrap()].id.as_array()).collect();
    if v.reachable != exp_committed {
        let lost: Vec<String> = exp_committed.difference(&v.reachable).map(|i| w.label(i)).collect();
        let extra: Vec<String> = v.reachable.difference(&exp_committed).map(|i| w.label(i)).collect();
        let key = if poison_involved && !lost.is_empty() { "C06:accepted-lost" } else if !lost.is_empty() { "C08:commit-set-lost" } else { "C08:commit-set-extra" };
        return Err(f(step, key, format!("committed graph differs from previous graph + accepted commands: missing {lost:?}, unexpected {extra:?}; {got}")));
    }
    let exp_heads: Vec<[u8; 32]> = exp.a("heads").iter().map(|n| *w.uni[&n.as_u64().unwrap()].id.as_array()).collect();
    if v.heads != exp_heads {
        return Err(f(step, "C09:heads", format!("heads {:?}, expected {:?}", w.labels(&v.heads), w.labels(&exp_heads))));
    }
    // --- facts = reference braid
    let exp_seq: Vec<String> = exp.a("seq").iter().map(|n| n.as_u64().unwrap().to_string()).collect();
    if v.seq != exp_seq {
        return Err(f(step, "C03:seq", format!("fact state differs from the reference braid: expected seq {exp_seq:?}; {got}")));
    }
    let k = exp.u("k");
    let exp_kv: Vec<(String, String)> = if k == 0 { vec![] } else { vec![("k".into(), k.to_string())] };
    if v.kv != exp_kv {
        return Err(f(step, "C03:kv", format!("keyed facts differ from the reference braid: expected {exp_kv:?}; {got}")));
    }
    // --- hello = fold of the head set
    let mut q: std::collections::VecDeque<[u8; 32]> = exp_heads.iter().copied().collect();
    while q.len() > 1 {
        let (l, rr) = (q.pop_front().unwrap(), q.pop_front().unwrap());
        q.push_back(ids::merge_id(&l, &rr, w.merge_tag).ok_or_else(|| f(step, "tool:id", "fold id too long".into()))?);
    }
    if *hello.id.as_array() != q[0] {
        return Err(f(step, "C04:hello", format!("hello head {} is not the pairwise fold of the head set", ids::hex(hello.id.as_array()))));
    }
    // --- C08: history only grows
    if let Some(prev) = w.views.get(&r) {
        if !prev.reachable.is_subset(&v.reachable) {
            let lost: Vec<String> = prev.reachable.difference(&v.reachable).map(|i| w.label(i)).collect();
            return Err(f(step, "C08:history-shrank", format!("committed commands disappeared: {lost:?}")));
        }
    }
    w.views.insert(r, v.clone());
    w.hellos.insert(r, *hello.id.as_array());
    // --- C01: replicas with the same committed set agree
    for (&p, pv) in &w.views {
        if p != r && pv.reachable == v.reachable {
            if pv != &v || w.hellos.get(&p) != w.hellos.get(&r) {
                return Err(f(step, "C01:diverge", format!("replicas {r} and {p} hold the same commands but differ: {} vs {}", w.view_json(&v), w.view_json(pv))));
            }
        }
    }
    Ok(v)
}

/// C19 on the current real state of every ordered pair of replicas.
fn check_hello(w: &mut World, step: usize) -> Result<(), Fail> {
    let ids_: Vec<u64> = w.reps.keys().copied().collect();
    for &p in &ids_ {
        if !w.reps.get_mut(&p).unwrap().exists() {
            continue;
        }
        let hp = match w.reps.get_mut(&p).unwrap().hello() {
            Ok(h) => h,
            Err(_) => continue,
        };
        let pv = match w.reps.get_mut(&p).unwrap().view() {
            Ok(v) => v.reachable,
            Err(_) => continue,
        };
        for &r in &ids_ {
            if r == p {
                continue;
            }
            let exists = w.reps.get_mut(&r).unwrap().exists();
            let ss = w.reps.get_mut(&r).unwrap().should_sync(hp).map_err(|e| f(step, "C19:error", format!("should_sync_on_hello failed: {}", err_class(&e))))?;
            if !exists {
                if !ss {
                    return Err(f(step, "C19:missing-graph", format!("replica {r} lacks the graph but decided not to sync")));
                }
                continue;
            }
            if !ss {
                let rv = w.reps.get_mut(&r).unwrap().view().map_err(|e| f(step, "tool:view", e))?.reachable;
                let surplus: Vec<[u8; 32]> = pv.difference(&rv).copied().collect();
                if !surplus.is_empty() {
                    let only_merges = surplus.iter().all(|i| w.uni[&w.by_id[i]].bytes[0] == b'm');
                    let key = if only_merges { "C19:lazy-merge-surplus" } else { "C19:suppressed" };
                    return Err(f(step, key, format!("replica {r} decided not to sync after {p}'s hello although {p} has {:?} which {r} lacks", w.labels(&surplus))));
                }
            }
        }
    }
    Ok(())
}

fn run_beh(beh: &Value, args: &Args, notes: &mut Vec<String>) -> Result<(u64, usize), Fail> {
    let merge_tag = args.opt_u64("merge_tag", 2) as u8;
    audit::set_merge_tag(merge_tag);
    let nreps = args.opt_u64("reps", 2);
    let mut w = World {
        reps: BTreeMap::new(),
        txns: BTreeMap::new(),
        uni: BTreeMap::new(),
        by_id: BTreeMap::new(),
        parents: BTreeMap::new(),
        merge_tag,
        views: BTreeMap::new(),
        hellos: BTreeMap::new(),
        poison_ids: BTreeSet::new(),
        nfail: 0,
    };
    for r in 1..=nreps {
        w.reps.insert(r, Replica::new(ids::init_id()));
    }
    let mut drift = 0u64;
    // replica 1 creates the graph with a real new_graph action publishing the init command
    let init = ACmd::new(ids::init_id(), Priority::Init, Prior::None, b'n', "1");
    w.register(1, init);
    {
        let a = AAction { cmds: vec![Publish { id: ids::init_id(), prio: Priority::Init, op: b'n', label: "1".into() }], fail_after: None };
        let mut sink = ASink::new();
        w.reps.get_mut(&1).unwrap().new_graph(&mut sink, &a).map_err(|e| f(0, "tool:new_graph", err_class(&e)))?;
        let v = w.reps.get_mut(&1).unwrap().view().map_err(|e| f(0, "tool:view", e))?;
        w.views.insert(1, v);
        let h = w.reps.get_mut(&1).unwrap().hello().map_err(|e| f(0, "tool:hello", err_class(&e)))?;
        w.hellos.insert(1, *h.id.as_array());
    }
    if args.opt_bool("boot_all") {
        // Replica!BootAll: every replica starts with the graph (init delivered and committed)
        for r in 2..=nreps {
            let rep = w.reps.get_mut(&r).unwrap();
            let mut t = rep.txn();
            let mut sink = ASink::new();
            rep.deliver(&mut t, &mut sink, std::slice::from_ref(&w.uni[&1])).map_err(|e| f(0, "tool:boot", err_class(&e)))?;
            rep.commit(t, &mut sink).map_err(|e| f(0, "tool:boot", err_class(&e)))?;
            let v = rep.view().map_err(|e| f(0, "tool:view", e))?;
            let h = rep.hello().map_err(|e| f(0, "tool:hello", err_class(&e)))?;
            w.views.insert(r, v);
            w.hellos.insert(r, *h.id.as_array());
        }
    }
    let mut poisoned: BTreeSet<(u64, u64)> = BTreeSet::new();
    let steps = beh.a("steps");
    for (si, st) in steps.iter().enumerate() {
        let op = st.s("op");
        let r = st.u("r");
        audit::take_log();
        PHASE.with(|p| {
            *p.borrow_mut() = (
                match op {
                    "action" | "action_fail" => "C07",
                    "poison" => "C06",
                    "badmerge" => "C05",
                    "bad" => "C10",
                    _ => "C08",
                },
                si,
            )
        });
        match op {
            "action" => {
                for m in st.a("merges") {
                    w.register_node(m).map_err(|e| f(si, "tool:universe", e))?;
                }
                let p = st.g("pub");
                let kind = p.s("kind");
                let prio = if kind == "fin" { Priority::Finalize } else { Priority::Basic(p.u("prio") as u32) };
                let mut a = AAction {
                    cmds: vec![Publish { id: ids::basic_id(p.u("rank") as u8, 0), prio, op: p.s("op").as_bytes()[0], label: p.u("n").to_string() }],
                    fail_after: None,
                };
                let p2 = st.get("pub2");
                if let Some(p2) = p2 {
                    a.cmds.push(Publish { id: ids::basic_id(p2.u("rank") as u8, 0), prio: Priority::Basic(0), op: b'n', label: p2.u("n").to_string() });
                }
                let before = w.reps.get_mut(&r).unwrap().view().map_err(|e| f(si, "tool:view", e))?;
                let mut sink = ASink::new();
                audit::OBSERVED.with(|o| *o.borrow_mut() = None);
                let res = w.reps.get_mut(&r).unwrap().action(&mut sink, &a);
                if let Err(e) = &res {
                    return Err(f(si, "C07:action-failed", format!("action failed although its policy accepts: {}", err_class(e))));
                }
                // C04: the action observed exactly what queries saw before; the collapse emitted nothing
                let seen = audit::OBSERVED.with(|o| o.borrow_mut().take());
                if let Some((seq, kv)) = seen {
                    if seq != before.seq || kv != before.kv {
                        return Err(f(si, "C04:action-view", format!("action observed seq {seq:?} kv {kv:?} but queries on the multi-head graph saw seq {:?} kv {:?}", before.seq, before.kv)));
                    }
                }
                let eff: Vec<String> = sink.committed.iter().map(|e| e.label.clone()).collect();
                let mut want_eff = vec![p.u("n").to_string()];
                if let Some(p2) = p2 {
                    want_eff.push(p2.u("n").to_string());
                }
                // quiet commands emit their effect too (the audit rule always consumes one)
                if eff != want_eff || !sink.rolled_back.is_empty() {
                    return Err(f(si, "C04:collapse-effects", format!("action delivered effects {eff:?}; expected only the published command's")));
                }
                if audit::take_log().iter().any(|c| c.merge) {
                    return Err(f(si, "C02:merge-evaluated", "a merge command reached call_rule during collapse".into()));
                }
                w.register_node(p).map_err(|e| f(si, "tool:universe", e))?;
                if let Some(p2) = p2 {
                    w.register_node(p2).map_err(|e| f(si, "tool:universe", e))?;
                }
                let v = match check_view(&mut w, r, st.g("view"), si, false) {
                    Ok(v) => v,
                    Err(mut e) => {
                        // C07: a successful action commits all its commands, facts and one new head
                        if !e.key.starts_with("C07:") {
                            e.also.push("C07:state-after-action".into());
                        }
                        return Err(e);
                    }
                };
                // C07: one new head descending from every previous head
                if v.heads.len() != 1 || !before.reachable.is_subset(&v.reachable) {
                    return Err(f(si, "C07:not-one-head", format!("after a successful action heads = {:?}", w.labels(&v.heads))));
                }
            }
            "action_fail" => {
                w.nfail += 1;
                let j = st.u("j") as usize;
                let a = AAction {
                    cmds: vec![Publish { id: ids::basic_id(240 + w.nfail, 0), prio: Priority::Basic(0), op: b's', label: format!("F{}", w.nfail) }],
                    fail_after: Some(j),
                };
                let before = w.reps.get_mut(&r).unwrap().view().map_err(|e| f(si, "tool:view", e))?;
                let hb = w.reps.get_mut(&r).unwrap().hello().ok();
                let mut sink = ASink::new();
                let res = w.reps.get_mut(&r).unwrap().action(&mut sink, &a);
                match res {
                    Err(ClientError::PolicyError(PolicyError::Rejected)) => {}
                    Ok(()) => return Err(f(si, "C07:failed-action-committed", "an action whose policy failed returned Ok".into())),
                    Err(e) => return Err(f(si, "C07:wrong-error", format!("failing action returned {}", err_class(&e)))),
                }
                let after = w.reps.get_mut(&r).unwrap().view().map_err(|e| f(si, "tool:view", e))?;
                let ha = w.reps.get_mut(&r).unwrap().hello().ok();
                if after != before || ha != hb {
                    return Err(f(si, "C07:failed-action-trace", format!("failed action changed the committed state: before {} after {}", w.view_json(&before), w.view_json(&after))));
                }
                if !sink.committed.is_empty() {
                    return Err(f(si, "C07:failed-action-effects", format!("failed action committed effects {:?}", sink.committed)));
                }
                check_view(&mut w, r, st.g("view"), si, false)?;
            }
            "deliver" | "syncall" => {
                let t = if op == "syncall" { 99 } else { st.u("t") };
                let cmds: Vec<ACmd> = st.a("cmds").iter().map(|n| w.uni[&n.as_u64().unwrap()].clone()).collect();
                let rep = w.reps.get_mut(&r).unwrap();
                let mut txn = w.txns.remove(&(r, t)).unwrap_or_else(|| rep.txn());
                let mut sink = ASink::new();
                let res = rep.deliver(&mut txn, &mut sink, &cmds);
                if op == "syncall" {
                    if let Err(e) = &res {
                        return Err(f(si, "C17:syncall-deliver", format!("delivering a peer's missing commands parents-first failed: {}", err_class(e))));
                    }
                    let cres = rep.commit(txn, &mut sink);
                    let exp = st.s("res");
                    match (&cres, exp) {
                        (Ok(_), "ok") => {}
                        (Err(ClientError::ParallelFinalize), "ParallelFinalize") => {}
                        (Ok(_), "ParallelFinalize") => return Err(f(si, "C05:missed-parallel-finalize", "concurrent finalize commands were committed".into())),
                        (Err(ClientError::ParallelFinalize), _) => return Err(f(si, "C05:spurious-parallel-finalize", "finalize commands are causally ordered".into())),
                        (Err(e), _) => return Err(f(si, "C08:commit-failed", format!("commit failed: {}", err_class(e)))),
                        (Ok(_), _) => drift += 1,
                    }
                    check_view(&mut w, r, st.g("view"), si, false)?;
                } else {
                    let exp = st.s("res");
                    let got = match &res {
                        Ok(_) => "ok".to_string(),
                        Err(e) => err_class(e),
                    };
                    let missing_before = !st.a("tips").is_empty() || exp == "InitError";
                    let _ = missing_before;
                    if exp == "InitError" && got != "InitError" {
                        return Err(f(si, "C10:first-command-not-init-accepted", format!("a graph was created from a first command that is not its init: {got}")));
                    }
                    if exp != "InitError" && got == "InitError" {
                        return Err(f(si, "C10:init-refused", "the graph's own init command (first or repeated) was refused with InitError".into()));
                    }
                    if got != exp {
                        // the outcome class of add_commands is checked through its consequences at
                        // commit; a mismatch here is spec/code drift unless a later predicate fails
                        drift += 1;
                        notes.push(format!("step {si}: deliver result {got}, spec {exp}"));
                    } else if let Ok(n) = res {
                        if n as u64 != st.u("count") {
                            drift += 1;
                            notes.push(format!("step {si}: deliver count {n}, spec {}", st.u("count")));
                        }
                    }
                    w.txns.insert((r, t), txn);
                }
            }
            "poison" => {
                let t = st.u("t");
                let pid = st.u("pid") as u8;
                let parent = w.uni[&st.u("parent")].address();
                let pz = ACmd::new(ids::basic_id(200 + pid, 0), Priority::Basic(0), Prior::Single(parent), b'p', &format!("P{pid}"));
                w.poison_ids.insert(*pz.id.as_array());
                let rep = w.reps.get_mut(&r).unwrap();
                let mut txn = w.txns.remove(&(r, t)).unwrap_or_else(|| rep.txn());
                let mut sink = ASink::new();
                let res = rep.deliver(&mut txn, &mut sink, std::slice::from_ref(&pz));
                match &res {
                    Err(ClientError::PolicyError(PolicyError::Rejected)) => {}
                    Ok(_) => return Err(f(si, "C06:rejected-accepted", "a command whose rule failed was accepted".into())),
                    Err(e) => return Err(f(si, "C06:wrong-error", format!("rejected command produced {}", err_class(e)))),
                }
                if !sink.committed.is_empty() || !sink.events.iter().any(|e| e == "rollback") {
                    return Err(f(si, "C06:effects-not-rolled-back", format!("sink events {:?}", sink.events)));
                }
                if st.b("orphan") {
                    let child = ACmd::new(ids::basic_id(220 + pid, 0), Priority::Basic(0), Prior::Single(pz.address()), b'n', &format!("P{pid}c"));
                    w.poison_ids.insert(*child.id.as_array());
                    match rep.deliver(&mut txn, &mut sink, std::slice::from_ref(&child)) {
                        Err(ClientError::NoSuchParent(_)) => {}
                        Ok(_) => return Err(f(si, "C06:orphan-accepted", "a command naming a rejected command as parent was accepted".into())),
                        Err(e) => return Err(f(si, "C06:orphan-wrong-error", format!("child of a rejected command produced {}", err_class(&e)))),
                    }
                }
                poisoned.insert((r, t));
                w.txns.insert((r, t), txn);
            }
            "bad" => {
                // C10: malformed first contacts / foreign init commands must be refused with InitError
                let t = st.u("t");
                let shape = st.s("shape");
                let existed = w.reps.get_mut(&r).unwrap().exists();
                let before = if existed { w.reps.get_mut(&r).unwrap().view().ok() } else { None };
                let foreign = {
                    let mut b = ids::init_id();
                    b[1] = 0x77;
                    b
                };
                let cmd = match shape {
                    "foreign_init" => ACmd::new(foreign, Priority::Init, Prior::None, b'n', "X"),
                    "foreign_nopolicy" => {
                        let mut c = ACmd::new(foreign, Priority::Init, Prior::None, b'n', "X");
                        c.policy = None;
                        c
                    }
                    "nopolicy_init" => {
                        let mut c = ACmd::new(ids::init_id(), Priority::Init, Prior::None, b'n', "1");
                        c.policy = None;
                        c
                    }
                    _ => ACmd::new(ids::basic_id(251, 0), Priority::Basic(0), Prior::Single(w.uni[&1].address()), b'n', "X"),
                };
                let rep = w.reps.get_mut(&r).unwrap();
                let mut txn = w.txns.remove(&(r, t)).unwrap_or_else(|| rep.txn());
                let mut sink = ASink::new();
                let res = rep.deliver(&mut txn, &mut sink, std::slice::from_ref(&cmd));
                match &res {
                    Err(ClientError::InitError) => {}
                    Ok(_) => return Err(f(si, "C10:accepted", format!("malformed init delivery ({shape}, graph exists: {existed}) was accepted"))),
                    Err(e) => return Err(f(si, "C10:wrong-error", format!("malformed init delivery ({shape}) produced {}", err_class(e)))),
                }
                let exists_now = rep.exists();
                if exists_now != existed {
                    return Err(f(si, "C10:graph-created", format!("a refused first command ({shape}) created the graph")));
                }
                if existed {
                    let after = rep.view().ok();
                    if after != before {
                        return Err(f(si, "C10:state-changed", format!("a refused foreign init changed the committed state")));
                    }
                }
                w.txns.insert((r, t), txn);
            }
            "badmerge" => {
                // C05: a forged merge over two concurrent finalize commands must be refused and
                // must leave the transaction as it was
                let t = st.u("t");
                let (l, rr) = (w.uni[&st.u("l")].address(), w.uni[&st.u("rr")].address());
                let id = ids::merge_id(l.id.as_array(), rr.id.as_array(), w.merge_tag).ok_or_else(|| f(si, "tool:id", "merge id".into()))?;
                let (l, rr) = if l.id < rr.id { (l, rr) } else { (rr, l) };
                let m = ACmd::new(id, Priority::Merge, Prior::Merge(l, rr), b'm', "forged");
                let rep = w.reps.get_mut(&r).unwrap();
                let mut txn = w.txns.remove(&(r, t)).unwrap_or_else(|| rep.txn());
                let mut sink = ASink::new();
                match rep.deliver(&mut txn, &mut sink, std::slice::from_ref(&m)) {
                    Err(ClientError::ParallelFinalize) => {}
                    Ok(_) => return Err(f(si, "C05:forged-merge-accepted", "a merge command over two concurrent finalize commands was accepted".into())),
                    Err(e) => return Err(f(si, "C05:forged-merge-wrong-error", format!("merge over concurrent finalize commands produced {}", err_class(&e)))),
                }
                w.txns.insert((r, t), txn);
            }
            "flush" => {
                let t = st.u("t");
                if let Some(mut txn) = w.txns.remove(&(r, t)) {
                    let rep = w.reps.get_mut(&r).unwrap();
                    if let Err(e) = rep.flush(&mut txn) {
                        let key = if poisoned.contains(&(r, t)) { "C06:flush-after-reject" } else { "C08:flush-failed" };
                        return Err(f(si, key, format!("flush failed: {}", err_class(&e))));
                    }
                    w.txns.insert((r, t), txn);
                }
            }
            "commit" => {
                let t = st.u("t");
                let was_poisoned = poisoned.remove(&(r, t));
                let rep = w.reps.get_mut(&r).unwrap();
                let txn = w.txns.remove(&(r, t)).unwrap_or_else(|| rep.txn());
                let mut sink = ASink::new();
                let res = rep.commit(txn, &mut sink);
                let exp = st.s("res");
                match (&res, exp) {
                    (Ok(true), "ok") | (Ok(false), "noop") => {}
                    (Ok(b), "ok") | (Ok(b), "noop") => {
                        drift += 1;
                        notes.push(format!("step {si}: commit returned {b}, spec {exp}"));
                    }
                    (Err(ClientError::ConcurrentTransaction), "ConcurrentTransaction") => {}
                    (Err(ClientError::ParallelFinalize), "ParallelFinalize") => {}
                    (Ok(_), "ConcurrentTransaction") => {
                        return Err(f(si, "C08:isolation", "a transaction committed although another commit happened after it first read the heads".into()))
                    }
                    (Err(ClientError::ConcurrentTransaction), _) => {
                        return Err(f(si, "C08:spurious-concurrent", "ConcurrentTransaction although no commit intervened".into()))
                    }
                    (Ok(_), "ParallelFinalize") => {
                        // C08 as well: the commit must fail and leave the committed state untouched
                        let mut e = f(si, "C05:missed-parallel-finalize", "concurrent finalize commands were committed".into());
                        e.also.push("C08:commit-succeeded-instead-of-failing".into());
                        return Err(e);
                    }
                    (Err(ClientError::ParallelFinalize), _) => return Err(f(si, "C05:spurious-parallel-finalize", "finalize commands are causally ordered".into())),
                    (Err(e), _) => {
                        let key = if was_poisoned { "C06:commit-after-reject" } else { "C08:commit-failed" };
                        return Err(f(si, key, format!("commit of accepted commands failed: {}", err_class(e))));
                    }
                    (Ok(_), _) => drift += 1,
                }
                if let Err(mut e) = check_view(&mut w, r, st.g("view"), si, was_poisoned) {
                    if was_poisoned && !e.key.starts_with("C06:") {
                        // the transaction held a rejected command: whatever differs from the
                        // spec's committed state is also a trace of that command (C06)
                        e.also.push("C06:trace-after-reject".into());
                    }
                    return Err(e);
                }
            }
            o => return Err(f(si, "tool:op", format!("unknown op {o}"))),
        }
        if args.opt_bool("hello") {
            check_hello(&mut w, si)?;
        }
    }
    Ok((drift, steps.len()))
}

pub fn run(args: &Args) {
    let mut out = args.out();
    for (i, beh) in args.read_input().iter().enumerate() {
        let mut notes = vec![];
        match vrt::catch_any(|| run_beh(beh, args, &mut notes)) {
            Ok(Ok((drift, n))) => out.emit(json!({"i": i, "ok": true, "step": -1, "drift": drift, "obs": {"steps": n, "drift_notes": notes}})),
            Ok(Err(fl)) => {
                if fl.key.starts_with("tool:") {
                    vrt::die(&format!("behaviour {i} step {}: {}: {}", fl.step, fl.key, fl.msg));
                }
                out.emit(json!({"i": i, "ok": false, "step": fl.step, "key": fl.key, "msg": fl.msg, "also": fl.also, "obs": Value::Null}))
            }
            Err(p) => {
                let (prop, si) = PHASE.with(|x| *x.borrow());
                out.fail(i, si as i64, &format!("{prop}:panic"), &format!("runtime panicked at step {si}: {p}"), Value::Null)
            }
        }
    }
    out.finish();
}
