//! `vh-graph braid` — one case = one DAG emitted by `tla/MC_Braid.tla` with the reference
//! braid's verdict.  The DAG is delivered into real replicas (replica A: creation order,
//! replica B: a seeded different topological order, batching and flush points) and committed;
//! decided per DESIGN §5: C02 (each command once, ancestors first, merges never evaluated),
//! C03 (fact state = reference braid), C05 (ParallelFinalize iff the reference says so, state
//! unchanged), C09 (heads = frontier, sorted), C04/C19 (hello head = fold id), C01 (A = B),
//! C11 (lookup/ancestry exact, option index=1), C08 (committed set = delivered set).
use std::collections::{BTreeMap, BTreeSet};

use aranya_runtime::{Address, ClientError, Location, MaxCut, Prior, Priority, Storage as _, StorageProvider as _, TraversalBuffer};
use vrt::{json, Args, Rng, Value, J};

use crate::{
    audit::{self, ACmd, ASink},
    ids,
    replica::{err_class, Replica, View},
};

/// The concrete universe built from an abstract DAG.
pub struct Universe {
    /// abstract command n -> chain of real commands
    pub chains: BTreeMap<u64, Vec<ACmd>>,
    pub order: Vec<u64>,
    pub parents: BTreeMap<u64, Vec<u64>>,
    pub kinds: BTreeMap<u64, String>,
    pub by_id: BTreeMap<[u8; 32], (u64, usize)>,
}

impl Universe {
    pub fn tip(&self, n: u64) -> &ACmd {
        self.chains[&n].last().unwrap()
    }
    pub fn all(&self) -> impl Iterator<Item = &ACmd> {
        self.order.iter().flat_map(|n| self.chains[n].iter())
    }
    pub fn label_of(&self, id: &[u8; 32]) -> String {
        self.by_id.get(id).map(|(n, j)| self.chains[n][*j].label()).unwrap_or_else(|| format!("?{}", ids::hex(id)))
    }
    /// real parent ids of every real command
    pub fn real_parents(&self) -> BTreeMap<[u8; 32], Vec<[u8; 32]>> {
        let mut m = BTreeMap::new();
        for c in self.all() {
            let ps = match c.parent {
                Prior::None => vec![],
                Prior::Single(p) => vec![*p.id.as_array()],
                Prior::Merge(l, r) => vec![*l.id.as_array(), *r.id.as_array()],
            };
            m.insert(*c.id.as_array(), ps);
        }
        m
    }
    /// expansion of an abstract command sequence into labels (merges have no label in seq)
    pub fn expand(&self, seq: &[u64]) -> Vec<String> {
        seq.iter().flat_map(|n| self.chains[n].iter().map(ACmd::label)).collect()
    }
}

/// `stretch`: maximum chain length per basic command (1 = no stretch).
pub fn build_universe(cmds: &[Value], stretch: u64, rng: &mut Rng, merge_tag: u8, prio_max: bool) -> Result<Universe, String> {
    let mut u = Universe {
        chains: BTreeMap::new(),
        order: vec![],
        parents: BTreeMap::new(),
        kinds: BTreeMap::new(),
        by_id: BTreeMap::new(),
    };
    for c in cmds {
        let n = c.u("n");
        let kind = c.s("kind").to_string();
        let par: Vec<u64> = c.a("par").iter().map(|v| v.as_u64().unwrap()).collect();
        let op = c.s("op").as_bytes()[0];
        let chain = match kind.as_str() {
            "init" => vec![ACmd::new(ids::init_id(), Priority::Init, Prior::None, b'n', &n.to_string())],
            "merge" => {
                let (l, r) = (u.tip(par[0]).address(), u.tip(par[1]).address());
                let id = ids::merge_id(l.id.as_array(), r.id.as_array(), merge_tag)
                    .ok_or_else(|| "merge id exceeds 32 bytes".to_string())?;
                let (l, r) = if l.id < r.id { (l, r) } else { (r, l) };
                vec![ACmd::new(id, Priority::Merge, Prior::Merge(l, r), b'm', &format!("m{n}"))]
            }
            _ => {
                let rank = c.g("id").as_array().unwrap()[1].as_u64().unwrap() as u8;
                let k = if kind == "fin" || stretch <= 1 { 1 } else { rng.range(1, stretch) };
                // the spec only orders priorities 0 < 1; option prio_max concretises 1 as u32::MAX
                // (the boundary next to Finalize) and 0 as u32::MAX - 1
                let pv = c.u("prio") as u32;
                let pv = if prio_max { if pv == 0 { u32::MAX - 1 } else { u32::MAX } } else { pv };
                let prio = if kind == "fin" { Priority::Finalize } else { Priority::Basic(pv) };
                let mut prev = u.tip(par[0]).address();
                let mut v = vec![];
                for j in 0..k {
                    let label = if k == 1 { n.to_string() } else { format!("{n}.{j}") };
                    // only the first command of a chain carries a non-trivial op
                    let o = if j == 0 { op } else { b'n' };
                    let cmd = ACmd::new(ids::basic_id(rank, j as u16), prio.clone(), Prior::Single(prev), o, &label);
                    prev = cmd.address();
                    v.push(cmd);
                }
                v
            }
        };
        for (j, cmd) in chain.iter().enumerate() {
            u.by_id.insert(*cmd.id.as_array(), (n, j));
        }
        u.chains.insert(n, chain);
        u.order.push(n);
        u.parents.insert(n, par);
        u.kinds.insert(n, kind);
    }
    Ok(u)
}

pub fn view_json(u: &Universe, v: &View) -> Value {
    json!({
        "heads": v.heads.iter().map(|h| u.label_of(h)).collect::<Vec<_>>(),
        "n_reachable": v.reachable.len(),
        "seq": v.seq, "kv": v.kv,
    })
}

struct Fail {
    key: String,
    msg: String,
    /// further properties whose predicate the same failure breaks
    also: Vec<String>,
}
fn fail(key: &str, msg: String) -> Fail {
    Fail { key: key.to_string(), msg, also: vec![] }
}

/// Independent frontier: committed commands with no committed descendant, sorted by id.
pub fn frontier(reach: &BTreeSet<[u8; 32]>, parents: &BTreeMap<[u8; 32], Vec<[u8; 32]>>) -> Vec<[u8; 32]> {
    let mut has_child = BTreeSet::new();
    for c in reach {
        if let Some(ps) = parents.get(c) {
            for p in ps {
                has_child.insert(*p);
            }
        }
    }
    reach.iter().filter(|c| !has_child.contains(*c)).copied().collect()
}

/// C02 on the fact state: `seq` lists every non-merge command of `reach` exactly once,
/// every command after all its ancestors.
pub fn check_once(u: &Universe, seq: &[String], reach: &BTreeSet<[u8; 32]>) -> Option<String> {
    let mut pos: BTreeMap<String, usize> = BTreeMap::new();
    for (i, l) in seq.iter().enumerate() {
        if pos.insert(l.clone(), i).is_some() {
            return Some(format!("command {l} applied twice in seq"));
        }
    }
    let parents = u.real_parents();
    // nearest non-merge ancestors of a command
    fn nm_anc(id: &[u8; 32], u: &Universe, parents: &BTreeMap<[u8; 32], Vec<[u8; 32]>>, out: &mut Vec<[u8; 32]>) {
        for p in &parents[id] {
            let (n, _) = u.by_id[p];
            if u.kinds[&n] == "merge" {
                nm_anc(p, u, parents, out);
            } else {
                out.push(*p);
            }
        }
    }
    let mut expected = 0usize;
    for id in reach {
        let (n, j) = u.by_id.get(id).copied()?;
        if u.kinds[&n] == "merge" {
            continue;
        }
        if u.chains[&n][j].bytes[0] == b'q' {
            if pos.contains_key(&u.chains[&n][j].label()) {
                return Some(format!("quiet command {} wrote to seq", u.chains[&n][j].label()));
            }
            continue;
        }
        expected += 1;
        let label = u.chains[&n][j].label();
        let Some(&p) = pos.get(&label) else {
            // a set-if-absent command may legitimately be rejected in a braid (writes nothing)
            if u.chains[&n][j].bytes[0] == b'x' {
                expected -= 1;
                continue;
            }
            return Some(format!("command {label} missing from seq"));
        };
        let mut anc = vec![];
        nm_anc(id, u, &parents, &mut anc);
        for a in anc {
            let al = u.label_of(&a);
            match pos.get(&al) {
                Some(&q) if q < p => {}
                None if u.by_id.get(&a).is_some_and(|(an, aj)| matches!(u.chains[an][*aj].bytes[0], b'x' | b'q')) => {}
                _ => return Some(format!("command {label} applied before its ancestor {al}")),
            }
        }
    }
    if expected != seq.len() {
        return Some(format!("seq has {} entries, graph has {} non-merge commands", seq.len(), expected));
    }
    None
}

fn deliver_all(r: &mut Replica, order: &[ACmd], rng: Option<&mut Rng>, sink: &mut ASink, flushy: bool) -> Result<crate::replica::Txn, ClientError> {
    let mut t = r.txn();
    match rng {
        None => {
            r.deliver(&mut t, sink, order)?;
        }
        Some(rng) => {
            let mut i = 0;
            while i < order.len() {
                let n = rng.range(1, 3).min((order.len() - i) as u64) as usize;
                // Replica!AddOne: a command the transaction already has is skipped, so re-delivering
                // earlier commands anywhere (also while the perspective opened on them is
                // unwritten) must not change the outcome.
                let mut batch: Vec<ACmd> = order[i..i + n].to_vec();
                if i > 0 && rng.chance(1, 3) {
                    let dup = order[rng.below(i as u64) as usize].clone();
                    let at = rng.below(batch.len() as u64 + 1) as usize;
                    batch.insert(at, dup);
                }
                r.deliver(&mut t, sink, &batch)?;
                i += n;
                if rng.chance(if flushy { 9 } else { 1 }, if flushy { 10 } else { 2 }) {
                    r.flush(&mut t)?;
                }
            }
        }
    }
    Ok(t)
}

/// A seeded topological order of the universe different from creation order where possible.
fn alt_order(u: &Universe, rng: &mut Rng) -> Vec<ACmd> {
    let mut placed: BTreeSet<u64> = BTreeSet::new();
    let mut out = vec![];
    while placed.len() < u.order.len() {
        let avail: Vec<u64> = u
            .order
            .iter()
            .copied()
            .filter(|n| !placed.contains(n) && u.parents[n].iter().all(|p| placed.contains(p)))
            .collect();
        let n = *rng.pick(&avail);
        placed.insert(n);
        out.extend(u.chains[&n].iter().cloned());
    }
    out
}

fn run_case(case: &Value, args: &Args, rng: &mut Rng) -> Result<(Value, u64), Fail> {
    let merge_tag = args.opt_u64("merge_tag", 2) as u8;
    audit::set_merge_tag(merge_tag);
    let stretch = args.opt_u64("stretch", 1);
    let u = build_universe(case.a("cmds"), stretch, rng, merge_tag, args.opt_bool("prio_max")).map_err(|e| fail("tool:universe", e))?;
    let exp_err = case.b("err");
    let exp_heads: Vec<[u8; 32]> = case.a("heads").iter().map(|h| *u.tip(h.as_u64().unwrap()).id.as_array()).collect();
    // the `seq` fact: application order of the commands the audit rules accepted
    let exp_seq = u.expand(&case.g("facts").a("seq").iter().map(|v| v.as_u64().unwrap()).collect::<Vec<_>>());
    let exp_k = case.g("facts").u("k");
    let mut drift = 0u64;

    // ---- replica A: creation order, one batch
    let mut a = Replica::new(ids::init_id());
    let mut sink = ASink::new();
    let order: Vec<ACmd> = u.all().cloned().collect();
    audit::take_log();
    let t = deliver_all(&mut a, &order, None, &mut sink, false)
        .map_err(|e| fail("C03:deliver-error", format!("delivering the DAG in creation order failed: {}", err_class(&e))))?;
    let before = a.view().map_err(|e| fail("tool:view", e))?;
    let res = match vrt::catch_any(|| a.commit(t, &mut sink)) {
        Ok(r) => r,
        Err(p) => {
            let key = if exp_err { "C05:panic-on-parallel-finalize" } else { "C03:panic" };
            return Err(fail(key, format!("commit panicked: {p}")));
        }
    };
    let log = audit::take_log();
    let after = a.view().map_err(|e| fail("tool:view", e))?;
    let obs = json!({"result": match &res { Ok(b) => format!("ok:{b}"), Err(e) => err_class(e) }, "view": view_json(&u, &after)});

    if log.iter().any(|c| c.merge) {
        return Err(fail("C02:merge-evaluated", format!("a merge command reached call_rule; {obs}")));
    }
    match (&res, exp_err) {
        (Err(ClientError::ParallelFinalize), true) => {
            if after != before {
                return Err(fail("C05:state-changed-on-error", format!("ParallelFinalize changed the committed state; {obs}")));
            }
            return Ok((obs, drift));
        }
        (Ok(_), true) => return Err(fail("C05:missed-parallel-finalize", format!("two concurrent finalize commands were committed; {obs}"))),
        (Err(ClientError::ParallelFinalize), false) => {
            return Err(fail("C05:spurious-parallel-finalize", format!("finalize commands are causally ordered; {obs}")))
        }
        (Err(e), _) => return Err(fail("C03:commit-error", format!("commit failed: {}; {obs}", err_class(e)))),
        (Ok(_), false) => {}
    }

    // committed set = everything delivered (C08), heads = frontier (C09)
    let all_ids: BTreeSet<[u8; 32]> = u.all().map(|c| *c.id.as_array()).collect();
    if after.reachable != all_ids {
        return Err(fail("C08:commit-set", format!("committed graph has {} commands, delivered {}; {obs}", after.reachable.len(), all_ids.len())));
    }
    let fr = frontier(&after.reachable, &u.real_parents());
    if after.heads != fr {
        return Err(fail("C09:frontier", format!("head set is not the sorted frontier {:?}; {obs}", fr.iter().map(|h| u.label_of(h)).collect::<Vec<_>>())));
    }
    if after.heads != exp_heads {
        drift += 1; // spec and harness disagree on the frontier although the code matches the harness: spec bug
    }
    // C02 on the fact state
    if let Some(m) = check_once(&u, &after.seq, &after.reachable) {
        let mut f = fail("C02:once", format!("{m}; {obs}"));
        if after.seq != exp_seq {
            // the fact state also differs from the reference braid
            f.also.push("C03:seq".into());
            if exp_heads.len() >= 2 {
                f.also.push("C04:multi-head-facts".into());
            }
        }
        return Err(f);
    }
    // C03: the reference braid
    if after.seq != exp_seq {
        let mut f = fail("C03:seq", format!("fact state differs from the reference braid: expected seq {exp_seq:?}; {obs}"));
        if exp_heads.len() >= 2 {
            // C04: what queries see on a multi-head graph must equal the collapse's state,
            // which the spec proves equal to the N-way reference braid (LazyMergeEquiv)
            f.also.push("C04:multi-head-facts".into());
        }
        return Err(f);
    }
    let exp_kv: Vec<(String, String)> =
        if exp_k == 0 { vec![] } else { vec![("k".into(), u.chains[&exp_k][0].label())] };
    if after.kv != exp_kv {
        return Err(fail("C03:kv", format!("keyed facts differ from the reference braid: expected {exp_kv:?}; {obs}")));
    }
    // C04/C19: hello head is the id of the deterministic fold
    let hello = a.hello().map_err(|e| fail("C04:hello-error", format!("hello_head failed: {}", err_class(&e))))?;
    let mut q: std::collections::VecDeque<[u8; 32]> = exp_heads.iter().copied().collect();
    while q.len() > 1 {
        let (l, r) = (q.pop_front().unwrap(), q.pop_front().unwrap());
        q.push_back(ids::merge_id(&l, &r, merge_tag).ok_or_else(|| fail("tool:id", "fold id too long".into()))?);
    }
    if *hello.id.as_array() != q[0] {
        return Err(fail("C04:hello", format!("hello head {} is not the fold of the head set {}; {obs}", ids::hex(hello.id.as_array()), ids::hex(&q[0]))));
    }

    // ---- replica B: another history of the same DAG (C01)
    if args.opt_bool("twin") {
        let mut b = Replica::new(ids::init_id());
        let mut sink_b = ASink::new();
        let ord = alt_order(&u, rng);
        let flushy = args.opt_bool("flushy");
        let tb = match vrt::catch_any(|| deliver_all(&mut b, &ord, Some(rng), &mut sink_b, flushy)) {
            Ok(r) => r.map_err(|e| fail("C01:twin-deliver-error", format!("second history failed to deliver: {}", err_class(&e))))?,
            Err(p) => return Err(fail("C01:twin-panic", format!("second history panicked while delivering: {p}"))),
        };
        match vrt::catch_any(|| b.commit(tb, &mut sink_b)) {
            Ok(r) => {
                r.map_err(|e| fail("C01:twin-commit-error", format!("second history failed to commit: {}", err_class(&e))))?;
            }
            Err(p) => return Err(fail("C01:twin-panic", format!("second history panicked at commit: {p}"))),
        }
        let vb = b.view().map_err(|e| fail("tool:view", e))?;
        let hb = b.hello().map_err(|e| fail("C01:hello-error", err_class(&e)))?;
        // the second history is held to the same per-replica predicates before it is compared
        let frb = frontier(&vb.reachable, &u.real_parents());
        if vb.heads != frb {
            return Err(fail("C09:frontier", format!("second history: head set {:?} is not the sorted frontier {:?}", vb.heads.iter().map(|h| u.label_of(h)).collect::<Vec<_>>(), frb.iter().map(|h| u.label_of(h)).collect::<Vec<_>>())));
        }
        if vb.reachable != all_ids {
            return Err(fail("C08:commit-set", format!("second history committed {} commands, delivered {}", vb.reachable.len(), all_ids.len())));
        }
        if let Some(m) = check_once(&u, &vb.seq, &vb.reachable) {
            return Err(fail("C02:once", format!("second history: {m}")));
        }
        if vb != after || hb != hello {
            return Err(fail("C01:diverge", format!("two histories of one DAG disagree: A {} B {}", view_json(&u, &after), view_json(&u, &vb))));
        }
        // the differently segmented twin has the richer index (more segments, skip lists)
        if args.opt_bool("index") {
            match vrt::catch_any(|| check_index(&mut b, &u, rng)) {
                Ok(r) => r?,
                Err(p) => return Err(fail("C11:panic", format!("lookup/ancestry query panicked: {p}"))),
            }
        }
    }

    // ---- replica C: the graph is created by a real `new_graph` action that publishes the init
    // command AND the first command(s) under it, so the init segment holds several commands
    if args.opt_bool("twin") && u.order.len() >= 2 && u.parents[&u.order[1]] == vec![u.order[0]] && u.kinds[&u.order[1]] != "merge" {
        let mut c = Replica::new(ids::init_id());
        let mut sink_c = ASink::new();
        let mut pubs = vec![audit::Publish { id: ids::init_id(), prio: Priority::Init, op: b'n', label: u.chains[&u.order[0]][0].label() }];
        for cmd in &u.chains[&u.order[1]] {
            pubs.push(audit::Publish { id: *cmd.id.as_array(), prio: cmd.prio.clone(), op: cmd.bytes[0], label: cmd.label() });
        }
        let act = audit::AAction { cmds: pubs, fail_after: None };
        c.new_graph(&mut sink_c, &act).map_err(|e| fail("C07:new-graph-failed", format!("new_graph publishing init + {} commands failed: {}", u.chains[&u.order[1]].len(), err_class(&e))))?;
        let rest: Vec<ACmd> = u.order[2..].iter().flat_map(|n| u.chains[n].iter().cloned()).collect();
        let mut tc = c.txn();
        let res_c = match vrt::catch_any(|| {
            if !rest.is_empty() {
                c.deliver(&mut tc, &mut sink_c, &rest)?;
            }
            c.commit(tc, &mut sink_c)
        }) {
            Ok(r) => r,
            Err(p) => return Err(fail("C01:twin-panic", format!("history starting with a multi-command init segment panicked: {p}"))),
        };
        res_c.map_err(|e| fail("C01:twin-commit-error", format!("history starting with a multi-command init segment failed: {}", err_class(&e))))?;
        if args.opt_bool("index") {
            match vrt::catch_any(|| check_index(&mut c, &u, rng)) {
                Ok(r) => r?,
                Err(p) => return Err(fail("C11:panic", format!("lookup/ancestry query panicked: {p}"))),
            }
        }
        let vc = c.view().map_err(|e| fail("tool:view", e))?;
        if vc != after {
            return Err(fail("C01:diverge", format!("a replica whose graph was created by an action publishing several commands disagrees: A {} C {}", view_json(&u, &after), view_json(&u, &vc))));
        }
    }

    // ---- C11: lookup and ancestry on the committed graph
    if args.opt_bool("index") {
        match vrt::catch_any(|| check_index(&mut a, &u, rng)) {
            Ok(r) => r?,
            Err(p) => return Err(fail("C11:panic", format!("lookup/ancestry query panicked: {p}"))),
        }
    }
    // ---- fault dimension: a read fault at the k-th storage fetch of the commit.  The spec's
    // Commit is atomic: the call either fails and leaves the committed state as it was, or
    // succeeds with exactly the state of the fault-free run (C08: history only grows).
    if args.opt_bool("faults") && exp_heads.len() >= 2 && rng.below(args.opt_u64("faults_every", 1)) == 0 {
        let build = |sink: &mut ASink| -> Result<(Replica, crate::replica::Txn), Fail> {
            let mut r = Replica::new(ids::init_id());
            let t = deliver_all(&mut r, &order, None, sink, false).map_err(|e| fail("tool:fault-build", err_class(&e)))?;
            Ok((r, t))
        };
        let mut s0 = ASink::new();
        let (mut r0, t0) = build(&mut s0)?;
        crate::faulty::reset_fetch_count();
        r0.commit(t0, &mut s0).map_err(|e| fail("tool:fault-dry-run", err_class(&e)))?;
        let n = crate::faulty::fetch_count();
        // the backend's head-set write fails: the commit must fail and nothing may change
        // (neither the persisted heads nor what get_heads() reports)
        #[cfg(not(feature = "filestore"))]
        {
            let mut sw = ASink::new();
            let (mut r, t) = build(&mut sw)?;
            let before_w = r.view().map_err(|e| fail("tool:view", e))?;
            crate::faulty::fail_next_commit(true);
            let res = vrt::catch_any(|| r.commit(t, &mut sw));
            crate::faulty::fail_next_commit(false);
            let after_w = r.view().map_err(|e| fail("C08:unreadable-after-fault", format!("state unreadable after a failed head-set write: {e}")))?;
            match res {
                Err(p) => return Err(fail("C08:panic-on-write-fault", format!("commit panicked when the head-set write failed: {p}"))),
                Ok(Ok(_)) => return Err(fail("C08:commit-ok-despite-write-fault", "commit returned Ok although the backend's head-set write failed".into())),
                Ok(Err(_)) => {
                    if after_w != before_w {
                        return Err(fail("C08:partial-commit-on-write-fault", format!("commit failed (head-set write error) but the reported committed state changed: before {} after {}", view_json(&u, &before_w), view_json(&u, &after_w))));
                    }
                }
            }
        }
        let ks: Vec<i64> = if n <= 16 { (0..n).collect() } else { (0..16).map(|_| rng.below(n as u64) as i64).collect() };
        for k in ks {
            let mut sk = ASink::new();
            let (mut r, t) = build(&mut sk)?;
            let before_f = r.view().map_err(|e| fail("tool:view", e))?;
            crate::faulty::fail_nth_fetch(Some(k));
            let res = vrt::catch_any(|| r.commit(t, &mut sk));
            crate::faulty::fail_nth_fetch(None);
            let after_f = r.view().map_err(|e| fail("C08:unreadable-after-fault", format!("state unreadable after a read fault at fetch {k} of commit: {e}")))?;
            match res {
                Err(p) => return Err(fail("C08:panic-on-read-fault", format!("commit panicked on a read fault at fetch {k}: {p}"))),
                Ok(Ok(_)) => {
                    if after_f != after {
                        return Err(fail("C08:wrong-state-after-absorbed-fault", format!("commit returned Ok despite a read fault at fetch {k} but the committed state differs from the fault-free run")));
                    }
                }
                Ok(Err(_)) => {
                    if after_f != before_f {
                        return Err(fail("C08:partial-commit-on-read-fault", format!("commit failed on a read fault at fetch {k} but the committed state changed: before {} after {}", view_json(&u, &before_f), view_json(&u, &after_f))));
                    }
                }
            }
        }
    }
    Ok((obs, drift))
}

/// C11: for all committed commands `get_location` finds them; for all ordered pairs
/// `is_ancestor` equals DAG ancestry.
fn check_index(r: &mut Replica, u: &Universe, rng: &mut Rng) -> Result<(), Fail> {
    let hl = r.head_locs().map_err(|e| fail("tool:heads", e.to_string()))?;
    let locs: Vec<Location> = hl.iter().map(|(_, l)| *l).collect();
    let walked = r.walk(&locs).map_err(|e| fail("tool:walk", e.to_string()))?;
    let parents = u.real_parents();
    // ancestor sets
    let ids: Vec<[u8; 32]> = u.all().map(|c| *c.id.as_array()).collect();
    let mut anc: BTreeMap<[u8; 32], BTreeSet<[u8; 32]>> = BTreeMap::new();
    for id in &ids {
        let mut s = BTreeSet::new();
        for p in &parents[id] {
            s.insert(*p);
            s.extend(anc[p].iter().copied());
        }
        anc.insert(*id, s);
    }
    let g = r.graph;
    let s = r.client.provider().get_storage(g).map_err(|e| fail("tool:storage", e.to_string()))?;
    let mut buf = TraversalBuffer::new();
    if std::env::var_os("VH_INDEX_STATS").is_some() {
        use aranya_runtime::Segment as _;
        let mut segs = BTreeSet::new();
        let mut with_skip = 0;
        let mut max_skip = 0;
        for (l, _) in walked.values() {
            if segs.insert(l.segment.get()) {
                let sg = s.get_segment(*l).unwrap();
                if !sg.skip_list().is_empty() { with_skip += 1; }
                max_skip = max_skip.max(sg.skip_list().len());
            }
        }
        eprintln!("INDEXSTATS cmds={} segments={} with_skip={} max_skip_len={}", walked.len(), segs.len(), with_skip, max_skip);
    }
    for c in u.all() {
        let addr = c.address();
        match s.get_location(addr, &mut buf) {
            Ok(Some(l)) => {
                let got = s.get_command_address(l).map_err(|e| fail("C11:lookup-bad-location", format!("location for {} unreadable: {e}", c.label())))?;
                if got != addr {
                    return Err(fail("C11:lookup-wrong", format!("get_location({}) returned a location holding another command", c.label())));
                }
            }
            Ok(None) => return Err(fail("C11:lookup-miss", format!("committed command {} not found by get_location", c.label()))),
            Err(e) => return Err(fail("C11:lookup-error", format!("get_location({}) failed: {e}", c.label()))),
        }
    }
    // unknown ids are never found, at any max cut
    let max_mc = u.all().map(|c| c.address().max_cut.get()).max().unwrap_or(0);
    for mc in 0..=max_mc + 1 {
        let addr = Address { id: ids::cmd_id(ids::basic_id(250, 7)), max_cut: MaxCut::new(mc) };
        if let Ok(Some(_)) = s.get_location(addr, &mut buf) {
            return Err(fail("C11:lookup-phantom", format!("get_location found an id that was never committed (max_cut {mc})")));
        }
    }
    // ancestry for all ordered pairs (sampled beyond 160 commands)
    let n = ids.len();
    let all_pairs = n <= 160;
    let pairs = if all_pairs { n * n } else { 20_000 };
    for k in 0..pairs {
        let (i, j) = if all_pairs { (k / n, k % n) } else { (rng.below(n as u64) as usize, rng.below(n as u64) as usize) };
        let (a, b) = (&ids[i], &ids[j]);
        let (la, lb) = (walked[a].0, walked[b].0);
        let want = anc[b].contains(a);
        match s.is_ancestor(la, lb, &mut buf) {
            Ok(got) if got == want => {}
            Ok(got) => {
                return Err(fail(
                    "C11:ancestry",
                    format!("is_ancestor({}, {}) = {got}, DAG says {want}", u.label_of(a), u.label_of(b)),
                ))
            }
            Err(e) => return Err(fail("C11:ancestry-error", format!("is_ancestor failed: {e}"))),
        }
        // lookup from an arbitrary start
        if let Ok(found) = s.get_location_from(lb, Address { id: ids::cmd_id(*a), max_cut: la.max_cut }, &mut buf) {
            let want_found = want || a == b;
            if found.is_some() != want_found {
                return Err(fail("C11:lookup-from", format!("get_location_from({} -> {}) = {:?}, DAG says reachable={want_found}", u.label_of(b), u.label_of(a), found.is_some())));
            }
        }
    }
    Ok(())
}

/// Star family: `w` children of init.  Replica P holds all of them (w lazy heads); for each k a
/// replica S_k holds all but child k.  C19: S_k must decide to sync on P's hello (P has a
/// non-merge command S_k lacks), also beyond the peer-cache / sample sizes (w > 10); C04/C01: two
/// histories of P agree on the hello head.
fn run_star(case: &Value, args: &Args, rng: &mut Rng) -> Result<(Value, u64), Fail> {
    let merge_tag = args.opt_u64("merge_tag", 2) as u8;
    audit::set_merge_tag(merge_tag);
    let w = case.u("star");
    let init = ACmd::new(ids::init_id(), Priority::Init, Prior::None, b'n', "1");
    let kids: Vec<ACmd> = (0..w)
        .map(|i| ACmd::new(ids::basic_id(1 + (i % 200) as u8, (i / 200) as u16), Priority::Basic((i % 2) as u32), Prior::Single(init.address()), b'n', &format!("k{i}")))
        .collect();
    let build = |skip: Option<u64>, rng: &mut Rng, shuffle: bool| -> Result<Replica, Fail> {
        let mut r = Replica::new(ids::init_id());
        let mut sink = ASink::new();
        let mut order: Vec<ACmd> = kids.iter().enumerate().filter(|(i, _)| Some(*i as u64) != skip).map(|(_, c)| c.clone()).collect();
        if shuffle {
            rng.shuffle(&mut order);
        }
        let mut t = r.txn();
        r.deliver(&mut t, &mut sink, std::slice::from_ref(&init)).map_err(|e| fail("tool:star", err_class(&e)))?;
        for c in order.chunks(3) {
            r.deliver(&mut t, &mut sink, c).map_err(|e| fail("C08:star-deliver", format!("delivering siblings failed: {}", err_class(&e))))?;
        }
        r.commit(t, &mut sink).map_err(|e| fail("C08:star-commit", format!("committing {w} sibling heads failed: {}", err_class(&e))))?;
        Ok(r)
    };
    let mut p = build(None, rng, false)?;
    let mut p2 = build(None, rng, true)?;
    let hp = p.hello().map_err(|e| fail("C04:hello-error", format!("hello_head of {w} heads failed: {}", err_class(&e))))?;
    let hp2 = p2.hello().map_err(|e| fail("C04:hello-error", err_class(&e)))?;
    if hp != hp2 || p.view().map_err(|e| fail("tool:view", e))? != p2.view().map_err(|e| fail("tool:view", e))? {
        return Err(fail("C01:diverge", format!("two histories of a {w}-wide star disagree")));
    }
    let picks: Vec<u64> = if w <= 16 { (0..w).collect() } else { (0..12).map(|_| rng.below(w)).chain([0, w - 1, 9, 10, 11]).collect() };
    for k in picks {
        let mut s = build(Some(k), rng, false)?;
        match s.should_sync(hp) {
            Ok(true) => {}
            Ok(false) => {
                return Err(fail("C19:suppressed", format!("replica lacking sibling k{k} of a {w}-wide star decided not to sync on the full replica's hello")))
            }
            Err(e) => return Err(fail("C19:error", format!("should_sync_on_hello failed: {}", err_class(&e)))),
        }
        // fault dimension: a read fault during the lookup must never become "no sync needed"
        if args.opt_bool("faults") {
            crate::faulty::reset_fetch_count();
            let _ = s.should_sync(hp);
            let m = crate::faulty::fetch_count();
            for j in 0..m.min(24) {
                crate::faulty::fail_nth_fetch(Some(j));
                let r = vrt::catch_any(|| s.should_sync(hp));
                crate::faulty::fail_nth_fetch(None);
                match r {
                    Ok(Ok(false)) => {
                        return Err(fail("C19:suppressed-on-read-fault", format!("a read fault at fetch {j} of the hello lookup made a replica lacking sibling k{k} decide not to sync")))
                    }
                    Err(p) => return Err(fail("C19:panic-on-read-fault", format!("should_sync_on_hello panicked on a read fault: {p}"))),
                    _ => {}
                }
            }
        }
        // same head set => same hello (C19 second clause)
        let mut s2 = build(Some(k), rng, true)?;
        if s.hello().ok() != s2.hello().ok() {
            return Err(fail("C19:hello-differs", format!("two replicas with the same {}-head set advertise different hello heads", w - 1)));
        }
    }
    // deep-vs-shallow: the receiver's head lies ABOVE the advertised command's max cut, so the
    // lookup really walks the storage (and can hit a read fault): S = init -> a1 -> a2 -> a3,
    // P = init -> b1; S lacks b1 and must sync — with and without faults.
    {
        let mut chain = vec![];
        let mut prev = init.address();
        for j in 0..3u16 {
            let c = ACmd::new(ids::basic_id(7, j), Priority::Basic(0), Prior::Single(prev), b'n', &format!("a{j}"));
            prev = c.address();
            chain.push(c);
        }
        let b1 = ACmd::new(ids::basic_id(8, 0), Priority::Basic(0), Prior::Single(init.address()), b'n', "b1");
        let mk = |cmds: &[ACmd]| -> Result<Replica, Fail> {
            let mut r = Replica::new(ids::init_id());
            let mut sink = ASink::new();
            let mut t = r.txn();
            r.deliver(&mut t, &mut sink, std::slice::from_ref(&init)).map_err(|e| fail("tool:star", err_class(&e)))?;
            for c in cmds {
                r.deliver(&mut t, &mut sink, std::slice::from_ref(c)).map_err(|e| fail("tool:star", err_class(&e)))?;
                r.flush(&mut t).map_err(|e| fail("tool:star", err_class(&e)))?;
            }
            r.commit(t, &mut sink).map_err(|e| fail("tool:star", err_class(&e)))?;
            Ok(r)
        };
        let mut s = mk(&chain)?;
        let mut p2 = mk(std::slice::from_ref(&b1))?;
        let hp2 = p2.hello().map_err(|e| fail("C04:hello-error", err_class(&e)))?;
        match s.should_sync(hp2) {
            Ok(true) => {}
            Ok(false) => return Err(fail("C19:suppressed", "a replica with a longer own branch decided not to sync on a hello for a sibling command it lacks".into())),
            Err(e) => return Err(fail("C19:error", format!("should_sync_on_hello failed: {}", err_class(&e)))),
        }
        if args.opt_bool("faults") {
            crate::faulty::reset_fetch_count();
            let _ = s.should_sync(hp2);
            let m = crate::faulty::fetch_count();
            for j in 0..m.min(32) {
                crate::faulty::fail_nth_fetch(Some(j));
                let r = vrt::catch_any(|| s.should_sync(hp2));
                crate::faulty::fail_nth_fetch(None);
                match r {
                    Ok(Ok(false)) => {
                        return Err(fail("C19:suppressed-on-read-fault", format!("a read fault at fetch {j} of {m} of the hello lookup made a replica decide not to sync although it lacks the advertised command")))
                    }
                    Err(p) => return Err(fail("C19:panic-on-read-fault", format!("should_sync_on_hello panicked on a read fault: {p}"))),
                    _ => {}
                }
            }
        }
    }
    Ok((json!({"star": w}), 0))
}

/// Ladder family (DESIGN §5 C02): a chain of `rungs` diamonds a_i, b_i -> m_i under init plus a
/// sibling branch of `side` commands; committing {top of ladder, side tip} braids a region with
/// one convergence point per rung (ConvergenceMap spills beyond 768) and > 256 braided commands
/// (BraidResult spill).  Decided on C02's own predicate (every command once, ancestors first, no
/// merge evaluated) and on C01 (a differently batched twin agrees).
fn run_ladder(case: &Value, args: &Args, rng: &mut Rng) -> Result<(Value, u64), Fail> {
    let merge_tag = args.opt_u64("merge_tag", 2) as u8;
    audit::set_merge_tag(merge_tag);
    let fan = case.get("fan").and_then(Value::as_u64).unwrap_or(0);
    let rungs = if fan > 0 { 0 } else { case.u("rungs") };
    let side = if fan > 0 { 0 } else { case.u("side") };
    // abstract cmds: 1 init; per rung i: a=2+3i, b=3+3i, m=4+3i ; then side chain
    let mut cmds: Vec<Value> = vec![json!({"n":1,"par":[],"kind":"init","prio":0,"id":[3],"op":"n","mc":0})];
    let mut top = 1u64;
    let mut uni = Universe { chains: BTreeMap::new(), order: vec![], parents: BTreeMap::new(), kinds: BTreeMap::new(), by_id: BTreeMap::new() };
    let _ = &mut cmds;
    let init = ACmd::new(ids::init_id(), Priority::Init, Prior::None, b'n', "1");
    let mut add = |u: &mut Universe, n: u64, kind: &str, par: Vec<u64>, cmd: ACmd| {
        u.by_id.insert(*cmd.id.as_array(), (n, 0));
        u.chains.insert(n, vec![cmd]);
        u.order.push(n);
        u.parents.insert(n, par);
        u.kinds.insert(n, kind.to_string());
    };
    add(&mut uni, 1, "init", vec![], init);
    let mut n = 2u64;
    for i in 0..rungs {
        let p = uni.tip(top).address();
        let a = ACmd::new(ids::basic_id(1, i as u16), Priority::Basic(0), Prior::Single(p), b'n', &format!("a{i}"));
        let b = ACmd::new(ids::basic_id(2, i as u16), Priority::Basic((i % 2) as u32), Prior::Single(p), b'n', &format!("b{i}"));
        let (la, lb) = (a.address(), b.address());
        let mid = ids::merge_id(la.id.as_array(), lb.id.as_array(), merge_tag).ok_or_else(|| fail("tool:id", "merge id".into()))?;
        let (l, r) = if la.id < lb.id { (la, lb) } else { (lb, la) };
        let m = ACmd::new(mid, Priority::Merge, Prior::Merge(l, r), b'm', &format!("m{i}"));
        add(&mut uni, n, "b", vec![top], a);
        add(&mut uni, n + 1, "b", vec![top], b);
        add(&mut uni, n + 2, "merge", vec![n, n + 1], m);
        top = n + 2;
        n += 3;
    }
    // fan family: `fan` forks f_i under init, each with two children: 2*fan heads and `fan`
    // convergence points at ONE max cut (spilled convergence blocks with overlapping ranges)
    for i in 0..fan {
        let p = uni.tip(1).address();
        let f = ACmd::new(ids::basic_id(1, i as u16), Priority::Basic((i % 2) as u32), Prior::Single(p), b'n', &format!("f{i}"));
        let fa = f.address();
        let a = ACmd::new(ids::basic_id(2, i as u16), Priority::Basic(((i / 2) % 2) as u32), Prior::Single(fa), b'n', &format!("a{i}"));
        let b = ACmd::new(ids::basic_id(3, i as u16), Priority::Basic(((i / 3) % 2) as u32), Prior::Single(fa), b'n', &format!("b{i}"));
        add(&mut uni, n, "b", vec![1], f);
        add(&mut uni, n + 1, "b", vec![n], a);
        add(&mut uni, n + 2, "b", vec![n], b);
        n += 3;
    }
    let mut prev = 1u64;
    for j in 0..side {
        let p = uni.tip(prev).address();
        // where the side branch sorts relative to the ladder decides when its strand is popped:
        // mode 0 always last, 2 always first, 1 alternating extremes with the tip first and
        // its parent last (the tip's strand then waits in the heap across the whole ladder)
        let mode = case.get("side_mode").and_then(Value::as_u64).unwrap_or(0);
        let hi = match mode {
            0 => true,
            2 => false,
            _ => (side - 1 - j) % 2 == 1,
        };
        let (rank, prio) = if hi { (9u8, 1u32) } else { (0u8, 0u32) };
        let c = ACmd::new(ids::basic_id(rank, j as u16), Priority::Basic(prio), Prior::Single(p), b'n', &format!("s{j}"));
        add(&mut uni, n, "b", vec![prev], c);
        prev = n;
        n += 1;
    }
    let order: Vec<ACmd> = uni.all().cloned().collect();
    let mut views = vec![];
    for twin in 0..2 {
        let mut r = Replica::new(ids::init_id());
        let mut sink = ASink::new();
        audit::take_log();
        let t = if twin == 0 {
            deliver_all(&mut r, &order, None, &mut sink, false)
        } else {
            let ord = alt_order(&uni, rng);
            deliver_all(&mut r, &ord, Some(rng), &mut sink, false)
        }
        .map_err(|e| fail("C02:ladder-deliver", format!("ladder delivery failed: {}", err_class(&e))))?;
        r.commit(t, &mut sink).map_err(|e| fail("C02:ladder-commit", format!("ladder commit failed: {}", err_class(&e))))?;
        if audit::take_log().iter().any(|c| c.merge) {
            return Err(fail("C02:merge-evaluated", "a merge command reached call_rule".into()));
        }
        let v = r.view().map_err(|e| fail("tool:view", e))?;
        if v.reachable.len() != order.len() {
            return Err(fail("C08:commit-set", format!("ladder: {} of {} commands committed", v.reachable.len(), order.len())));
        }
        if let Some(m) = check_once(&uni, &v.seq, &v.reachable) {
            return Err(fail("C02:once", format!("ladder of {rungs} rungs: {m}")));
        }
        views.push(v);
    }
    if views[0] != views[1] {
        return Err(fail("C01:diverge", format!("two histories of a {rungs}-rung ladder disagree")));
    }
    Ok((json!({"rungs": rungs, "side": side, "commands": order.len(), "seq_len": views[0].seq.len()}), 0))
}

pub fn run(args: &Args) {
    // Watchdog: a case that does not finish (e.g. a braid that never terminates) ends the engine
    // with status 3; the driver reports the case being executed as failed (engine-crash class).
    let limit = args.opt_u64("case_timeout", 300);
    let started = std::sync::Arc::new(std::sync::atomic::AtomicU64::new(0));
    {
        let started = started.clone();
        let t0 = std::time::Instant::now();
        std::thread::spawn(move || loop {
            std::thread::sleep(std::time::Duration::from_secs(1));
            let s = started.load(std::sync::atomic::Ordering::Relaxed);
            if s > 0 && t0.elapsed().as_secs() > s + limit {
                eprintln!("vh-graph: a case did not finish within {limit} s (non-termination in the code under test)");
                std::process::exit(3);
            }
        });
    }
    let t0 = std::time::Instant::now();
    let mut out = args.out();
    for (i, case) in args.read_input().iter().enumerate() {
        let mut rng = Rng::new(args.seed ^ (i as u64).wrapping_mul(0x9E37_79B9));
        started.store(t0.elapsed().as_secs() + 1, std::sync::atomic::Ordering::Relaxed);
        let is_ladder = case.get("rungs").is_some() || case.get("fan").is_some();
        if is_ladder || i % 256 == 0 {
            out.flush();
        }
        let is_star = case.get("star").is_some();
        match vrt::catch_any(|| if is_star { run_star(case, args, &mut rng) } else if is_ladder { run_ladder(case, args, &mut rng) } else { run_case(case, args, &mut rng) }) {
            Ok(Ok((obs, drift))) => out.emit(json!({"i": i, "ok": true, "step": -1, "obs": obs, "drift": drift})),
            Ok(Err(f)) => {
                if f.key.starts_with("tool:") {
                    vrt::die(&format!("case {i}: {}: {}", f.key, f.msg));
                }
                out.emit(json!({"i": i, "ok": false, "step": 0, "key": f.key, "msg": f.msg, "also": f.also, "obs": Value::Null}))
            }
            Err(p) => out.fail(i, 0, "C03:panic", &format!("runtime panicked: {p}"), Value::Null),
        }
    }
    out.finish();
}
