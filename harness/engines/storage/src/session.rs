//! S2I replay of `SessionOverlay.tla` behaviours into real ephemeral sessions (C14, C13).
//!
//! A `ClientState<ScriptStore, LinearStorageProvider<testing::Manager>>` is driven through
//! `new_graph` / `action` (committed facts) and `session` / `Session::action` /
//! `Session::receive`.  The harness-owned policy (`ScriptPolicy`) executes *programs*: a list of
//! inserts/deletes followed by an optional check "fail (Rejected) if fact x is visible"; an
//! action publishes a command carrying its program, which another session can `receive`.  The
//! session's view is not public, so it is read through the policy itself: a `Probe` action
//! queries the whole small key universe (`facts::observe`: `query` for every key,
//! `query_prefix` for every prefix, ascending order and agreement between the two checked).
//!
//! behaviour: `{"h": [step...], "e": expectation after the last step}`;
//! step = `{"o": "commit"|"session"|"action"|"receive", "s": session, "m": message,
//! "ups": [{n,k,v}], "cn","ck": check key, "r": "ok"|"err"}`;
//! `e` adds `sv` (flat map each session must show), `cv` (committed flat map), `nc`, `no`.
//!
//! Verdicts (`--opt prop=C14|C13`), all on the real code's observable behaviour:
//!  * C14 overlay: a session's view differs from committed facts + its own writes (`e.sv`);
//!  * C14/C13 failed operation: the views of all sessions after a failed action/receive differ
//!    from the views probed just before it (real vs real), or a message stayed in the sink;
//!  * C14 graph untouched: heads, head-set stamp or fact cache changed across a session
//!    operation (real vs real), or the fact cache differs from `e.cv`.
//! With prop=C13 only the failed-operation (revert) class is reported; the rest is drift.
use std::cell::{Cell, RefCell};

use aranya_runtime::{
    storage::linear::{testing::Manager, LinearStorageProvider},
    ActionPlacement, Address, ClientState, CmdId, Command, CommandPlacement, FactPerspective, GraphId,
    MemSpill, MergeIds, NullSink, Perspective, Policy, PolicyError, PolicyId, PolicyStore, Prior,
    Priority, RuntimeBuffers, Session, Sink, Storage, StorageProvider,
};
use vrt::{json, Args, Value, J};

use crate::facts::{flat_from_json, flat_to_json, key_from_json, keys_of, observe, val_bytes, Flat, Key};

#[derive(Clone, Debug)]
struct Prog {
    ups: Vec<(String, Key, u64)>,
    chk: Option<(String, Key)>,
    publish_first: bool,
}

fn prog_to_bytes(p: &Prog) -> Vec<u8> {
    let ups: Vec<Value> = p
        .ups
        .iter()
        .map(|(n, k, v)| json!({"n": n, "k": k.iter().map(|x| String::from_utf8_lossy(x).to_string()).collect::<Vec<_>>(), "v": v}))
        .collect();
    let chk = match &p.chk {
        None => Value::Null,
        Some((n, k)) => json!({"n": n, "k": k.iter().map(|x| String::from_utf8_lossy(x).to_string()).collect::<Vec<_>>()}),
    };
    json!({"ups": ups, "chk": chk}).to_string().into_bytes()
}
fn prog_from_bytes(b: &[u8]) -> Option<Prog> {
    let v: Value = vrt::serde_json::from_slice(b).ok()?;
    let ups = v
        .get("ups")?
        .as_array()?
        .iter()
        .map(|u| (u.s("n").to_string(), key_from_json(u.g("k")), u.u("v")))
        .collect();
    let chk = match v.get("chk")? {
        Value::Null => None,
        c => Some((c.s("n").to_string(), key_from_json(c.g("k")))),
    };
    Some(Prog { ups, chk, publish_first: false })
}
fn prog_from_step(st: &Value, publish_first: bool) -> Prog {
    let ups = st.a("ups").iter().map(|u| (u.s("n").to_string(), key_from_json(u.g("k")), u.u("v"))).collect();
    let chk = if st.s("cn").is_empty() { None } else { Some((st.s("cn").to_string(), key_from_json(st.g("ck")))) };
    Prog { ups, chk, publish_first }
}

struct HCmd {
    id: CmdId,
    parent: Prior<Address>,
    data: Vec<u8>,
}
impl Command for HCmd {
    fn priority(&self) -> Priority {
        match self.parent {
            Prior::None => Priority::Init,
            Prior::Single(_) => Priority::Basic(0),
            Prior::Merge(..) => Priority::Merge,
        }
    }
    fn id(&self) -> CmdId {
        self.id
    }
    fn parent(&self) -> Prior<Address> {
        self.parent
    }
    fn policy(&self) -> Option<&[u8]> {
        match self.parent {
            Prior::None => Some(b"script"),
            _ => None,
        }
    }
    fn bytes(&self) -> &[u8] {
        &self.data
    }
}

enum Act<'a> {
    Run(&'a Prog),
    Probe,
}

struct ScriptPolicy {
    next_id: Cell<u64>,
}
struct ScriptStore {
    policy: ScriptPolicy,
}
impl PolicyStore for ScriptStore {
    type Policy = ScriptPolicy;
    type Effect = ();
    fn add_policy(&mut self, _policy: &[u8]) -> Result<PolicyId, PolicyError> {
        Ok(PolicyId::new(0))
    }
    fn get_policy(&self, _id: PolicyId) -> Result<&Self::Policy, PolicyError> {
        Ok(&self.policy)
    }
}

fn run_writes(p: &Prog, facts: &mut impl FactPerspective) -> Result<(), PolicyError> {
    for (n, k, v) in &p.ups {
        if *v == 0 {
            facts.delete(n.clone(), keys_of(k)).map_err(|_| PolicyError::Write)?;
        } else {
            facts.insert(n.clone(), keys_of(k), val_bytes(*v)).map_err(|_| PolicyError::Write)?;
        }
    }
    Ok(())
}
fn run_check(p: &Prog, facts: &mut impl FactPerspective) -> Result<(), PolicyError> {
    if let Some((n, k)) = &p.chk {
        if facts.query(n, &keys_of(k)).map_err(|_| PolicyError::Read)?.is_some() {
            return Err(PolicyError::Rejected);
        }
    }
    Ok(())
}

impl Policy for ScriptPolicy {
    type Action<'a> = Act<'a>;
    type Effect = ();
    type Command<'a> = HCmd;

    fn serial(&self) -> u32 {
        0
    }
    fn call_rule(
        &self,
        command: &impl Command,
        facts: &mut impl FactPerspective,
        _sink: &mut impl Sink<()>,
        _placement: CommandPlacement,
    ) -> Result<(), PolicyError> {
        let p = prog_from_bytes(command.bytes()).ok_or(PolicyError::Read)?;
        run_writes(&p, facts)?;
        run_check(&p, facts)
    }
    fn call_action(
        &self,
        action: Act<'_>,
        facts: &mut impl Perspective,
        _sink: &mut impl Sink<()>,
        _placement: ActionPlacement,
    ) -> Result<(), PolicyError> {
        match action {
            Act::Probe => {
                let v = observe(facts);
                PROBES.with(|p| p.borrow_mut().push(v));
                Ok(())
            }
            Act::Run(p) => {
                let parent = facts.head_address()?;
                let n = self.next_id.get();
                self.next_id.set(n + 1);
                let mut id = [0u8; 32];
                id[..8].copy_from_slice(&n.to_be_bytes());
                id[31] = 9;
                let cmd = HCmd { id: CmdId::from_bytes(id), parent, data: prog_to_bytes(p) };
                run_writes(p, facts)?;
                if p.publish_first {
                    facts.add_command(&cmd).map_err(|_| PolicyError::Write)?;
                    run_check(p, facts)
                } else {
                    run_check(p, facts)?;
                    facts.add_command(&cmd).map_err(|_| PolicyError::Write)?;
                    Ok(())
                }
            }
        }
    }
    fn merge<'a>(&self, _target: &'a mut [u8], ids: MergeIds) -> Result<HCmd, PolicyError> {
        let (l, r): (Address, Address) = ids.into();
        let mut id = [0u8; 32];
        for (i, b) in id.iter_mut().enumerate() {
            *b = l.id.as_bytes()[i] ^ r.id.as_bytes()[i].rotate_left(1);
        }
        Ok(HCmd { id: CmdId::from_bytes(id), parent: Prior::Merge(l, r), data: vec![] })
    }
}

#[derive(Default)]
struct MsgSink {
    msgs: Vec<Vec<u8>>,
    rollbacks: u32,
}
impl<'b> Sink<&'b [u8]> for MsgSink {
    fn begin(&mut self) {}
    fn consume(&mut self, m: &'b [u8]) {
        self.msgs.push(m.to_vec());
    }
    fn rollback(&mut self) {
        self.msgs.clear();
        self.rollbacks += 1;
    }
    fn commit(&mut self) {}
}

type Prov = LinearStorageProvider<Manager>;
type Seg = <Prov as StorageProvider>::Segment;

struct World {
    client: ClientState<ScriptStore, Prov>,
    graph: Option<GraphId>,
    sessions: Vec<Session<Prov, ScriptStore>>,
    out: Vec<Vec<u8>>,
    buffers: RuntimeBuffers<Seg>,
}

struct Fail {
    step: i64,
    key: String,
    msg: String,
}

/// heads (id, segment, max cut), head-set stamp and whole fact cache of the graph
fn graph_state(w: &mut World) -> Result<(String, Flat), String> {
    let gid = w.graph.ok_or("no graph")?;
    let stg = w.client.provider().get_storage(gid).map_err(|e| format!("{e:?}"))?;
    let heads: Vec<String> = stg.get_heads().map_err(|e| format!("{e:?}"))?.iter().map(|h| format!("{:?}", h)).collect();
    let stamp = format!("{:?}", stg.heads_offset().map_err(|e| format!("{e:?}"))?);
    let fc = stg.fact_cache().map_err(|e| format!("{e:?}"))?;
    let flat = observe(&fc).map_err(|(k, m)| format!("{k}: {m}"))?;
    Ok((format!("{heads:?} {stamp}"), flat))
}

fn probe(w: &mut World, s: usize) -> Result<Flat, (String, String)> {
    let mut ms = MsgSink::default();
    w.client_probe_clear();
    let r = w.sessions[s].action(&w.client, &mut NullSink, &mut ms, Act::Probe);
    if let Err(e) = r {
        return Err(("probe-error".into(), format!("probe action failed: {e:?}")));
    }
    if !ms.msgs.is_empty() {
        return Err(("probe-published".into(), "a probe published a command".into()));
    }
    w.take_probe().unwrap_or_else(|| Err(("probe-missing".into(), "the policy was not called for the probe".into())))
}

impl World {
    fn new() -> Self {
        let store = ScriptStore { policy: ScriptPolicy { next_id: Cell::new(1) } };
        World {
            client: ClientState::new(store, LinearStorageProvider::new(Manager::new())),
            graph: None,
            sessions: vec![],
            out: vec![],
            buffers: RuntimeBuffers::new(),
        }
    }
    // ClientState has no accessor for its policy store, so the policy's probe log is a thread local.
    fn client_probe_clear(&mut self) {
        PROBES.with(|p| p.borrow_mut().clear());
    }
    fn take_probe(&mut self) -> Option<Result<Flat, (String, String)>> {
        PROBES.with(|p| p.borrow_mut().pop())
    }
}

thread_local! {
    static PROBES: RefCell<Vec<Result<Flat, (String, String)>>> = const { RefCell::new(Vec::new()) };
}

enum Out {
    Ok,
    Err(String),
}

fn do_step(w: &mut World, st: &Value, publish_first: bool) -> Result<Out, String> {
    match st.s("o") {
        "commit" => {
            let p = prog_from_step(st, false);
            let r = match w.graph {
                None => w.client.new_graph(b"script", Act::Run(&p), &mut NullSink).map(|g| {
                    w.graph = Some(g);
                }),
                Some(g) => w.client.action(g, &mut NullSink, Act::Run(&p), &mut w.buffers, MemSpill::new),
            };
            r.map_err(|e| format!("{e:?}"))?;
            Ok(Out::Ok)
        }
        "session" => {
            let g = w.graph.ok_or("no graph")?;
            let s = w.client.session(g).map_err(|e| format!("{e:?}"))?;
            w.sessions.push(s);
            Ok(Out::Ok)
        }
        "action" => {
            let p = prog_from_step(st, publish_first);
            let s = st.u("s") as usize - 1;
            let mut ms = MsgSink::default();
            match w.sessions[s].action(&w.client, &mut NullSink, &mut ms, Act::Run(&p)) {
                Ok(()) => {
                    if ms.msgs.len() != 1 {
                        return Err(format!("MSG:a successful action handed {} commands to the message sink", ms.msgs.len()));
                    }
                    w.out.push(ms.msgs.pop().unwrap());
                    Ok(Out::Ok)
                }
                Err(e) => {
                    if !ms.msgs.is_empty() {
                        return Err(format!("MSG:a failed action left {} commands in the message sink", ms.msgs.len()));
                    }
                    Ok(Out::Err(format!("{e:?}")))
                }
            }
        }
        "receive" => {
            let s = st.u("s") as usize - 1;
            let m = st.u("m") as usize - 1;
            let bytes = w.out.get(m).ok_or("no such message")?.clone();
            match w.sessions[s].receive(&w.client, &mut NullSink, &bytes) {
                Ok(()) => Ok(Out::Ok),
                Err(e) => Ok(Out::Err(format!("{e:?}"))),
            }
        }
        o => vrt::die(&format!("unknown session op {o}")),
    }
}

fn run_one(beh: &Value, prop: &str, seed: u64, i: usize) -> Result<u64, Fail> {
    let steps = beh.a("h");
    let n = steps.len();
    let mut w = World::new();
    let mut drift = 0u64;
    let c13 = prop == "C13";
    // report helper: classes that are not the deciding property's business are drift
    let mut report = |class: &str, step: i64, key: String, msg: String| -> Result<u64, Fail> {
        // class: "overlay" | "failed-op" | "graph" | "outcome"
        if c13 && class != "failed-op" {
            Ok(1)
        } else if c13 {
            Err(Fail { step, key: format!("C13:session:{key}"), msg })
        } else {
            Err(Fail { step, key: format!("C14:{key}"), msg })
        }
    };
    for (k, st) in steps.iter().enumerate() {
        let fat = st.get("sv").is_some();
        let last = k + 1 == n || fat; // compare here: last step, or every step of a Fat history
        let e = if fat { st } else { beh.g("e") };
        let o = st.s("o").to_string();
        let sess_op = o == "action" || o == "receive" || o == "session";
        // real state before the (last) step
        let mut before: Option<(Vec<Flat>, (String, Flat))> = None;
        if last && sess_op {
            let mut views = Vec::new();
            for s in 0..w.sessions.len() {
                views.push(probe(&mut w, s).map_err(|(kk, m)| Fail { step: k as i64, key: format!("{prop}:probe:{kk}"), msg: m })?);
            }
            let g = graph_state(&mut w).map_err(|m| Fail { step: k as i64, key: format!("{prop}:graph:error"), msg: m })?;
            before = Some((views, g));
        }
        let mut r = vrt::Rng::new(seed ^ ((i as u64) << 16) ^ k as u64);
        let publish_first = r.chance(1, 2);
        let res = vrt::catch_any(|| do_step(&mut w, st, publish_first))
            .map_err(|p| Fail { step: k as i64, key: format!("{prop}:{o}:panic"), msg: format!("{o} panicked: {p}") })?;
        let outcome = match res {
            Err(m) => {
                if let Some(rest) = m.strip_prefix("MSG:") {
                    drift += report("failed-op", k as i64, format!("{o}:message-sink"), rest.to_string())?;
                    "ok".to_string()
                } else {
                    return Err(Fail { step: k as i64, key: format!("{prop}:{o}:error"), msg: format!("{o} failed: {m}") });
                }
            }
            Ok(Out::Ok) => "ok".to_string(),
            Ok(Out::Err(_)) => "err".to_string(),
        };
        if outcome != st.s("r") {
            // the rule's check saw something else than the overlay semantics prescribe
            drift += report("outcome", k as i64, format!("{o}:outcome"),
                            format!("step {k} {o} ended with `{outcome}`, the overlay semantics give `{}`", st.s("r")))?;
            if !last {
                continue;
            }
        }
        if !last {
            continue;
        }
        // ---- after the last step
        let mut views = Vec::new();
        for s in 0..w.sessions.len() {
            views.push(probe(&mut w, s).map_err(|(kk, m)| Fail { step: k as i64, key: format!("{prop}:probe:{kk}"), msg: m })?);
        }
        let g = graph_state(&mut w).map_err(|m| Fail { step: k as i64, key: format!("{prop}:graph:error"), msg: m })?;
        if let Some((bviews, bg)) = &before {
            if outcome == "err" && (o == "action" || o == "receive") {
                for (s, v) in views.iter().enumerate() {
                    if v != &bviews[s] {
                        drift += report("failed-op", k as i64, format!("{o}:failed-op-changed-view"),
                            format!("failed {o}: session {} showed {} before and shows {} after", s + 1, flat_to_json(&bviews[s]), flat_to_json(v)))?;
                    }
                }
            }
            {
                if bg.0 != g.0 {
                    drift += report("graph", k as i64, format!("{o}:graph-heads-changed"),
                        format!("{o} changed the graph heads/stamp from {} to {}", bg.0, g.0))?;
                }
                if bg.1 != g.1 {
                    drift += report("graph", k as i64, format!("{o}:graph-facts-changed"),
                        format!("{o} changed the graph facts from {} to {}", flat_to_json(&bg.1), flat_to_json(&g.1)))?;
                }
            }
            // sessions other than the acting one keep their view (a new session adds one)
            for (s, v) in bviews.iter().enumerate() {
                if s + 1 != st.u("s") as usize && &views[s] != v {
                    drift += report("overlay", k as i64, format!("{o}:other-session-changed"),
                        format!("{o} on session {} changed the view of session {}", st.u("s"), s + 1))?;
                }
            }
        }
        // against the spec: overlay views, committed facts, message count
        let sv = e.a("sv");
        if sv.len() != views.len() {
            vrt::die("session count differs between spec and engine");
        }
        for (s, want) in sv.iter().enumerate() {
            let want = flat_from_json(want);
            if views[s] != want {
                drift += report("overlay", k as i64, format!("{o}:overlay-view"),
                    format!("session {} shows {}, committed facts overlaid with its writes are {}", s + 1, flat_to_json(&views[s]), flat_to_json(&want)))?;
            }
        }
        let cv = flat_from_json(e.g("cv"));
        if g.1 != cv {
            drift += report("graph", k as i64, format!("{o}:graph-facts"),
                format!("graph facts {} differ from the committed map {}", flat_to_json(&g.1), flat_to_json(&cv)))?;
        }
        if w.out.len() as u64 != e.u("no") {
            drift += report("overlay", k as i64, format!("{o}:published"),
                format!("{} commands published so far, spec {}", w.out.len(), e.u("no")))?;
        }
    }
    Ok(drift)
}

pub fn run(args: &Args) {
    let mut out = args.out();
    let prop = args.opt_str("prop", "C14");
    for (i, beh) in args.read_input().iter().enumerate() {
        match run_one(beh, &prop, args.seed, i) {
            Ok(drift) => out.emit(json!({"i": i, "ok": true, "step": -1, "drift": drift})),
            Err(f) => out.emit(json!({"i": i, "ok": false, "step": f.step, "key": f.key, "msg": f.msg})),
        }
    }
    out.finish();
}
