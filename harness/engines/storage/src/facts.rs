//! S2I replay of `FactStore.tla` behaviours into the real linear storage (C12, C13).
//!
//! Drives `LinearStorageProvider<testing::Manager>` / `LinearStorage` / `LinearPerspective` /
//! `LinearFactPerspective` / `LinearFactIndex` through the public storage traits
//! (`StorageProvider`, `Storage`, `Perspective`, `Revertable`, `Query`, `QueryMut`, `Segment`).
//!
//! behaviour: `{"h": [step...], "e": expectation of the final step, "sv": [flat map of every
//! segment]}`; step = `{"o": op, "n": name, "k": key, "v": value, "s","i": location, "j":
//! checkpoint number, "r": "ok"|"err"}`; with `Fat` histories every step also carries its own
//! expectation (`po,pv,pc,fo,fv,sf,ex,xc,dirty`) and is compared.
//!
//! Abstraction function: for a `Query` object, `query(name, key)` for every key of the small
//! universe (all key sequences of length <= 2 over {"", "a", "b"}, plus one longer key and an
//! unused name) and `query_prefix(name, prefix)` for every such prefix, compared with the flat
//! map of the spec: same facts, ascending key order, no deleted fact.
//!
//! Verdicts (DESIGN §2.2), `--opt prop=C12|C13`:
//!  * C12: a view (perspective, fact perspective, any committed segment's fact index) differs
//!    from the flat map.
//!  * C13: (a) the facts/command count visible after `revert(cp)` differ from what the REAL
//!    perspective showed when `cp` was taken (snapshot taken by the engine — the property's own
//!    predicate, no spec involved); (b) after a revert happened, a later view differs from the
//!    spec's flat map (discarded writes resurfacing).  View differences before any revert are
//!    C12's business and only counted as drift here.
use std::collections::BTreeMap;

use aranya_runtime::{
    storage::linear::{testing::Manager, LinearStorageProvider},
    Address, Checkpoint, CmdId, Command, GraphId, Keys, Location, MaxCut, Perspective, PolicyId,
    Prior, Priority, Query, QueryMut, Revertable, Segment, SegmentIndex, Storage, StorageProvider,
};
use vrt::{json, Args, Value, J};

pub type Key = Vec<Vec<u8>>;
/// flat map: (name, key) -> value
pub type Flat = BTreeMap<(String, Key), u64>;

pub const PARTS: [&str; 3] = ["", "a", "b"];

/// All key sequences of length <= 2 over PARTS, plus one key of length 3.
pub fn universe() -> Vec<Key> {
    let mut u: Vec<Key> = vec![vec![]];
    for a in PARTS {
        u.push(vec![a.as_bytes().to_vec()]);
        for b in PARTS {
            u.push(vec![a.as_bytes().to_vec(), b.as_bytes().to_vec()]);
        }
    }
    u.push(vec![b"a".to_vec(), b"".to_vec(), b"a".to_vec()]);
    u
}
pub const NAMES: [&str; 3] = ["x", "y", "zz"];

pub fn keys_of(k: &Key) -> Keys {
    k.iter().map(|p| p.clone().into_boxed_slice()).collect()
}
pub fn val_bytes(v: u64) -> Box<[u8]> {
    v.to_string().into_bytes().into_boxed_slice()
}
pub fn key_from_json(v: &Value) -> Key {
    v.as_array()
        .unwrap_or_else(|| vrt::die("key is not an array"))
        .iter()
        .map(|p| p.as_str().unwrap_or_else(|| vrt::die("key part not a string")).as_bytes().to_vec())
        .collect()
}
pub fn flat_from_json(v: &Value) -> Flat {
    let mut f = Flat::new();
    for e in v.as_array().unwrap_or_else(|| vrt::die("flat map is not an array")) {
        f.insert((e.s("n").to_string(), key_from_json(e.g("k"))), e.u("v"));
    }
    f
}
pub fn flat_to_json(f: &Flat) -> Value {
    Value::Array(
        f.iter()
            .map(|((n, k), v)| {
                json!({"n": n, "k": k.iter().map(|p| String::from_utf8_lossy(p).to_string()).collect::<Vec<_>>(), "v": v})
            })
            .collect(),
    )
}

/// Read the whole small universe out of a `Query` object.  Returns the facts seen by exact
/// queries, or a description of an inconsistency between `query` and `query_prefix` /
/// ordering / an error.
pub fn observe<Q: Query>(q: &Q) -> Result<Flat, (String, String)> {
    let uni = universe();
    let mut flat = Flat::new();
    for name in NAMES {
        for k in &uni {
            match q.query(name, &keys_of(k)) {
                Err(e) => return Err(("error".into(), format!("query({name},{k:?}) failed: {e:?}"))),
                Ok(None) => {}
                Ok(Some(v)) => {
                    let s = String::from_utf8_lossy(&v).to_string();
                    let n: u64 = s.parse().map_err(|_| ("value".to_string(), format!("query({name},{k:?}) returned foreign value {s:?}")))?;
                    flat.insert((name.to_string(), k.clone()), n);
                }
            }
        }
    }
    // prefix queries must agree with the exact queries: same facts, ascending, no extras
    for name in NAMES {
        for p in &uni {
            let it = match q.query_prefix(name, &keys_of(p)) {
                Err(e) => return Err(("error".into(), format!("query_prefix({name},{p:?}) failed: {e:?}"))),
                Ok(it) => it,
            };
            let mut got: Vec<(Key, u64)> = Vec::new();
            for f in it {
                match f {
                    Err(e) => return Err(("error".into(), format!("query_prefix({name},{p:?}) item failed: {e:?}"))),
                    Ok(f) => {
                        let k: Key = f.key.iter().map(|b| b.to_vec()).collect();
                        let s = String::from_utf8_lossy(&f.value).to_string();
                        let n: u64 = s.parse().map_err(|_| ("value".to_string(), format!("query_prefix({name},{p:?}) returned foreign value {s:?}")))?;
                        got.push((k, n));
                    }
                }
                if got.len() > 1000 {
                    return Err(("prefix-endless".into(), format!("query_prefix({name},{p:?}) does not end")));
                }
            }
            let want: Vec<(Key, u64)> = flat
                .iter()
                .filter(|((n, k), _)| n == name && k.starts_with(p))
                .map(|((_, k), v)| (k.clone(), *v))
                .collect(); // BTreeMap order = ascending key order
            if got != want {
                let mut gs = got.clone();
                gs.sort();
                let kind = if gs == want { "prefix-order" } else { "prefix-set" };
                return Err((kind.into(), format!(
                    "query_prefix({name},{p:?}) returned {got:?} but the exact queries give {want:?} (ascending)")));
            }
        }
    }
    Ok(flat)
}

/// Compare a `Query` object with the expected flat map; `Err((kind, msg))` on a difference.
pub fn check_view<Q: Query>(q: &Q, want: &Flat) -> Result<(), (String, String)> {
    let got = observe(q)?;
    if &got != want {
        let kind = if got.keys().any(|k| !want.contains_key(k)) {
            "absent-fact-visible" // a deleted / never inserted fact is returned
        } else if want.keys().any(|k| !got.contains_key(k)) {
            "fact-missing"
        } else {
            "value"
        };
        return Err((kind.into(), format!("facts visible {}, flat map {}", flat_to_json(&got), flat_to_json(want))));
    }
    Ok(())
}

struct Cmd {
    id: CmdId,
    parent: Prior<Address>,
    init: bool,
    data: Vec<u8>,
}
impl Command for Cmd {
    fn priority(&self) -> Priority {
        match self.parent {
            Prior::None => Priority::Init,
            Prior::Single(_) => Priority::Basic(0),
            Prior::Merge(..) => Priority::Merge,
        }
    }
    fn id(&self) -> CmdId {
        self.id
    }
    fn parent(&self) -> Prior<Address> {
        self.parent
    }
    fn policy(&self) -> Option<&[u8]> {
        if self.init { Some(b"policy") } else { None }
    }
    fn bytes(&self) -> &[u8] {
        &self.data
    }
}

type Prov = LinearStorageProvider<Manager>;
type Persp = <Prov as StorageProvider>::Perspective;
type FPersp = <<Prov as StorageProvider>::Storage as Storage>::FactPerspective;
type FIndex = <<Prov as StorageProvider>::Storage as Storage>::FactIndex;

struct SegInfo {
    index: SegmentIndex,
    first: u64,
    ncmds: u64,
}

struct World {
    prov: Prov,
    graph: Option<GraphId>,
    per: Option<Persp>,
    per_ids: Vec<CmdId>, // ids of the commands added to the open perspective
    fper: Option<FPersp>,
    segs: Vec<SegInfo>,
    cps: Vec<(Checkpoint, Flat, usize, Prior<Address>)>, // real snapshot at checkpoint time
    next_id: u64,
    reverted: bool,
    last_index: Option<FIndex>, // result of the last write_facts
}

fn mkid(n: u64) -> CmdId {
    let mut b = [0u8; 32];
    b[..8].copy_from_slice(&n.to_be_bytes());
    b[31] = 7;
    CmdId::from_bytes(b)
}

struct Fail {
    step: i64,
    key: String,
    msg: String,
}

impl World {
    fn new() -> Self {
        World {
            prov: LinearStorageProvider::new(Manager::new()),
            graph: None,
            per: None,
            per_ids: vec![],
            fper: None,
            segs: vec![],
            cps: vec![],
            next_id: 1,
            reverted: false,
            last_index: None,
        }
    }
    fn loc(&self, s: u64, i: u64) -> Location {
        let g = &self.segs[(s - 1) as usize];
        Location::new(g.index, MaxCut::new(g.first + i - 1))
    }
}

/// Outcome of one step on the real code.
enum StepRes {
    Ok,
    Err(String),
}

fn do_step(w: &mut World, st: &Value) -> Result<StepRes, String> {
    let o = st.s("o");
    let x = || (st.s("n").to_string(), keys_of(&key_from_json(st.g("k"))));
    let e = |e: aranya_runtime::StorageError| format!("{e:?}");
    match o {
        "new_perspective" => {
            w.per = Some(w.prov.new_perspective(PolicyId::new(0)));
            w.per_ids.clear();
            w.cps.clear();
        }
        "insert" => {
            let (n, k) = x();
            w.per.as_mut().ok_or("no perspective")?.insert(n, k, val_bytes(st.u("v"))).map_err(e)?;
        }
        "delete" => {
            let (n, k) = x();
            w.per.as_mut().ok_or("no perspective")?.delete(n, k).map_err(e)?;
        }
        "add_command" => {
            let p = w.per.as_mut().ok_or("no perspective")?;
            let parent = p.head_address().map_err(|b| format!("{b:?}"))?;
            let id = mkid(w.next_id);
            w.next_id += 1;
            let c = Cmd { id, parent, init: matches!(parent, Prior::None), data: vec![1, 2, 3] };
            let n = p.add_command(&c).map_err(e)?;
            w.per_ids.push(id);
            if n != w.per_ids.len() {
                return Err(format!("add_command returned {n}, {} commands were added", w.per_ids.len()));
            }
        }
        "checkpoint" => {
            let p = w.per.as_ref().ok_or("no perspective")?;
            let cp = p.checkpoint();
            let snap = observe(p).map_err(|(k, m)| format!("{k}: {m}"))?;
            let head = p.head_address().map_err(|b| format!("{b:?}"))?;
            let j = st.u("j") as usize;
            w.cps.truncate(j - 1);
            w.cps.push((cp, snap, w.per_ids.len(), head));
        }
        "revert" => {
            let j = st.u("j") as usize;
            let (cp, _, cnt, _) = &w.cps[j - 1];
            let cp = Checkpoint { index: cp.index, pending: cp.pending };
            let cnt = *cnt;
            w.per.as_mut().ok_or("no perspective")?.revert(cp).map_err(e)?;
            w.per_ids.truncate(cnt);
            w.cps.truncate(j);
            w.reverted = true;
        }
        "create" => {
            let p = w.per.take().ok_or("no perspective")?;
            w.cps.clear();
            let n = w.per_ids.len() as u64;
            match w.prov.new_storage(p) {
                Err(err) => return Ok(StepRes::Err(e(err))),
                Ok((gid, _)) => {
                    w.graph = Some(gid);
                }
            }
            // the init segment: find it through the committed head
            let stg = w.prov.get_storage(w.graph.unwrap()).map_err(e)?;
            let head = stg.get_heads().map_err(e)?.iter().next().ok_or("no head after new_storage")?.location();
            let seg = stg.get_segment(head).map_err(e)?;
            w.segs.push(SegInfo { index: seg.index(), first: seg.shortest_max_cut().get(), ncmds: n });
            w.per_ids.clear();
        }
        "write" => {
            let p = w.per.take().ok_or("no perspective")?;
            w.cps.clear();
            let n = w.per_ids.len() as u64;
            w.per_ids.clear();
            let stg = w.prov.get_storage(w.graph.ok_or("no graph")?).map_err(e)?;
            match stg.write(p) {
                Err(err) => return Ok(StepRes::Err(e(err))),
                Ok(seg) => {
                    let last = seg.longest_max_cut().map_err(e)?.get();
                    let first = seg.shortest_max_cut().get();
                    if last - first + 1 != n {
                        return Err(format!("written segment holds {} commands, {n} were added", last - first + 1));
                    }
                    w.segs.push(SegInfo { index: seg.index(), first, ncmds: n });
                }
            }
        }
        "open" => {
            let l = w.loc(st.u("s"), st.u("i"));
            let stg = w.prov.get_storage(w.graph.ok_or("no graph")?).map_err(e)?;
            w.per = Some(stg.get_linear_perspective(l).map_err(e)?);
            w.per_ids.clear();
            w.cps.clear();
        }
        "open_merge" => {
            // left = (s, i); right = (v, j); the braid is the index the last write_facts returned
            let l = w.loc(st.u("s"), st.u("i"));
            let r = w.loc(st.u("v"), st.u("j"));
            let lca = w.loc(1, 1);
            let braid = w.last_index.take().ok_or("no braid index")?;
            let stg = w.prov.get_storage(w.graph.ok_or("no graph")?).map_err(e)?;
            w.per = Some(stg.new_merge_perspective(l, r, lca, PolicyId::new(0), braid).map_err(e)?);
            w.per_ids.clear();
            w.cps.clear();
        }
        "open_facts" => {
            let l = w.loc(st.u("s"), st.u("i"));
            let stg = w.prov.get_storage(w.graph.ok_or("no graph")?).map_err(e)?;
            w.fper = Some(stg.get_fact_perspective(l).map_err(e)?);
        }
        "f_insert" => {
            let (n, k) = x();
            w.fper.as_mut().ok_or("no fact perspective")?.insert(n, k, val_bytes(st.u("v"))).map_err(e)?;
        }
        "f_delete" => {
            let (n, k) = x();
            w.fper.as_mut().ok_or("no fact perspective")?.delete(n, k).map_err(e)?;
        }
        "write_facts" => {
            let f = w.fper.take().ok_or("no fact perspective")?;
            let stg = w.prov.get_storage(w.graph.ok_or("no graph")?).map_err(e)?;
            let ix = stg.write_facts(f).map_err(e)?;
            w.last_index = Some(ix);
        }
        o => vrt::die(&format!("unknown facts op {o}")),
    }
    Ok(StepRes::Ok)
}

/// Compare everything observable with the expectation record `e` (and `sv` if given).
fn compare(w: &mut World, e: &Value, sv: Option<&Value>, prop: &str, step: i64) -> Result<u64, Fail> {
    let mut drift = 0u64;
    let o = e.s("o").to_string();
    let reverted = w.reverted;
    // views before any revert are C12's business when deciding C13
    let view_fail = |wh: &str, kind: &str, msg: String| -> Result<u64, Fail> {
        if prop == "C13" && !reverted {
            Ok(1)
        } else if prop == "C13" {
            Err(Fail { step, key: format!("C13:post-revert:{wh}:{kind}"), msg: format!("after a revert, {wh} after `{o}`: {msg}") })
        } else {
            Err(Fail { step, key: format!("C12:{wh}:{kind}"), msg: format!("{wh} after `{o}`: {msg}") })
        }
    };
    // open graph perspective
    if e.b("po") {
        let want = flat_from_json(e.g("pv"));
        let Some(p) = w.per.as_ref() else {
            vrt::die("spec has an open perspective, engine has none");
        };
        if o == "revert" {
            // C13's own predicate: the real view now vs the real view when the checkpoint was taken
            let j = e.u("j") as usize;
            let (_, snap, cnt, head) = &w.cps[j - 1];
            let now = observe(p).map_err(|(k, m)| Fail { step, key: format!("{prop}:revert:{k}"), msg: m })?;
            let dirty = e.b("dirty");
            let cls = if dirty { "dirty-checkpoint" } else { "inexact" };
            if &now != snap {
                let f = Fail { step, key: format!("C13:revert:{cls}:facts"),
                    msg: format!("facts visible after revert {} differ from those visible when the checkpoint was taken {}",
                                 flat_to_json(&now), flat_to_json(snap)) };
                if prop == "C13" { return Err(f); } else { drift += 1; }
            }
            let idx_now = p.checkpoint().index;
            let head_now = p.head_address().map_err(|b| Fail { step, key: format!("{prop}:revert:error"), msg: format!("{b:?}") })?;
            if idx_now != *cnt || head_now != *head {
                let f = Fail { step, key: format!("C13:revert:{cls}:commands"),
                    msg: format!("command count/head after revert ({idx_now}, {head_now:?}) differ from the checkpoint's ({cnt}, {head:?})") };
                if prop == "C13" { return Err(f); } else { drift += 1; }
            }
            // spec's ghost: what was visible at the checkpoint according to the model
            let ex = flat_from_json(e.g("ex"));
            if ex != want || e.u("xc") != e.u("pc") {
                vrt::die("spec inconsistency: revert expectation differs from the checkpoint ghost");
            }
        }
        if let Err((k, m)) = check_view(p, &want) {
            drift += view_fail("perspective", &k, m)?;
        }
        let pc = w.per.as_ref().unwrap().checkpoint().index as u64;
        if pc != e.u("pc") {
            drift += view_fail("perspective", "command-count", format!("perspective holds {pc} commands, spec {}", e.u("pc")))?;
        }
    }
    if e.b("fo") {
        let want = flat_from_json(e.g("fv"));
        let Some(f) = w.fper.as_ref() else {
            vrt::die("spec has an open fact perspective, engine has none");
        };
        if let Err((k, m)) = check_view(f, &want) {
            drift += view_fail("fact-perspective", &k, m)?;
        }
    }
    if o == "write_facts" {
        let want = flat_from_json(e.g("sf"));
        let r = match w.last_index.as_ref() {
            Some(ix) => check_view(ix, &want),
            None => vrt::die("write_facts expected but no index was written"),
        };
        if let Err((k, m)) = r {
            drift += view_fail("written-index", &k, m)?;
        }
    }
    // committed segments: the fact index at each segment's head
    if let Some(sv) = sv {
        let sv = sv.as_array().unwrap();
        if sv.len() != w.segs.len() {
            vrt::die(&format!("spec has {} segments, engine {}", sv.len(), w.segs.len()));
        }
        for (s, want) in sv.iter().enumerate() {
            let want = flat_from_json(want);
            let l = w.loc(s as u64 + 1, w.segs[s].ncmds);
            let gid = w.graph.unwrap();
            let stg = w.prov.get_storage(gid).map_err(|e| Fail { step, key: format!("{prop}:storage:error"), msg: format!("{e:?}") })?;
            let seg = stg.get_segment(l).map_err(|e| Fail { step, key: format!("{prop}:storage:error"), msg: format!("{e:?}") })?;
            let ix = seg.facts().map_err(|e| Fail { step, key: format!("{prop}:storage:error"), msg: format!("{e:?}") })?;
            if let Err((k, m)) = check_view(&ix, &want) {
                drift += view_fail("segment-index", &k, format!("segment {}: {m}", s + 1))?;
            }
        }
    } else if (o == "write" || o == "create") && e.s("r") == "ok" {
        let want = flat_from_json(e.g("sf"));
        let s = w.segs.len();
        let l = w.loc(s as u64, w.segs[s - 1].ncmds);
        let gid = w.graph.unwrap();
        let stg = w.prov.get_storage(gid).map_err(|e| Fail { step, key: format!("{prop}:storage:error"), msg: format!("{e:?}") })?;
        let seg = stg.get_segment(l).map_err(|e| Fail { step, key: format!("{prop}:storage:error"), msg: format!("{e:?}") })?;
        let ix = seg.facts().map_err(|e| Fail { step, key: format!("{prop}:storage:error"), msg: format!("{e:?}") })?;
        if let Err((k, m)) = check_view(&ix, &want) {
            drift += view_fail("segment-index", &k, format!("segment {s}: {m}"))?;
        }
    }
    Ok(drift)
}

fn run_one(beh: &Value, prop: &str) -> Result<u64, Fail> {
    let steps = beh.a("h");
    let mut w = World::new();
    let mut drift = 0u64;
    let n = steps.len();
    for (k, st) in steps.iter().enumerate() {
        let o = st.s("o").to_string();
        let r = vrt::catch_any(|| do_step(&mut w, st));
        let fat = st.get("po").is_some();
        match r {
            Err(p) => return Err(Fail { step: k as i64, key: format!("{prop}:{o}:panic"), msg: format!("{o} panicked: {p}") }),
            Ok(Err(m)) => {
                return Err(Fail { step: k as i64, key: format!("{prop}:{o}:error"), msg: format!("{o} failed: {m}") });
            }
            Ok(Ok(StepRes::Err(m))) => {
                if st.s("r") != "err" {
                    return Err(Fail { step: k as i64, key: format!("{prop}:{o}:error"), msg: format!("{o} returned an error: {m}") });
                }
            }
            Ok(Ok(StepRes::Ok)) => {
                if st.s("r") != "ok" {
                    return Err(Fail { step: k as i64, key: format!("{prop}:{o}:no-error"), msg: format!("{o} succeeded, the spec expects an error") });
                }
            }
        }
        let last = k + 1 == n;
        let exp = if fat { Some(st) } else if last { beh.get("e") } else { None };
        if let Some(e) = exp {
            let sv = if last { beh.get("sv") } else { None };
            let d = vrt::catch_any(|| compare(&mut w, e, sv, prop, k as i64))
                .map_err(|p| Fail { step: k as i64, key: format!("{prop}:query:panic"), msg: format!("query panicked: {p}") })??;
            drift += d;
        }
    }
    Ok(drift)
}

pub fn run(args: &Args) {
    let mut out = args.out();
    let prop = args.opt_str("prop", "C12");
    for (i, beh) in args.read_input().iter().enumerate() {
        match run_one(beh, &prop) {
            Ok(drift) => out.emit(json!({"i": i, "ok": true, "step": -1, "drift": drift})),
            Err(f) => out.emit(json!({"i": i, "ok": false, "step": f.step, "key": f.key, "msg": f.msg})),
        }
    }
    out.finish();
}
