//! S2I replay of `TraversalQueue.tla` behaviours into `aranya_runtime::TraversalQueue` (C21).
//!
//! behaviour: `{"h": [step, ...]}`, step = `{"o": op, "a","b","c": args, "k","l","n","d": expected
//! return value, "s": expected content after the step (ascending codes mc*100+seg*10+covered),
//! "p": expected peek (location code, 0 = None), "m": history ambiguous so far}`.
//!
//! After every step the engine compares the return value, the three observers
//! (`is_empty`, `all_covered`, `peek`) and the *whole content* of the queue.  The content is
//! obtained through the public API only: the prefix of the behaviour is replayed into a fresh
//! queue which is then emptied with `pop_covered` (this is also the "final pop order" check:
//! the popped locations must be non-increasing).
//!
//! Verdict (DESIGN §2.2): while the history is unambiguous (`m` false) the documented rules
//! allow exactly one outcome, so any difference is a failure of C21.  Once an ambiguous step
//! was passed ("some entry of that segment") a difference is only `drift`; the observed trace
//! is returned and decided by `Trace_TraversalQueue.tla` (I2S).  Independently of the spec's
//! expectations the engine checks on every behaviour: no error/panic, pops come out in
//! non-increasing `Location` order, observers agree with the observed content.
use aranya_runtime::{Location, MaxCut, SegmentIndex, TraversalQueue};
use vrt::{json, Args, Value, J};

#[derive(Clone, Debug, PartialEq, Eq)]
struct Ret {
    k: &'static str,
    l: u64,
    n: u64,
    d: Vec<u64>,
}

fn loc(seg: u64, mc: u64) -> Location {
    Location::new(SegmentIndex::new(seg), MaxCut::new(mc))
}
fn lcode(l: Location) -> u64 {
    l.max_cut.get() * 100 + l.segment.get() * 10
}

fn ok() -> Ret {
    Ret { k: "ok", l: 0, n: 0, d: vec![] }
}

/// Execute one step on the real queue.  `variant` selects between equivalent public entry
/// points (`push(l)` vs `push_covered(l, false)`).
fn apply(q: &mut TraversalQueue, st: &Value, variant: bool) -> Result<Ret, String> {
    let (a, b, c) = (st.u("a"), st.u("b"), st.u("c"));
    let e = |e: aranya_runtime::StorageError| format!("{e:?}");
    Ok(match st.s("o") {
        "push" => {
            if c == 1 {
                q.push_covered(loc(a, b), true).map_err(e)?;
            } else if variant {
                q.push(loc(a, b)).map_err(e)?;
            } else {
                q.push_covered(loc(a, b), false).map_err(e)?;
            }
            ok()
        }
        "push_dup" => {
            q.push_duplicate(loc(a, b)).map_err(e)?;
            ok()
        }
        "pop" => match q.pop().map_err(e)? {
            None => Ret { k: "none", l: 0, n: 0, d: vec![] },
            Some(l) => Ret { k: "loc", l: lcode(l), n: 0, d: vec![] },
        },
        "pop_cov" => match q.pop_covered().map_err(e)? {
            None => Ret { k: "none", l: 0, n: 0, d: vec![] },
            Some((l, cov)) => Ret { k: "loc", l: lcode(l), n: u64::from(cov), d: vec![] },
        },
        "pop_dups" => match q.pop_duplicates().map_err(e)? {
            None => Ret { k: "none", l: 0, n: 0, d: vec![] },
            Some((l, n)) => Ret { k: "loc", l: lcode(l), n: n as u64, d: vec![] },
        },
        "drain_above" => {
            let mut d = Vec::new();
            q.drain_above(MaxCut::new(a), |l| d.push(lcode(l))).map_err(e)?;
            d.sort_unstable();
            Ret { k: "drained", l: 0, n: 0, d }
        }
        "cover" => {
            q.cover_up_to(SegmentIndex::new(a), MaxCut::new(b), MaxCut::new(c)).map_err(e)?;
            ok()
        }
        "drain_all" => {
            let mut d = Vec::new();
            q.drain_all(|l| d.push(lcode(l)));
            d.sort_unstable();
            Ret { k: "drained", l: 0, n: 0, d }
        }
        "clear" => {
            q.clear();
            ok()
        }
        o => vrt::die(&format!("unknown queue op {o}")),
    })
}

/// Empty the queue with `pop_covered`: (ascending content codes, pop order was non-increasing).
fn drain(q: &mut TraversalQueue) -> Result<(Vec<u64>, bool), String> {
    let mut codes = Vec::new();
    let mut sorted = true;
    let mut prev: Option<Location> = None;
    while let Some((l, cov)) = q.pop_covered().map_err(|e| format!("{e:?}"))? {
        if let Some(p) = prev {
            if l > p {
                sorted = false;
            }
        }
        prev = Some(l);
        codes.push(lcode(l) + u64::from(cov));
        if codes.len() > 10_000 {
            return Err("pop_covered does not terminate".into());
        }
    }
    if !q.is_empty() {
        return Err("queue not empty after pop_covered returned None".into());
    }
    codes.sort_unstable();
    Ok((codes, sorted))
}

fn exp_ret(st: &Value) -> (String, u64, u64, Vec<u64>) {
    (
        st.s("k").to_string(),
        st.u("l"),
        st.u("n"),
        st.a("d").iter().map(|v| v.as_u64().unwrap_or(0)).collect(),
    )
}

fn variant(seed: u64, i: usize, k: usize) -> bool {
    let mut r = vrt::Rng::new(seed ^ ((i as u64) << 20) ^ k as u64);
    r.chance(1, 2)
}

pub fn run(args: &Args) {
    let mut out = args.out();
    let want_trace = args.opt_bool("trace");
    for (i, beh) in args.read_input().iter().enumerate() {
        let steps = beh.a("h");
        let mut main = TraversalQueue::new();
        let mut trace: Vec<Value> = Vec::new();
        let mut drift = 0u64;
        let mut fail: Option<(i64, String, String)> = None;
        for (k, st) in steps.iter().enumerate() {
            let op = st.s("o").to_string();
            let amb = st.b("m");
            let r = vrt::catch_any(|| apply(&mut main, st, variant(args.seed, i, k)));
            let ret = match r {
                Err(p) => {
                    fail = Some((k as i64, format!("C21:{op}:panic"), format!("{op} panicked: {p}")));
                    break;
                }
                Ok(Err(e)) => {
                    fail = Some((k as i64, format!("C21:{op}:error"), format!("{op} returned an error: {e}")));
                    break;
                }
                Ok(Ok(r)) => r,
            };
            // observers on the live queue
            let (o_empty, o_allcov, o_peek) =
                (main.is_empty(), main.all_covered(), main.peek().map(|l| lcode(*l)).unwrap_or(0));
            // whole content through the public API: replay the prefix into a fresh queue, pop it empty
            let content = vrt::catch_any(|| {
                let mut f = TraversalQueue::new();
                for (j, s2) in steps[..=k].iter().enumerate() {
                    apply(&mut f, s2, variant(args.seed, i, j))?;
                }
                drain(&mut f)
            });
            let (content, sorted) = match content {
                Err(p) => {
                    fail = Some((k as i64, "C21:pop_cov:panic".into(), format!("emptying the queue panicked: {p}")));
                    break;
                }
                Ok(Err(e)) => {
                    fail = Some((k as i64, "C21:pop_cov:error".into(), format!("emptying the queue failed: {e}")));
                    break;
                }
                Ok(Ok(x)) => x,
            };
            trace.push(json!({"o": op, "a": st.u("a"), "b": st.u("b"), "c": st.u("c"),
                              "k": ret.k, "l": ret.l, "n": ret.n, "d": ret.d, "s": content}));
            // spec-independent predicates of C21
            if !sorted {
                fail = Some((k as i64, "C21:pop:not-max".into(),
                             format!("after step {k} ({op}) successive pops were not in non-increasing Location order")));
                break;
            }
            let c_empty = content.is_empty();
            let c_allcov = content.iter().all(|c| c % 10 == 1);
            let c_peek = content.iter().map(|c| c - c % 10).max().unwrap_or(0);
            if o_empty != c_empty || o_allcov != c_allcov || o_peek != c_peek {
                fail = Some((k as i64, format!("C21:{op}:observer"),
                             format!("after step {k} ({op}) is_empty/all_covered/peek = {o_empty}/{o_allcov}/{o_peek} but the content is {content:?}")));
                break;
            }
            // comparison with the spec
            let (ek, el, en, ed) = exp_ret(st);
            let es: Vec<u64> = st.a("s").iter().map(|v| v.as_u64().unwrap_or(0)).collect();
            let ret_ok = ret.k == ek && ret.l == el && ret.n == en && ret.d == ed;
            let st_ok = content == es && o_peek == st.u("p");
            if !(ret_ok && st_ok) {
                if amb {
                    drift += 1; // decided by trace validation against the abstract rules
                } else {
                    let what = if ret_ok { "state" } else { "ret" };
                    fail = Some((k as i64, format!("C21:{op}:{what}"),
                        format!("step {k} {op}({},{},{}): returned {:?}, content {:?}; the documented rules give ({ek},{el},{en},{ed:?}), content {es:?}",
                                st.u("a"), st.u("b"), st.u("c"), ret, content)));
                    break;
                }
            }
        }
        // final pop order on the live queue
        if fail.is_none() {
            match vrt::catch_any(|| drain(&mut main)) {
                Ok(Ok((codes, sorted))) => {
                    let lastc: Vec<u64> = trace.last().map(|t| t["s"].as_array().unwrap().iter().map(|v| v.as_u64().unwrap()).collect()).unwrap_or_default();
                    if !sorted {
                        fail = Some((steps.len() as i64, "C21:pop:not-max".into(), "final pops not in non-increasing Location order".into()));
                    } else if codes != lastc {
                        fail = Some((steps.len() as i64, "C21:pop:content".into(),
                                     format!("final pops returned {codes:?}, a replay of the same history {lastc:?}")));
                    }
                }
                Ok(Err(e)) => fail = Some((steps.len() as i64, "C21:pop_cov:error".into(), e)),
                Err(p) => fail = Some((steps.len() as i64, "C21:pop_cov:panic".into(), p)),
            }
        }
        let mut res = match fail {
            None => json!({"i": i, "ok": true, "step": -1, "drift": drift}),
            Some((step, key, msg)) => json!({"i": i, "ok": false, "step": step, "key": key, "msg": msg, "drift": drift}),
        };
        if drift > 0 || want_trace {
            res["trace"] = Value::Array(trace);
        }
        out.emit(res);
    }
    out.finish();
}
