//! `vh-storage` — storage-layer engines (DESIGN §3.2): TraversalQueue (C21), FactStore (C12/C13),
//! session overlay (C13/C14).
mod facts;
mod queue;
mod session;

fn main() {
    let args = vrt::Args::parse();
    match args.sub.as_str() {
        "queue" => queue::run(&args),
        "facts" => facts::run(&args),
        "session" => session::run(&args),
        s => vrt::die(&format!("unknown subcommand {s}")),
    }
}
