//! C25 — replay of `VmBytecode.tla` behaviours into the real `Machine` / `RunState`.
//!
//! case (built by checks/C25.py from a TLC REPLAY line, indices resolved through the spec's
//! tables):
//! `{"init":[value..], "prog":[cell|null ..], "len":L, "ctx":"unset|action|..", "io":"unset|ok|..",
//!   "budget":B, "exp":{"st":..,"s":[value..],"pc":n,"cx":..,"loc":[[name,value]..],"log":[..],"n":k}}`
//!
//! The world (struct/fact/enum definitions, global, context names) is the one described at the
//! top of the spec.  The engine
//!   1. executes `RunState::step` at most B times against a stub `MachineIO` whose results are
//!      the case's I/O class, and compares status, value stack, pc, context, locals and the I/O
//!      log with the spec's prediction (difference = drift, never a violation);
//!   2. executes the same program through `RunState::run` (resuming after `Yield`) when the
//!      spec says it terminates, or keeps stepping far beyond the budget when it does not;
//! everything under `catch_any`: the only thing that fails the case is a panic (C25).
use std::{cell::RefCell, collections::BTreeMap, num::NonZeroUsize};

use aranya_crypto::{policy::CmdId, BaseId, DeviceId};
use aranya_policy_module::{CodeMap, Meta, ModuleData, ModuleV0};
use aranya_policy_vm::{
    ast::Span, ActionContext, CommandContext, EnumDef, ExitReason, FactDef, FactKey, FactKeyList,
    FactValue, FactValueList, Field, HashableValue, Identifier, Instruction, KVPair, Label,
    LabelType, Machine, MachineError, MachineErrorType, MachineIO, MachineIOError, MachineStack,
    MachineStatus, Module, OpenContext, PolicyContext, RunState, SealContext, Stack, Struct,
    StructDef, Target, TypeKind, Value, WrapType,
};
use vrt::{die, json, Args, Value as J, J as _};

use crate::val::{self, ident, BytesTags};

const BIG: i64 = 1_000_000;
const LONG_RUN: usize = 1500;

// ------------------------------------------------------------------------------------------
// stub MachineIO

pub struct StubIo {
    cls: String,
    pub log: RefCell<Vec<String>>,
}

impl StubIo {
    pub fn new(cls: &str) -> Self {
        StubIo { cls: cls.to_string(), log: RefCell::new(Vec::new()) }
    }
    fn ev(&self, e: &str) {
        self.log.borrow_mut().push(e.to_string());
    }
}

fn stored() -> (FactKeyList, FactValueList) {
    (
        vec![FactKey::new(ident("k"), HashableValue::Int(1))],
        vec![FactValue::new(ident("v"), Value::Int(2))],
    )
}

impl MachineIO<MachineStack> for StubIo {
    type QueryIterator = std::vec::IntoIter<Result<(FactKeyList, FactValueList), MachineIOError>>;

    fn fact_insert(
        &mut self,
        _name: Identifier,
        key: impl IntoIterator<Item = FactKey>,
        value: impl IntoIterator<Item = FactValue>,
    ) -> Result<(), MachineIOError> {
        let _ = (key.into_iter().count(), value.into_iter().count());
        self.ev("insert");
        if self.cls == "error" { Err(MachineIOError::Internal) } else { Ok(()) }
    }

    fn fact_delete(
        &mut self,
        _name: Identifier,
        key: impl IntoIterator<Item = FactKey>,
    ) -> Result<(), MachineIOError> {
        let _ = key.into_iter().count();
        self.ev("delete");
        if self.cls == "error" { Err(MachineIOError::Internal) } else { Ok(()) }
    }

    fn fact_query(
        &self,
        _name: Identifier,
        key: impl IntoIterator<Item = FactKey>,
    ) -> Result<Self::QueryIterator, MachineIOError> {
        let _ = key.into_iter().count();
        self.ev("query");
        match self.cls.as_str() {
            "error" => Err(MachineIOError::Internal),
            "ok" => Ok(vec![Ok(stored())].into_iter()),
            "itemerr" => Ok(vec![Err(MachineIOError::Internal)].into_iter()),
            _ => Ok(vec![].into_iter()),
        }
    }

    fn effect(
        &mut self,
        _name: Identifier,
        fields: impl IntoIterator<Item = KVPair>,
        _command: CmdId,
        recalled: bool,
    ) {
        let _ = fields.into_iter().count();
        self.ev(if recalled { "effect-recalled" } else { "effect" });
    }

    fn call(
        &self,
        module: usize,
        procedure: usize,
        stack: &mut MachineStack,
        _ctx: &CommandContext,
    ) -> Result<(), MachineError> {
        self.ev("call");
        if module != 0 {
            return Err(MachineError::new(MachineErrorType::FfiModuleNotDefined(module)));
        }
        match procedure {
            0 => stack.push_value(Value::Int(5)).map_err(MachineError::new),
            1 => stack.pop_value().map(|_| ()).map_err(MachineError::new),
            _ => Err(MachineError::new(MachineErrorType::Unknown("stub ffi failure".into()))),
        }
    }
}

// ------------------------------------------------------------------------------------------
// the world

fn field(name: &str, ty: TypeKind) -> Field {
    Field { name: ident(name), ty }
}

pub fn world_defs(m: &mut Machine) {
    m.struct_defs.insert(StructDef {
        name: ident("S"),
        items: vec![field("a", TypeKind::Int), field("b", TypeKind::Bool)],
    });
    m.struct_defs.insert(StructDef { name: ident("T"), items: vec![field("a", TypeKind::Int)] });
    m.fact_defs.insert(FactDef {
        name: ident("F"),
        key: vec![field("k", TypeKind::Int)],
        value: vec![field("v", TypeKind::Int)],
        immutable: false,
    });
    m.enum_defs.insert(EnumDef {
        name: ident("E"),
        variants: vec![(ident("A"), 0), (ident("B"), 1)],
    });
    m.globals.insert(ident("g"), aranya_policy_vm::ConstValue::Int(7));
}

pub fn context(kind: &str) -> CommandContext {
    let pc = || PolicyContext {
        name: ident("S"),
        id: CmdId::default(),
        author: DeviceId::default(),
        version: BaseId::default(),
    };
    match kind {
        "seal" => CommandContext::Seal(SealContext { name: ident("S"), head_id: CmdId::default() }),
        "open" => CommandContext::Open(OpenContext { name: ident("S") }),
        "policy" => CommandContext::Policy(pc()),
        "recall" => CommandContext::Recall(pc()),
        // "unset": the program never consults the context
        _ => CommandContext::Action(ActionContext { name: ident("act"), head_id: CmdId::default() }),
    }
}

fn ctx_kind(c: &CommandContext) -> &'static str {
    match c {
        CommandContext::Action(_) => "action",
        CommandContext::Seal(_) => "seal",
        CommandContext::Open(_) => "open",
        CommandContext::Policy(_) => "policy",
        CommandContext::Recall(_) => "recall",
    }
}

fn target(t: &str, addr: usize, len: usize) -> Target {
    match t {
        "t0" => Target::Resolved(0),
        "next" => Target::Resolved(addr + 1),
        "skip" => Target::Resolved(addr + 2),
        "end" => Target::Resolved(len),
        "max" => Target::Resolved(usize::MAX),
        "unres" => Target::Unresolved(Label::new_temp(ident("nowhere"))),
        _ => die(&format!("unknown target class {t}")),
    }
}

fn wrap(w: &str) -> WrapType {
    match w {
        "ok" => WrapType::Ok,
        "err" => WrapType::Err,
        "some" => WrapType::Some,
        _ => die("wrap type"),
    }
}

fn count(v: &J) -> NonZeroUsize {
    let n = v.as_i64().unwrap_or_else(|| die("count"));
    NonZeroUsize::new(if n >= BIG { usize::MAX } else { n as usize }).unwrap_or_else(|| die("zero count"))
}

/// Instruction cell -> real instruction at address `addr` of a program of length `len`.
pub fn instruction(c: &J, addr: usize, len: usize) -> Instruction {
    let op = c[0].as_str().unwrap_or_else(|| die("cell opcode"));
    let s = |i: usize| c[i].as_str().unwrap_or_else(|| die(&format!("cell operand {c}")));
    match op {
        "Const" => Instruction::Const(val::to_const(&c[1])),
        "Identifier" => Instruction::Identifier(ident(s(1))),
        "Def" => Instruction::Def(ident(s(1))),
        "Get" => Instruction::Get(ident(s(1))),
        "Dup" => Instruction::Dup,
        "Pop" => Instruction::Pop,
        "Block" => Instruction::Block,
        "End" => Instruction::End,
        "Jump" => Instruction::Jump(target(s(1), addr, len)),
        "Branch" => Instruction::Branch(target(s(1), addr, len)),
        "Call" => Instruction::Call(target(s(1), addr, len)),
        "Recall" => Instruction::Recall(target(s(1), addr, len)),
        "ExtCall" => Instruction::ExtCall(
            c[1].as_u64().unwrap_or_else(|| die("extcall")) as usize,
            c[2].as_u64().unwrap_or_else(|| die("extcall")) as usize,
        ),
        "Return" => Instruction::Return,
        "Exit" => Instruction::Exit(match s(1) {
            "normal" => ExitReason::Normal,
            "yield" => ExitReason::Yield,
            "check" => ExitReason::Check,
            "panic" => ExitReason::Panic,
            _ => die("exit reason"),
        }),
        "Add" => Instruction::Add,
        "Sub" => Instruction::Sub,
        "SaturatingAdd" => Instruction::SaturatingAdd,
        "SaturatingSub" => Instruction::SaturatingSub,
        "Not" => Instruction::Not,
        "Gt" => Instruction::Gt,
        "Lt" => Instruction::Lt,
        "Eq" => Instruction::Eq,
        "FactNew" => Instruction::FactNew(ident(s(1))),
        "FactKeySet" => Instruction::FactKeySet(ident(s(1))),
        "FactValueSet" => Instruction::FactValueSet(ident(s(1))),
        "StructNew" => Instruction::StructNew(ident(s(1))),
        "StructSet" => Instruction::StructSet(ident(s(1))),
        "StructGet" => Instruction::StructGet(ident(s(1))),
        "MStructSet" => Instruction::MStructSet(count(&c[1])),
        "MStructGet" => Instruction::MStructGet(count(&c[1])),
        "Cast" => Instruction::Cast(ident(s(1))),
        "Wrap" => Instruction::Wrap(wrap(s(1))),
        "Is" => Instruction::Is(wrap(s(1))),
        "Unwrap" => Instruction::Unwrap(wrap(s(1))),
        "Publish" => Instruction::Publish,
        "Create" => Instruction::Create,
        "Delete" => Instruction::Delete,
        "Update" => Instruction::Update,
        "Emit" => Instruction::Emit,
        "Query" => Instruction::Query,
        "FactCount" => Instruction::FactCount(val::conc_int(c[1].as_i64().unwrap_or_else(|| die("limit")))),
        "QueryStart" => Instruction::QueryStart,
        "QueryNext" => Instruction::QueryNext(ident(s(1))),
        "Serialize" => Instruction::Serialize,
        "Deserialize" => Instruction::Deserialize,
        "SaveSP" => Instruction::SaveSP,
        "RestoreSP" => Instruction::RestoreSP,
        "Meta" => Instruction::Meta(if s(1) == "ffi" {
            Meta::FFI(ident("mod"), ident("proc"))
        } else {
            Meta::Finish(true)
        }),
        "Next" => Instruction::Next,
        "Last" => Instruction::Last,
        _ => die(&format!("unknown opcode {op}")),
    }
}

fn opname(i: &Instruction) -> String {
    let d = format!("{i:?}");
    d.split(|c: char| !c.is_alphanumeric()).next().unwrap_or("?").to_string()
}

pub fn err_kind(e: &MachineErrorType) -> String {
    let d = format!("{e:?}");
    d.split(|c: char| !c.is_alphanumeric()).next().unwrap_or("?").to_string()
}

fn s_full() -> Struct {
    Struct::new(ident("S"), [(ident("a"), Value::Int(1)), (ident("b"), Value::Bool(true))])
}

// ------------------------------------------------------------------------------------------

struct Observed {
    st: String,
    stack: Vec<J>,
    pc: i64,
    cx: &'static str,
    loc: BTreeMap<String, J>,
    log: Vec<String>,
    steps: usize,
}

fn abs_pc(pc: usize) -> i64 {
    if pc == usize::MAX { BIG } else { pc as i64 }
}

/// Phase 1: step-wise execution with the spec's budget.  Returns the observation, or the
/// opcode that panicked.
fn run_steps(
    machine: &Machine,
    init: &[Value],
    ctx: &str,
    io_cls: &str,
    budget: usize,
    long: usize,
    bt: &BytesTags,
) -> Result<Observed, (String, String)> {
    let mut io = StubIo::new(io_cls);
    let mut rs: RunState<'_, StubIo> = machine.create_run_state(&mut io, context(ctx));
    for v in init {
        rs.stack.push_value(v.clone()).unwrap_or_else(|_| die("initial stack too deep"));
    }
    let mut st = String::from("budget");
    let mut steps = 0usize;
    let mut obs: Option<Observed> = None;
    let snapshot = |rs: &RunState<'_, StubIo>, st: &str, steps: usize| Observed {
        st: st.to_string(),
        stack: rs.stack.as_slice().iter().map(|v| val::abs_value(v, bt)).collect(),
        pc: abs_pc(rs.pc()),
        cx: ctx_kind(rs.get_context()),
        loc: rs.scope().locals().map(|(k, v)| (k.to_string(), val::abs_value(v, bt))).collect(),
        log: rs.io.log.borrow().clone(),
        steps,
    };
    while steps < budget + long {
        if steps == budget && obs.is_none() {
            // the spec's cut-off point: remember the state, keep going for panics only
            obs = Some(snapshot(&rs, "budget", steps));
        }
        let at = machine.progmem.get(rs.pc()).map(opname).unwrap_or_else(|| "oob".into());
        let r = vrt::catch_any(|| rs.step());
        steps += 1;
        match r {
            Err(p) => return Err((at, p)),
            Ok(Ok(MachineStatus::Executing)) => {}
            Ok(Ok(MachineStatus::Exited(ExitReason::Yield))) => rs.io.ev("yield"),
            Ok(Ok(MachineStatus::Exited(r))) => {
                st = format!("exit:{r}");
                break;
            }
            Ok(Err(e)) => {
                st = format!("err:{}", err_kind(&e.err_type));
                // Display of the error is part of what a host does with it
                if let Err(p) = vrt::catch_any(|| e.to_string()) {
                    return Err((format!("{at}:display"), p));
                }
                break;
            }
        }
    }
    Ok(obs.unwrap_or_else(|| snapshot(&rs, &st, steps)))
}

/// Phase 2: the same program through `RunState::run`, resumed after every Yield.
fn run_api(
    machine: &Machine,
    init: &[Value],
    ctx: &str,
    io_cls: &str,
    resumes: usize,
) -> Result<String, (String, String)> {
    let mut io = StubIo::new(io_cls);
    let mut rs: RunState<'_, StubIo> = machine.create_run_state(&mut io, context(ctx));
    for v in init {
        rs.stack.push_value(v.clone()).unwrap_or_else(|_| die("initial stack too deep"));
    }
    for _ in 0..=resumes {
        match vrt::catch_any(|| rs.run()) {
            Err(p) => {
                let at = machine.progmem.get(rs.pc()).map(opname).unwrap_or_else(|| "oob".into());
                return Err((at, p));
            }
            Ok(Ok(ExitReason::Yield)) => continue,
            Ok(Ok(r)) => return Ok(format!("exit:{r}")),
            Ok(Err(e)) => return Ok(format!("err:{}", err_kind(&e.err_type))),
        }
    }
    Ok("budget".into())
}

pub fn build_machine(case: &J) -> Machine {
    let len = case.u("len") as usize;
    let prog = case.a("prog");
    let instrs: Vec<Instruction> = (0..len)
        .map(|a| match prog.get(a) {
            Some(c) if !c.is_null() => instruction(c, a, len),
            // never reached within the budget; reachable only in the long panic-hunting run
            _ => Instruction::Exit(ExitReason::Normal),
        })
        .collect();
    let mut m = Machine::new(instrs);
    world_defs(&mut m);
    m
}

pub fn run(args: &Args) {
    let mut out = args.out();
    let long = args.opt_u64("long", LONG_RUN as u64) as usize;
    // the real serialization of the spec's SFull stands for bytes "good"
    let bt = {
        let mut m = Machine::new([]);
        world_defs(&mut m);
        BytesTags { good: m.serialize_struct(&s_full()).unwrap_or_else(|_| die("cannot serialize SFull")) }
    };
    for (i, case) in args.read_input().iter().enumerate() {
        let machine = build_machine(case);
        let init: Vec<Value> = case.a("init").iter().map(|v| val::to_value(v, &bt)).collect();
        let ctx = case.s("ctx");
        let io_cls = case.s("io");
        let budget = case.u("budget") as usize;
        let exp = case.g("exp");
        let exp_st = exp.s("st");

        let o = match run_steps(&machine, &init, ctx, io_cls, budget, long, &bt) {
            Err((at, p)) => {
                out.fail(i, 0, &format!("C25:panic:{at}"),
                    &format!("RunState::step panicked at instruction {at}: {p}"),
                    json!({"panic": p, "at": at, "phase": "step"}));
                continue;
            }
            Ok(o) => o,
        };
        // phase 2
        let api = if exp_st != "budget" {
            match run_api(&machine, &init, ctx, io_cls, budget) {
                Err((at, p)) => {
                    out.fail(i, 0, &format!("C25:panic:{at}"),
                        &format!("RunState::run panicked at instruction {at}: {p}"),
                        json!({"panic": p, "at": at, "phase": "run"}));
                    continue;
                }
                Ok(s) => s,
            }
        } else {
            "budget".to_string()
        };

        // comparison with the spec's prediction: drift only
        let mut diffs: Vec<String> = Vec::new();
        if o.st != exp_st {
            diffs.push(format!("status {} != {}", o.st, exp_st));
        }
        if api != exp_st {
            diffs.push(format!("run() status {} != {}", api, exp_st));
        }
        let exp_stack: Vec<J> = exp.a("s").iter().map(val::normalise).collect();
        if o.stack != exp_stack {
            diffs.push("stack".into());
        }
        if o.pc != exp.i("pc") {
            diffs.push(format!("pc {} != {}", o.pc, exp.i("pc")));
        }
        if exp.s("cx") != "unset" && o.cx != exp.s("cx") {
            diffs.push(format!("ctx {} != {}", o.cx, exp.s("cx")));
        }
        let exp_loc: BTreeMap<String, J> = exp
            .a("loc")
            .iter()
            .map(|p| (p[0].as_str().unwrap_or("?").to_string(), val::normalise(&p[1])))
            .collect();
        if o.loc != exp_loc {
            diffs.push("locals".into());
        }
        let exp_log: Vec<String> =
            exp.a("log").iter().map(|x| x.as_str().unwrap_or("?").to_string()).collect();
        if o.log != exp_log {
            diffs.push("io-log".into());
        }
        if exp_st != "budget" && o.steps as u64 != exp.u("n") {
            diffs.push(format!("steps {} != {}", o.steps, exp.u("n")));
        }
        let obs = json!({"st": o.st, "run": api, "s": o.stack, "pc": o.pc, "cx": o.cx,
                         "loc": o.loc, "log": o.log, "n": o.steps, "diff": diffs});
        if args.opt_bool("strict") && !diffs.is_empty() {
            // binding self-test mode: a disagreement with the spec is reported as a failure
            out.fail(i, 0, "C25:selftest-mismatch", &diffs.join("; "), obs);
        } else {
            out.emit(json!({"i": i, "ok": true, "step": -1, "obs": obs,
                            "drift": u64::from(!diffs.is_empty())}));
        }
    }
    out.finish();
}

// ------------------------------------------------------------------------------------------
// hand-built / corrupted modules through Machine::from_module

fn codemap(class: &str) -> Option<CodeMap> {
    // text is 10 bytes, the 'é' occupies bytes 4..6
    let text = "abc\né fgh";
    let span = match class {
        "none" => return None,
        "ok" => Span::new(0, 3),
        "empty-at-end" => Span::new(text.len(), text.len()),
        "whole" => Span::new(0, text.len()),
        "oob" => Span::new(4, 400),
        "nonboundary" => Span::new(5, 7),
        "last-char" => Span::new(text.len() - 1, text.len()),
        "huge" => Span::new(usize::MAX - 1, usize::MAX),
        _ => die(&format!("unknown codemap class {class}")),
    };
    let mut cm = CodeMap::new(text);
    cm.map_instruction(0, span).unwrap_or_else(|_| die("map_instruction"));
    Some(cm)
}

/// case: `{"prog":[cell..], "len":L, "codemap":class, "labels":class, "defs":class, "entry":class,
///         "ctx":.., "io":.., "budget":B, "exp": EntryOutcome, "base_outcome": status}` — a cell
/// of `VmBytecode!ModCells` around a terminating program of the first dimension.  The decision
/// is again "no panic"; the entry-phase outcome is compared with the spec (drift).
pub fn run_module(args: &Args) {
    let mut out = args.out();
    let bt = {
        let mut m = Machine::new([]);
        world_defs(&mut m);
        BytesTags { good: m.serialize_struct(&s_full()).unwrap_or_else(|_| die("cannot serialize SFull")) }
    };
    for (i, case) in args.read_input().iter().enumerate() {
        let base = build_machine(case);
        let len = case.u("len") as usize;
        let labels_cls = case.s("labels");
        let defs_cls = case.s("defs");
        let entry = case.s("entry");
        let budget = case.u("budget") as usize;
        let r = vrt::catch_any(|| {
            let mut labels = BTreeMap::new();
            let addr = match labels_cls {
                "zero" => Some(0usize),
                "end" => Some(len),
                "max" => Some(usize::MAX),
                _ => None, // "missing"
            };
            if let Some(a) = addr {
                for lt in [LabelType::Action, LabelType::CommandPolicy, LabelType::CommandRecall,
                           LabelType::CommandSeal, LabelType::CommandOpen, LabelType::Function] {
                    labels.insert(Label::new(ident(if lt == LabelType::Action { "act" } else { "S" }), lt), a);
                }
            }
            let mut struct_defs: Vec<StructDef> = base.struct_defs.iter().cloned().collect();
            let mut enum_defs: Vec<EnumDef> = base.enum_defs.iter().cloned().collect();
            let fact_defs: Vec<FactDef> = base.fact_defs.iter().cloned().collect();
            let mut action_defs = vec![aranya_policy_vm::ActionDef {
                name: ident("act"),
                persistence: aranya_policy_vm::Persistence::Persistent,
                params: vec![field("n", TypeKind::Int)],
                result_type: TypeKind::Unit,
            }];
            let mut command_defs = vec![aranya_policy_vm::CommandDef {
                name: ident("S"),
                persistence: aranya_policy_vm::Persistence::Persistent,
                attributes: vec![],
                fields: vec![field("a", TypeKind::Int), field("b", TypeKind::Bool)],
            }];
            match defs_cls {
                "ok" => {}
                "dup" => {
                    // duplicate names with different shapes: the later one wins in AutoMap
                    struct_defs.push(StructDef { name: ident("S"), items: vec![] });
                    enum_defs.push(EnumDef { name: ident("E"), variants: vec![] });
                    action_defs.push(action_defs[0].clone());
                    command_defs.push(command_defs[0].clone());
                }
                "none" => {
                    struct_defs.clear();
                    enum_defs.clear();
                    action_defs.clear();
                    command_defs.clear();
                }
                "dangling" => {
                    // field types naming structs/enums that do not exist
                    struct_defs.push(StructDef {
                        name: ident("S"),
                        items: vec![field("a", TypeKind::Struct(ident("Nope"))),
                                    field("b", TypeKind::Enum(ident("Nope")))],
                    });
                }
                "never" => {
                    struct_defs.push(StructDef {
                        name: ident("S"),
                        items: vec![field("a", TypeKind::Never),
                                    field("b", TypeKind::Optional(Box::new(TypeKind::Never)))],
                    });
                }
                "recursive" => {
                    // a struct that contains itself (directly and through an option): only a
                    // hand-built module can say this, the compiler rejects cyclic definitions
                    struct_defs.push(StructDef {
                        name: ident("S"),
                        items: vec![field("a", TypeKind::Struct(ident("S"))), field("b", TypeKind::Bool)],
                    });
                }
                "recursive-opt" => {
                    struct_defs.push(StructDef {
                        name: ident("S"),
                        items: vec![field("a", TypeKind::Optional(Box::new(TypeKind::Struct(ident("S"))))),
                                    field("b", TypeKind::Bool)],
                    });
                }
                "enumdup" => {
                    enum_defs.push(EnumDef {
                        name: ident("E"),
                        variants: vec![(ident("A"), 0), (ident("A"), 0), (ident("B"), i64::MIN)],
                    });
                }
                _ => die(&format!("unknown defs class {defs_cls}")),
            }
            let module = Module {
                data: ModuleData::V0(ModuleV0 {
                    progmem: base.progmem.clone().into_boxed_slice(),
                    labels,
                    action_defs,
                    command_defs,
                    fact_defs,
                    struct_defs,
                    enum_defs,
                    codemap: codemap(case.s("codemap")),
                    globals: base.globals.clone(),
                }),
            };
            let machine = match Machine::from_module(module) {
                Ok(m) => m,
                Err(_) => return "unsupported-version".to_string(),
            };
            // the host-facing codec entry points on whatever schema the module carries
            let _ = machine.deserialize_struct(ident("S"), &[1, 1, 1, 1, 1, 1, 1, 1]);
            let _ = machine.deserialize_struct(ident("S"), &vec![1u8; 1 << 20]);
            let _ = machine.deserialize_struct(ident("S"), &bt.good);
            let _ = machine.serialize_struct(&s_full());
            let mut io = StubIo::new(case.s("io"));
            let this = s_full();
            let env = Struct::new(ident("Envelope"), Vec::<(Identifier, Value)>::new());
            let ctx = match entry {
                "action" | "action-badargs" => "action",
                "policy" => "policy",
                "seal" => "seal",
                "open" => "open",
                _ => case.s("ctx"),
            };
            let mut rs: RunState<'_, StubIo> = machine.create_run_state(&mut io, context(ctx));
            let first = match entry {
                "action" => rs.call_action(ident("act"), [Value::Int(1)]),
                "action-badargs" => rs.call_action(ident("act"), [Value::Bool(true), Value::Int(2)]),
                "policy" => rs.call_command_policy(this, env),
                "seal" => rs.call_seal(this, vec![1, 2, 3]),
                "open" => rs.call_open(this, bt.good.clone(), env),
                _ => rs.run(),
            };
            let mut r = first;
            let mut resumes = 0;
            while matches!(r, Ok(ExitReason::Yield)) && resumes < budget {
                resumes += 1;
                r = rs.run();
            }
            let loc = rs.source_location();
            let shown = format!("{rs}").len();
            let _ = (loc, shown);
            match r {
                Ok(reason) => format!("exit:{reason}"),
                Err(e) => {
                    let _ = e.to_string();
                    format!("err:{}", err_kind(&e.err_type))
                }
            }
        });
        match r {
            Ok(st) => {
                // comparison with the spec's prediction for the entry phase: drift only
                let exp = case.s("exp");
                let predicted = if exp != "runs" {
                    Some(exp.to_string())
                } else if entry == "raw" && defs_cls == "ok" && case.s("base_outcome") != "budget" {
                    Some(case.s("base_outcome").to_string())
                } else {
                    None
                };
                let drift = u64::from(predicted.as_deref().is_some_and(|p| p != st));
                if drift == 1 && args.opt_bool("strict") {
                    out.fail(i, 0, "C25:selftest-mismatch", "entry outcome differs from the spec", json!({"st": st}));
                } else {
                    out.emit(json!({"i": i, "ok": true, "step": -1, "drift": drift,
                                    "obs": {"st": st, "predicted": predicted}}));
                }
            }
            Err(p) => {
                let first_op = case.a("prog").first().and_then(|c| c[0].as_str()).unwrap_or("?").to_string();
                out.fail(i, 0,
                    &format!("C25:module-panic:codemap={}:labels={}:defs={}", case.s("codemap"), labels_cls, defs_cls),
                    &format!("panic while loading/running a hand-built module (first instruction {first_op}): {p}"),
                    json!({"panic": p}));
            }
        }
    }
    out.finish();
}
