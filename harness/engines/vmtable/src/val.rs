//! Abstraction function between `VmBytecode.tla` values (tag-first JSON arrays) and real
//! `aranya_policy_vm::Value`s.
//!
//! ints: the spec's MaxI = 1000 stands for `i64::MAX`, MinI = -1001 for `i64::MIN`; a value
//! within 500 of a boundary denotes boundary ± offset.
use std::{collections::BTreeMap, str::FromStr};

use aranya_policy_vm::{
    BaseId, ConstStruct, ConstValue, Fact, FactKey, FactValue, HashableValue, Identifier, Struct,
    Text, Value,
};
use vrt::{die, json, Value as J};

pub const MAX_I: i64 = 1000;
pub const MIN_I: i64 = -1001;

pub fn conc_int(v: i64) -> i64 {
    if v > 500 {
        i64::MAX - (MAX_I - v)
    } else if v < -500 {
        i64::MIN + (v - MIN_I)
    } else {
        v
    }
}

pub fn abs_int(x: i64) -> J {
    if x > i64::MAX - 500 {
        json!(MAX_I - (i64::MAX - x))
    } else if x < i64::MIN + 500 {
        json!(MIN_I + (x - i64::MIN))
    } else if (-500..=500).contains(&x) {
        json!(x)
    } else {
        json!(format!("out-of-model:{x}"))
    }
}

pub fn ident(s: &str) -> Identifier {
    Identifier::from_str(s).unwrap_or_else(|_| die(&format!("bad identifier in case: {s:?}")))
}

pub fn text(s: &str) -> Text {
    Text::from_str(s).unwrap_or_else(|_| die(&format!("bad text in case: {s:?}")))
}

pub fn id_of(n: u64) -> BaseId {
    let mut b = [0u8; 32];
    b[0] = 0x1d;
    b[31] = n as u8;
    BaseId::from_bytes(b)
}

/// Concrete byte strings standing for the spec's `bytes` tags; `good` is supplied by the
/// caller (the real serialization of the spec's SFull).
pub struct BytesTags {
    pub good: Vec<u8>,
}
pub const JUNK: &[u8] = &[0xff];

fn tag(v: &J) -> &str {
    v.get(0).and_then(J::as_str).unwrap_or_else(|| die(&format!("value without tag: {v}")))
}

fn pairs(v: &J) -> Vec<(Identifier, &J)> {
    v.as_array()
        .unwrap_or_else(|| die("pairs not array"))
        .iter()
        .map(|p| (ident(p[0].as_str().unwrap_or_else(|| die("pair name"))), &p[1]))
        .collect()
}

fn fields(v: &J) -> Vec<(Identifier, &J)> {
    match v {
        J::Object(m) => m.iter().map(|(k, x)| (ident(k), x)).collect(),
        J::Array(a) if a.is_empty() => vec![],
        _ => die(&format!("struct fields neither object nor []: {v}")),
    }
}

pub fn to_value(v: &J, bt: &BytesTags) -> Value {
    match tag(v) {
        "unit" => Value::Unit,
        "int" => Value::Int(conc_int(v[1].as_i64().unwrap_or_else(|| die("int payload")))),
        "bool" => Value::Bool(v[1].as_bool().unwrap_or_else(|| die("bool payload"))),
        "str" => Value::String(text(v[1].as_str().unwrap_or_else(|| die("str payload")))),
        "bytes" => Value::Bytes(match v[1].as_str() {
            Some("good") => bt.good.clone(),
            Some("junk") => JUNK.to_vec(),
            _ => die("bytes tag not concretisable"),
        }),
        "id" => Value::Id(id_of(v[1].as_u64().unwrap_or_else(|| die("id payload")))),
        "enum" => Value::Enum(
            ident(v[1].as_str().unwrap_or_else(|| die("enum name"))),
            v[2].as_i64().unwrap_or_else(|| die("enum value")),
        ),
        "ident" => Value::Identifier(ident(v[1].as_str().unwrap_or_else(|| die("ident payload")))),
        "opt" => Value::Option(v.get(1).map(|x| Box::new(to_value(x, bt)))),
        "res" => {
            let inner = Box::new(to_value(&v[2], bt));
            Value::Result(if v[1].as_bool().unwrap_or_else(|| die("res flag")) {
                Ok(inner)
            } else {
                Err(inner)
            })
        }
        "struct" => Value::Struct(Struct {
            name: ident(v[1].as_str().unwrap_or_else(|| die("struct name"))),
            fields: fields(&v[2]).into_iter().map(|(k, x)| (k, to_value(x, bt))).collect(),
        }),
        "fact" => Value::Fact(Fact {
            name: ident(v[1].as_str().unwrap_or_else(|| die("fact name"))),
            keys: pairs(&v[2])
                .into_iter()
                .map(|(k, x)| {
                    let hv = HashableValue::try_from(to_value(x, bt))
                        .unwrap_or_else(|_| die("fact key not hashable in case"));
                    FactKey::new(k, hv)
                })
                .collect(),
            values: pairs(&v[3])
                .into_iter()
                .map(|(k, x)| FactValue::new(k, to_value(x, bt)))
                .collect(),
        }),
        t => die(&format!("unknown value tag {t}")),
    }
}

pub fn to_const(v: &J) -> ConstValue {
    match tag(v) {
        "unit" => ConstValue::Unit,
        "int" => ConstValue::Int(conc_int(v[1].as_i64().unwrap_or_else(|| die("int payload")))),
        "bool" => ConstValue::Bool(v[1].as_bool().unwrap_or_else(|| die("bool payload"))),
        "str" => ConstValue::String(text(v[1].as_str().unwrap_or_else(|| die("str payload")))),
        "enum" => ConstValue::Enum(
            ident(v[1].as_str().unwrap_or_else(|| die("enum name"))),
            v[2].as_i64().unwrap_or_else(|| die("enum value")),
        ),
        "opt" => ConstValue::Option(v.get(1).map(|x| Box::new(to_const(x)))),
        "res" => {
            let inner = Box::new(to_const(&v[2]));
            ConstValue::Result(if v[1].as_bool().unwrap_or_else(|| die("res flag")) {
                Ok(inner)
            } else {
                Err(inner)
            })
        }
        "struct" => ConstValue::Struct(ConstStruct {
            name: ident(v[1].as_str().unwrap_or_else(|| die("struct name"))),
            fields: fields(&v[2])
                .into_iter()
                .map(|(k, x)| (k, to_const(x)))
                .collect::<BTreeMap<_, _>>(),
        }),
        t => die(&format!("value tag {t} cannot be a ConstValue")),
    }
}

pub fn abs_value(v: &Value, bt: &BytesTags) -> J {
    match v {
        Value::Unit => json!(["unit"]),
        Value::Int(x) => json!(["int", abs_int(*x)]),
        Value::Bool(b) => json!(["bool", b]),
        Value::String(s) => json!(["str", s.as_str()]),
        Value::Bytes(b) => json!(["bytes",
            if *b == bt.good { "good" } else if b == JUNK { "junk" } else { "other" }]),
        Value::Id(i) => {
            let b = i.as_bytes();
            if b[0] == 0x1d && b[1..31].iter().all(|x| *x == 0) {
                json!(["id", b[31]])
            } else {
                json!(["id", format!("{i}")])
            }
        }
        Value::Enum(n, x) => json!(["enum", n.as_str(), x]),
        Value::Identifier(n) => json!(["ident", n.as_str()]),
        Value::Option(None) => json!(["opt"]),
        Value::Option(Some(x)) => json!(["opt", abs_value(x, bt)]),
        Value::Result(Ok(x)) => json!(["res", true, abs_value(x, bt)]),
        Value::Result(Err(x)) => json!(["res", false, abs_value(x, bt)]),
        Value::Struct(s) => {
            let f: vrt::Map<String, J> =
                s.fields.iter().map(|(k, x)| (k.to_string(), abs_value(x, bt))).collect();
            json!(["struct", s.name.as_str(), J::Object(f)])
        }
        Value::Fact(f) => {
            let ks: Vec<J> = f
                .keys
                .iter()
                .map(|k| json!([k.identifier.as_str(), abs_value(&k.value.clone().into(), bt)]))
                .collect();
            let vs: Vec<J> = f
                .values
                .iter()
                .map(|k| json!([k.identifier.as_str(), abs_value(&k.value, bt)]))
                .collect();
            json!(["fact", f.name.as_str(), ks, vs])
        }
    }
}

/// The spec prints an empty field map as `[]` and a non-empty one as an object; normalise
/// expected values so they compare equal to `abs_value` output.
pub fn normalise(v: &J) -> J {
    match v {
        J::Array(a) if a.first().and_then(J::as_str) == Some("struct") && a.len() == 3 => {
            let f = match &a[2] {
                J::Array(x) if x.is_empty() => J::Object(vrt::Map::new()),
                J::Object(m) => J::Object(m.iter().map(|(k, x)| (k.clone(), normalise(x))).collect()),
                o => o.clone(),
            };
            json!(["struct", a[1], f])
        }
        J::Array(a) => J::Array(a.iter().map(normalise).collect()),
        o => o.clone(),
    }
}
