//! C26 — cells of `StructCodec.tla` into `Machine::serialize_struct` / `deserialize_struct`.
//!
//! case (a TLC REPLAY line): `{"sc":[type..], "v":[value..], "t":[token..], "c":class, "at":pos,
//! "e":[status(, value)]}`.  Types, values and tokens are the spec's tag-first tuples.
//!
//! * `roundtrip`: the real serializer's bytes are compared with the rendering of the spec's
//!   tokens (drift if different) and must deserialize to exactly the value (violation if not);
//! * classes the property lists (truncation, trailing byte, option/result tags 2 and 255, enum
//!   value outside the definition, invalid UTF-8 / NUL, id length 31/33/0): the rendered bytes
//!   must be rejected (violation if accepted); the error kind is compared with the spec's (drift);
//! * `random`: seeded random byte strings and corruptions of the valid encoding: no panic, and
//!   whatever decodes must itself round-trip;
//! * a panic anywhere is a violation.
use std::collections::BTreeMap;

use aranya_policy_compiler::Compiler;
use aranya_policy_lang::lang::{parse_policy_str, Version};
use aranya_policy_vm::{
    BaseId, EnumDef, Field, Machine, ResultTypeKind, Struct, StructDef, TypeKind, Value,
};
use vrt::{die, json, Args, Rng, Value as J, J as _};

use crate::val::{conc_int, ident, text};

const REQUIRED: &[&str] = &[
    "trunc", "trunc-mid", "trailing", "otag2", "otag255", "rtag2", "rtag255", "enum-out", "utf8",
    "nul", "utf8-cut", "idlen31", "idlen33", "idlen0",
];

struct World {
    machine: Machine,
    names: BTreeMap<String, String>, // inner-struct type term -> struct name
}

fn tag(v: &J) -> &str {
    v.get(0).and_then(J::as_str).unwrap_or_else(|| die(&format!("term without tag: {v}")))
}

impl World {
    fn type_kind(&mut self, t: &J) -> TypeKind {
        match tag(t) {
            "int" => TypeKind::Int,
            "bool" => TypeKind::Bool,
            "string" => TypeKind::String,
            "bytes" => TypeKind::Bytes,
            "id" => TypeKind::Id,
            "enum" => TypeKind::Enum(ident("E")),
            "unit" => TypeKind::Unit,
            "opt" => TypeKind::Optional(Box::new(self.type_kind(&t[1]))),
            "res" => TypeKind::Result(Box::new(ResultTypeKind {
                ok: self.type_kind(&t[1]),
                err: self.type_kind(&t[2]),
            })),
            "struct" => {
                let key = t.to_string();
                if let Some(n) = self.names.get(&key) {
                    return TypeKind::Struct(ident(n));
                }
                let inner = self.type_kind(&t[1]);
                let name = format!("In{}", self.names.len());
                self.names.insert(key, name.clone());
                self.machine.struct_defs.insert(StructDef {
                    name: ident(&name),
                    items: vec![
                        Field { name: ident("p"), ty: inner },
                        Field { name: ident("q"), ty: TypeKind::Bool },
                    ],
                });
                TypeKind::Struct(ident(&name))
            }
            x => die(&format!("unknown type {x}")),
        }
    }

    fn value(&self, t: &J, v: &J) -> Value {
        match tag(t) {
            "int" => Value::Int(conc_int(v[1].as_i64().unwrap_or_else(|| die("int")))),
            "bool" => Value::Bool(v[1].as_bool().unwrap_or_else(|| die("bool"))),
            "string" => Value::String(text(
                std::str::from_utf8(&bytes_of(&v[1])).unwrap_or_else(|_| die("spec text not utf-8")),
            )),
            "bytes" => Value::Bytes(bytes_of(&v[1])),
            "id" => Value::Id(id_bytes(v[1].as_u64().unwrap_or_else(|| die("id")))),
            "enum" => Value::Enum(ident("E"), v[1].as_i64().unwrap_or_else(|| die("enum"))),
            "unit" => Value::Unit,
            "opt" => Value::Option(v.get(1).map(|x| Box::new(self.value(&t[1], x)))),
            "res" => {
                if v[1].as_bool().unwrap_or_else(|| die("res")) {
                    Value::Result(Ok(Box::new(self.value(&t[1], &v[2]))))
                } else {
                    Value::Result(Err(Box::new(self.value(&t[2], &v[2]))))
                }
            }
            "struct" => {
                let name = self.names.get(&t.to_string()).unwrap_or_else(|| die("struct name"));
                Value::Struct(Struct::new(
                    ident(name),
                    [(ident("p"), self.value(&t[1], &v[1])), (ident("q"), self.value(&json!(["bool"]), &v[2]))],
                ))
            }
            x => die(&format!("unknown type {x}")),
        }
    }
}

/// Policy-language spelling of a type term (inner structs by the names `World` gave them).
fn type_text(t: &J, names: &BTreeMap<String, String>) -> String {
    match tag(t) {
        "int" | "bool" | "string" | "bytes" | "id" | "unit" => tag(t).to_string(),
        "enum" => "enum E".to_string(),
        "opt" => format!("option[{}]", type_text(&t[1], names)),
        "res" => format!("result[{}, {}]", type_text(&t[1], names), type_text(&t[2], names)),
        "struct" => format!("struct {}", names.get(&t.to_string()).unwrap_or_else(|| die("struct name"))),
        x => die(&format!("unknown type {x}")),
    }
}

/// The same schema written as policy source and taken through the real parser and compiler:
/// the struct/enum definitions the VM would actually be given.  `None` if the front end
/// does not accept the text (reported as a note, the hand-built definitions still decide).
fn compiled_defs(tys: &[J], names: &BTreeMap<String, String>) -> Option<Machine> {
    let mut src = String::from("enum E { A, B }\n");
    for (term, name) in names {
        let t: J = vrt::serde_json::from_str(term).unwrap_or_else(|_| die("type term"));
        src.push_str(&format!("struct {name} {{ p {}, q bool }}\n", type_text(&t[1], names)));
    }
    let fields: Vec<String> =
        tys.iter().enumerate().map(|(k, t)| format!("f{} {}", k + 1, type_text(t, names))).collect();
    src.push_str(&format!("struct Top {{ {} }}\n", fields.join(", ")));
    vrt::catch_any(|| {
        let policy = parse_policy_str(&src, Version::V2).ok()?;
        let module = Compiler::new(&policy).compile().ok()?;
        Machine::from_module(module).ok()
    })
    .ok()
    .flatten()
}

fn bytes_of(v: &J) -> Vec<u8> {
    v.as_array()
        .unwrap_or_else(|| die("bytes not array"))
        .iter()
        .map(|b| b.as_u64().unwrap_or_else(|| die("byte")) as u8)
        .collect()
}

fn id_raw(k: u64, n: usize) -> Vec<u8> {
    (0..n).map(|i| (k as u8).wrapping_mul(17).wrapping_add(i as u8) | 0x80).collect()
}

fn id_bytes(k: u64) -> BaseId {
    let mut b = [0u8; 32];
    b.copy_from_slice(&id_raw(k, 32));
    BaseId::from_bytes(b)
}

fn varint(mut x: u64, out: &mut Vec<u8>) {
    loop {
        let b = (x & 0x7f) as u8;
        x >>= 7;
        if x == 0 {
            out.push(b);
            return;
        }
        out.push(b | 0x80);
    }
}

fn zigzag(v: i64) -> u64 {
    ((v << 1) ^ (v >> 63)) as u64
}

/// Bytes of one token.
fn render_tok(t: &J, out: &mut Vec<u8>) {
    match tag(t) {
        "zz" | "ezz" => varint(zigzag(conc_int(t[1].as_i64().unwrap_or_else(|| die("zz")))), out),
        "bool" | "idlen" | "otag" | "rtag" | "extra" => out.push(t[1].as_u64().unwrap_or_else(|| die("byte tok")) as u8),
        "len" => varint(t[1].as_u64().unwrap_or_else(|| die("len")), out),
        "text" | "raw" => out.extend(bytes_of(&t[1])),
        "idraw" => out.extend(id_raw(
            t[1].as_u64().unwrap_or_else(|| die("idraw")),
            t[2].as_u64().unwrap_or_else(|| die("idraw n")) as usize,
        )),
        "cut" => {
            let mut b = Vec::new();
            render_tok(&t[1], &mut b);
            b.pop();
            out.extend(b);
        }
        x => die(&format!("token {x} cannot be rendered")),
    }
}

fn render(toks: &[J]) -> Vec<u8> {
    let mut out = Vec::new();
    for t in toks {
        render_tok(t, &mut out);
    }
    out
}

fn err_name(e: &impl std::fmt::Debug) -> String {
    let d = format!("{e:?}");
    d.split(|c: char| !c.is_alphanumeric()).next().unwrap_or("?").to_string()
}

/// deserialize under catch; Ok(Ok(v)) / Ok(Err(kind)) / Err(panic)
fn de(m: &Machine, bytes: &[u8]) -> Result<Result<Struct, String>, String> {
    vrt::catch_any(|| m.deserialize_struct(ident("Top"), bytes).map_err(|e| {
        let _ = e.to_string();
        err_name(&e)
    }))
}

pub fn run(args: &Args) {
    let mut out = args.out();
    let nrand = args.opt_u64("random", 24) as usize;
    let mut schema_cache: BTreeMap<String, Option<String>> = BTreeMap::new();
    for (i, case) in args.read_input().iter().enumerate() {
        let mut w = World { machine: Machine::new([]), names: BTreeMap::new() };
        w.machine.enum_defs.insert(EnumDef {
            name: ident("E"),
            variants: vec![(ident("A"), 0), (ident("B"), 1)],
        });
        let tys = case.a("sc");
        let items: Vec<Field> = tys
            .iter()
            .enumerate()
            .map(|(k, t)| Field { name: ident(&format!("f{}", k + 1)), ty: w.type_kind(t) })
            .collect();
        w.machine.struct_defs.insert(StructDef { name: ident("Top"), items });
        // schema conformance: the compiler must hand the VM exactly these definitions
        let schema_key = vrt::serde_json::to_string(tys).unwrap_or_default();
        let verdict = schema_cache.entry(schema_key).or_insert_with(|| match compiled_defs(tys, &w.names) {
            None => Some("the front end does not accept this schema as policy source".to_string()),
            Some(cm) => {
                let same = w.machine.struct_defs.iter().all(|d| cm.struct_defs.get(&d.name) == Some(d))
                    && cm.enum_defs.get(&ident("E")) == w.machine.enum_defs.get(&ident("E"));
                if same { None } else { Some("compiled struct definitions differ from the schema".to_string()) }
            }
        });
        let schema_note = verdict.clone();
        let verdict_is_same = schema_note.is_none();
        let vals = case.a("v");
        let top = Struct::new(
            ident("Top"),
            tys.iter().zip(vals).enumerate().map(|(k, (t, v))| (ident(&format!("f{}", k + 1)), w.value(t, v))),
        );
        let cls = case.s("c");
        let toks = case.a("t");
        let exp = case.a("e");
        let exp_st = exp.first().and_then(J::as_str).unwrap_or("?");
        let m = &w.machine;
        let mut drift = 0u64;
        let mut notes: Vec<String> = Vec::new();
        if cls == "roundtrip" {
            if let Some(n) = schema_note {
                drift += 1;
                notes.push(n);
            }
        }

        // the valid encoding, always needed
        let ser = match vrt::catch_any(|| m.serialize_struct(&top)) {
            Err(p) => {
                out.fail(i, 0, "C26:panic:serialize", &format!("serialize_struct panicked: {p}"), json!({"panic": p}));
                continue;
            }
            Ok(Err(e)) => {
                out.fail(i, 0, "C26:roundtrip:serialize-error",
                    &format!("a value matching its schema could not be serialized: {e}"), json!({"err": e.to_string()}));
                continue;
            }
            Ok(Ok(b)) => b,
        };

        match cls {
            "roundtrip" => {
                let spec_bytes = render(toks);
                if spec_bytes != ser {
                    drift += 1;
                    notes.push(format!("wire bytes differ from the token grammar: {ser:02x?} vs {spec_bytes:02x?}"));
                }
                match de(m, &ser) {
                    Err(p) => {
                        out.fail(i, 1, "C26:panic:roundtrip", &format!("deserialize_struct panicked: {p}"), json!({"panic": p}));
                        continue;
                    }
                    Ok(Err(k)) => {
                        out.fail(i, 1, "C26:roundtrip:rejected",
                            &format!("the serialization of a conforming value was rejected ({k})"),
                            json!({"bytes": ser, "err": k}));
                        continue;
                    }
                    Ok(Ok(back)) => {
                        if back != top {
                            out.fail(i, 1, "C26:roundtrip:different",
                                "deserialize(serialize(v)) != v",
                                json!({"bytes": ser, "got": format!("{back}"), "want": format!("{top}")}));
                            continue;
                        }
                    }
                }
                if exp_st != "ok" {
                    drift += 1;
                    notes.push(format!("spec expected {exp_st}"));
                }
            }
            "random" => {
                let mut rng = Rng::new(args.seed ^ (i as u64).wrapping_mul(0x9E37) ^ case.u("at"));
                let mut bad: Option<(String, String, Vec<u8>)> = None;
                for k in 0..nrand {
                    let bytes: Vec<u8> = if k % 2 == 0 || ser.is_empty() {
                        let n = rng.below(49) as usize;
                        let mut b = vec![0u8; n];
                        rng.fill(&mut b);
                        // bias towards small tag-like bytes so deep schemas are entered
                        for x in b.iter_mut() {
                            if rng.chance(1, 3) {
                                *x %= 3;
                            }
                        }
                        b
                    } else {
                        let mut b = ser.clone();
                        for _ in 0..=rng.below(3) {
                            match rng.below(4) {
                                0 if !b.is_empty() => {
                                    let p = rng.below(b.len() as u64) as usize;
                                    b[p] ^= 1 << rng.below(8);
                                }
                                1 if !b.is_empty() => {
                                    let p = rng.below(b.len() as u64) as usize;
                                    b[p] = rng.next_u64() as u8;
                                }
                                2 => {
                                    let p = rng.below(b.len() as u64 + 1) as usize;
                                    b.insert(p, rng.next_u64() as u8);
                                }
                                _ if !b.is_empty() => {
                                    let p = rng.below(b.len() as u64) as usize;
                                    b.remove(p);
                                }
                                _ => {}
                            }
                        }
                        b
                    };
                    match de(m, &bytes) {
                        Err(p) => {
                            bad = Some(("C26:panic:random".into(), format!("deserialize_struct panicked on arbitrary bytes: {p}"), bytes));
                            break;
                        }
                        Ok(Err(_)) => {}
                        Ok(Ok(v)) => {
                            // whatever is accepted is a conforming value and must round-trip
                            let again = vrt::catch_any(|| {
                                m.serialize_struct(&v).ok().and_then(|b| m.deserialize_struct(ident("Top"), &b).ok())
                            });
                            match again {
                                Err(p) => {
                                    bad = Some(("C26:panic:random".into(), format!("panic re-encoding a decoded value: {p}"), bytes));
                                    break;
                                }
                                Ok(Some(v2)) if v2 == v => {}
                                Ok(_) => {
                                    bad = Some(("C26:roundtrip:decoded".into(),
                                        "a value accepted by deserialize_struct does not round-trip".into(), bytes));
                                    break;
                                }
                            }
                        }
                    }
                }
                if let Some((key, msg, bytes)) = bad {
                    out.fail(i, 2, &key, &msg, json!({"bytes": bytes}));
                    continue;
                }
            }
            _ => {
                // a mutation class: every concretisation of the cell must be rejected
                let mut inputs = vec![render(toks)];
                if cls == "trunc-mid" {
                    // every interior cut point of the cut token
                    let at = case.u("at") as usize;
                    let prefix = render(&toks[..at - 1]);
                    let mut full = Vec::new();
                    render_tok(&toks[at - 1][1], &mut full);
                    for j in 1..full.len() {
                        let mut b = prefix.clone();
                        b.extend(&full[..j]);
                        inputs.push(b);
                    }
                }
                if cls == "trailing" {
                    for extra in [0xffu8, 0x01, 0x80] {
                        let mut b = ser.clone();
                        b.push(extra);
                        inputs.push(b);
                    }
                }
                let required = REQUIRED.contains(&cls);
                let mut failed = false;
                for bytes in &inputs {
                    match de(m, bytes) {
                        Err(p) => {
                            out.fail(i, 2, &format!("C26:panic:{cls}"), &format!("deserialize_struct panicked: {p}"),
                                json!({"bytes": bytes, "panic": p}));
                            failed = true;
                            break;
                        }
                        Ok(Ok(v)) => {
                            if required {
                                out.fail(i, 2, &format!("C26:accepted:{cls}"),
                                    &format!("deserialize_struct accepted input of class `{cls}` (as {v})"),
                                    json!({"bytes": bytes, "valid_encoding": ser, "decoded": format!("{v}")}));
                                failed = true;
                                break;
                            }
                            drift += 1;
                            notes.push(format!("class {cls} accepted"));
                        }
                        Ok(Err(k)) => {
                            if k != exp_st {
                                drift += 1;
                                notes.push(format!("error kind {k}, spec {exp_st}"));
                            }
                        }
                    }
                }
                if failed {
                    continue;
                }
            }
        }
        if args.opt_bool("strict") && drift > 0 {
            out.fail(i, 0, "C26:selftest-mismatch", &notes.join("; "), json!({}));
        } else {
            let schema = if cls != "roundtrip" { "-" } else if verdict_is_same { "compiled-same" } else { "compiled-differs-or-rejected" };
            out.emit(json!({"i": i, "ok": true, "step": -1, "drift": drift,
                            "obs": {"notes": notes, "len": ser.len(), "schema": schema}}));
        }
    }
    out.finish();
}
