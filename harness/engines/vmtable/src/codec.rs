//! C26 (placeholder until StructCodec is bound)
pub fn run(_args: &vrt::Args) {
    vrt::die("codec: not built yet")
}
