//! C27 (placeholder until PolicyFront is bound)
pub fn run(_args: &vrt::Args) {
    vrt::die("front: not built yet")
}
