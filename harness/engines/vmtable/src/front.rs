//! C27 — texts of `PolicyFront.tla` into the policy front ends.
//!
//! case: `{"entry": "doc"|"str"|"expr", "text": "...", "exp": {"parse": "ok|err|any",
//!         "compile": "ok|err|any"}, ...}` (other keys describe the cell and are ignored here).
//!
//! `doc`  -> `parse_policy_document(text)`, `str` -> `parse_policy_str(text, V2)`,
//! `expr` -> `parse_expression(text)`; a parsed policy is compiled with `Compiler::compile`
//! (with `--opt full=1` also with `debug(true)` + `stub_ffi(true)`, and `compile_interface`).
//!
//! Decides (C27): neither step panics; what comes back is a result or a structured error
//! (kind / message / span are read).  `Display` of the errors is *outside* the property as
//! worded: it is exercised inside its own `catch_unwind` and a panic there is reported as
//! `adjacent` drift, never as a violation (DESIGN §7.9).  The spec's accept/reject prediction
//! is compared where it makes one (drift).
use aranya_policy_compiler::Compiler;
use aranya_policy_lang::lang::{parse_expression, parse_policy_document, parse_policy_str, Version};
use vrt::{json, Args, J as _};

fn verdict<T, E>(r: &Result<T, E>) -> &'static str {
    if r.is_ok() { "ok" } else { "err" }
}

/// Result writer that flushes every line: deeply nested input can overflow the parser's stack,
/// which aborts the process; the driver then needs to know which case was running.
struct LineOut(std::fs::File);

impl LineOut {
    fn emit(&mut self, v: vrt::Value) {
        use std::io::Write as _;
        let mut line = v.to_string();
        line.push('\n');
        self.0.write_all(line.as_bytes()).unwrap_or_else(|e| vrt::die(&format!("write: {e}")));
    }
    fn fail(&mut self, i: usize, step: i64, key: &str, msg: &str, obs: vrt::Value) {
        self.emit(json!({"i": i, "ok": false, "step": step, "key": key, "msg": msg, "obs": obs}));
    }
    fn finish(self) {}
}

pub fn run(args: &Args) {
    let path = args.output.as_deref().unwrap_or_else(|| vrt::die("--out required"));
    let mut out = LineOut(std::fs::File::create(path).unwrap_or_else(|e| vrt::die(&format!("create {path}: {e}"))));
    let full = args.opt_bool("full");
    for (i, case) in args.read_input().iter().enumerate() {
        let entry = case.s("entry");
        let text = case.s("text");
        let exp = case.g("exp");
        let mut drift = 0u64;
        let mut notes: Vec<String> = Vec::new();
        let mut adjacent: Vec<String> = Vec::new();

        // ---- parse
        let parsed = vrt::catch_any(|| match entry {
            "doc" => parse_policy_document(text).map(Some),
            "str" => parse_policy_str(text, Version::V2).map(Some),
            _ => parse_expression(text).map(|_e| None),
        });
        let parsed = match parsed {
            Err(p) => {
                out.fail(i, 0, &format!("C27:panic:parse:{entry}"),
                    &format!("the {entry} parser panicked: {p}"), json!({"panic": p}));
                continue;
            }
            Ok(r) => r,
        };
        let pv = verdict(&parsed);
        if let Err(e) = &parsed {
            // structured: kind, message, span are plain data
            let structured = (format!("{:?}", e.kind).len(), e.message.len(), e.span.map(|s| (s.start(), s.end())));
            let _ = structured;
            let e2 = e.clone();
            if let Err(p) = vrt::catch_any(move || e2.to_string()) {
                adjacent.push(format!("ParseError Display panicked: {p}"));
            }
        }
        let want_p = exp.s("parse");
        if want_p != "any" && want_p != pv {
            drift += 1;
            notes.push(format!("parse {pv}, spec {want_p}"));
        }

        // ---- compile
        let mut cv = "none";
        if let Ok(Some(policy)) = &parsed {
            let r = vrt::catch_any(|| {
                let a = Compiler::new(policy).compile();
                // the other public ways into the compiler (thorough tier)
                let (b, c) = if full {
                    (Compiler::new(policy).debug(true).stub_ffi(true).compile().is_ok(),
                     Compiler::new(policy).debug(false).compile_interface().is_ok())
                } else {
                    (false, false)
                };
                (a, b, c)
            });
            match r {
                Err(p) => {
                    out.fail(i, 1, "C27:panic:compile",
                        &format!("Compiler::compile panicked on a parsed policy: {p}"), json!({"panic": p}));
                    continue;
                }
                Ok((a, _b, _c)) => {
                    cv = verdict(&a);
                    if let Err(e) = a {
                        if let Err(p) = vrt::catch_any(move || e.to_string()) {
                            adjacent.push(format!("CompileError Display panicked: {p}"));
                        }
                    }
                }
            }
            let want_c = exp.s("compile");
            if want_c != "any" && want_c != cv {
                drift += 1;
                notes.push(format!("compile {cv}, spec {want_c}"));
            }
        }
        if !adjacent.is_empty() {
            drift += 1;
        }
        let obs = json!({"parse": pv, "compile": cv, "notes": notes, "adjacent": adjacent});
        if args.opt_bool("strict") && drift > 0 {
            out.fail(i, 0, "C27:selftest-mismatch", "outcome differs from the spec's prediction", obs);
        } else {
            out.emit(json!({"i": i, "ok": true, "step": -1, "drift": drift, "obs": obs}));
        }
    }
    out.finish();
}
