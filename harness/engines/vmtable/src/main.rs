//! `vh-vmtable` — TABLE-pattern engines for the policy tool chain (DESIGN §2.1, §5 C25–C27).
//!
//! * `bytecode` — replays `VmBytecode.tla` behaviours into the real `Machine`/`RunState` (C25)
//! * `module`   — hand-built / corrupted `ModuleV0` cases through `Machine::from_module` (C25)
//! * `codec`    — `StructCodec.tla` cells into `Machine::{serialize,deserialize}_struct` (C26)
//! * `front`    — `PolicyFront.tla` texts into the parsers and `Compiler::compile` (C27)
mod bytecode;
mod codec;
mod front;
mod val;

fn main() {
    let args = vrt::Args::parse();
    match args.sub.as_str() {
        "bytecode" => bytecode::run(&args),
        "module" => bytecode::run_module(&args),
        "codec" => codec::run(&args),
        "front" => front::run(&args),
        s => vrt::die(&format!("unknown subcommand {s}")),
    }
}
