//! C43 — replay of `ShmMutex` schedules on the real futex mutex
//! (`aranya_fast_channels::mutex::Mutex` through `verif::VMutex`).
//!
//! Behaviour (one per line): `{"threads":N,"rounds":R,"steps":[{"a":label,"t":tid,"key":k,
//! "pc":[..],"sl":[..],"wk":[..]},..]}` — `a`/`t` = the spec action and its thread (1-based),
//! the rest = the spec's state after the step.  Each spec label is one yield point of the code:
//!
//! | label | site | access |
//! |---|---|---|
//! | cas1 | MUTEX_CAS1 | `compare_exchange(0,1)` |
//! | spin | MUTEX_SPIN_LOAD | `load` of the passive spin |
//! | scas | MUTEX_SPIN_CAS | `compare_exchange(0,wait)` |
//! | swp | MUTEX_SWAP | `swap(2)` |
//! | fw | FUTEX_WAIT | futex compare-and-block |
//! | slp | (asleep in the shim) | return from `futex_wait` |
//! | cs / cs2 | harness | critical section enter / exit (occupancy counter) |
//! | unl | MUTEX_UNLOCK_SWAP | `swap(0)` |
//! | wk | FUTEX_WAKE | wake one sleeper |
//!
//! Verdict (DESIGN §2.2): only the property monitor — two threads inside the critical section,
//! or a thread still asleep in `futex_wait` when no thread can run any more (lost wake-up).
//! A difference between the spec's and the code's next site/state is `drift`: the run continues
//! with a seeded fair choice among runnable threads (no spurious wake-ups).
use std::sync::{
    atomic::{AtomicBool, AtomicU32, AtomicUsize, Ordering},
    Arc,
};

use aranya_fast_channels::verif::{site, VMutex};
use vrt::{json, Value, J};
use vsched::{Sched, Status, StepError};

use crate::hsite;

const VISIBLE: &[u32] = &[
    site::MUTEX_CAS1,
    site::MUTEX_SPIN_LOAD,
    site::MUTEX_SPIN_CAS,
    site::MUTEX_SWAP,
    site::MUTEX_UNLOCK_SWAP,
    site::FUTEX_WAIT,
    site::FUTEX_WAKE,
    hsite::CS_ENTER,
    hsite::CS_EXIT,
];

fn label_site(l: &str) -> Option<u32> {
    Some(match l {
        "cas1" => site::MUTEX_CAS1,
        "spin" => site::MUTEX_SPIN_LOAD,
        "scas" => site::MUTEX_SPIN_CAS,
        "swp" => site::MUTEX_SWAP,
        "fw" => site::FUTEX_WAIT,
        "cs" => hsite::CS_ENTER,
        "cs2" => hsite::CS_EXIT,
        "unl" => site::MUTEX_UNLOCK_SWAP,
        "wk" => site::FUTEX_WAKE,
        _ => return None,
    })
}

/// Does the real thread's status correspond to the spec's pc label?
fn matches_pc(st: &Status, pc: &str) -> bool {
    match st {
        Status::Parked { site, .. } => label_site(pc) == Some(*site),
        Status::Sleeping { .. } => pc == "slp",
        Status::Done => pc == "Done",
        _ => false,
    }
}

struct Outcome {
    ok: bool,
    key: String,
    msg: String,
    step: i64,
    drift: u64,
    steps: u64,
    obs: Value,
}

pub fn run(args: &vrt::Args) {
    let mut out = args.out();
    let selftest = args.opt_str("selftest", "");
    for (i, b) in args.read_input().iter().enumerate() {
        let mut rng = vrt::Rng::new(args.seed.wrapping_mul(0x1000).wrapping_add(i as u64));
        match replay(b, &mut rng, &selftest) {
            Ok(o) => out.emit(json!({"i": i, "ok": o.ok, "step": o.step, "key": o.key, "msg": o.msg,
                                     "drift": o.drift, "steps": o.steps, "obs": o.obs})),
            Err(e) => vrt::die(&format!("mutex replay {i}: {e:?}")),
        }
    }
    out.finish();
}

fn replay(b: &Value, rng: &mut vrt::Rng, selftest: &str) -> Result<Outcome, StepError> {
    let n = b.u("threads") as usize;
    let rounds = b.u("rounds") as usize;
    let steps = b.a("steps");
    let sched = Sched::new();
    sched.set_visible(VISIBLE);
    let m = Arc::new(VMutex::new(0u64));
    let key_addr = m.key_addr();
    let inside = Arc::new(AtomicUsize::new(0));
    let excl_broken = Arc::new(AtomicBool::new(false));
    let no_lock = selftest == "nolock";
    for _ in 0..n {
        let (m, inside, excl_broken) = (Arc::clone(&m), Arc::clone(&inside), Arc::clone(&excl_broken));
        sched.spawn(move || {
            for _ in 0..rounds {
                // self-test "nolock": thread 0.. skip the mutex: the monitor must notice
                let g = if no_lock { None } else { Some(m.lock()) };
                vsched::point(hsite::CS_ENTER, 0, 0);
                if inside.fetch_add(1, Ordering::Relaxed) != 0 {
                    excl_broken.store(true, Ordering::Relaxed);
                }
                vsched::point(hsite::CS_EXIT, 0, 0);
                inside.fetch_sub(1, Ordering::Relaxed);
                drop(g);
            }
        });
    }
    // SAFETY: `key_addr` is the address of the mutex's `AtomicU32` key, alive as long as `m`.
    let key = || unsafe { (*(key_addr as *const AtomicU32)).load(Ordering::SeqCst) };

    let mut drift = 0u64;
    let mut nsteps = 0u64;
    let mut following = true;
    let mut drift_at: i64 = -1;
    let mut drift_why = String::new();
    let mut fail: Option<(String, String, i64)> = None;

    'sched: for (k, s) in steps.iter().enumerate() {
        let t = (s.u("t") as usize).wrapping_sub(1);
        let a = s.s("a");
        let st = sched.status(t);
        // the spec's step must be the one the real thread is about to take
        let pre_ok = match (&st, a) {
            (Status::Sleeping { .. }, "slp") => true,
            (Status::Parked { site, .. }, l) => label_site(l) == Some(*site),
            _ => false,
        };
        if !pre_ok {
            drift += 1;
            drift_at = k as i64;
            drift_why = format!("spec step {a}({}) but thread is {:?}", t + 1, st);
            following = false;
            break 'sched;
        }
        let mut spurious = false;
        match a {
            "wk" => {
                // the sleeper the spec's wake picked = newly in wakeTok
                let choice = s.a("wk").iter().filter_map(Value::as_u64).map(|x| x as usize - 1).find(|&x| {
                    matches!(sched.status(x), Status::Sleeping { woken: false, .. })
                });
                sched.set_wake_choice(if selftest == "nowake" { None } else { choice });
            }
            "slp" => spurious = matches!(st, Status::Sleeping { woken: false, .. }),
            _ => {}
        }
        if selftest == "nowake" && a == "wk" {
            // self-test: the wake-up is swallowed — the monitor must report a lost wake-up
            SWALLOW_WAKE.store(true, Ordering::SeqCst);
        }
        sched.step(t, spurious)?;
        nsteps += 1;
        if SWALLOW_WAKE.swap(false, Ordering::SeqCst) {
            sched.unwake(&sched.last_woken());
        }
        if excl_broken.load(Ordering::Relaxed) {
            fail = Some(("C43:mutual-exclusion".into(),
                         format!("two threads inside the critical section after step {k} ({a}({}))", t + 1), k as i64));
            break 'sched;
        }
        // compare the projected state with the spec's
        let sts = sched.statuses();
        let mut why = String::new();
        if key() as u64 != s.u("key") {
            why = format!("key is {} but spec has {}", key(), s.u("key"));
        }
        for (i, pc) in s.a("pc").iter().enumerate() {
            let pc = pc.as_str().unwrap_or("?");
            if !matches_pc(&sts[i], pc) {
                why = format!("thread {} is {:?} but spec pc is {pc}", i + 1, sts[i]);
            }
        }
        let sl: Vec<u64> = s.a("sl").iter().filter_map(Value::as_u64).collect();
        let wk: Vec<u64> = s.a("wk").iter().filter_map(Value::as_u64).collect();
        for (i, st) in sts.iter().enumerate() {
            let id = i as u64 + 1;
            let (rs, rw) = match st {
                Status::Sleeping { woken, .. } => (!*woken, *woken),
                _ => (false, false),
            };
            if rs != sl.contains(&id) || rw != wk.contains(&id) {
                why = format!("sleepers/woken differ for thread {id}: real asleep={rs} woken={rw}, spec sl={sl:?} wk={wk:?}");
            }
        }
        if !why.is_empty() {
            drift += 1;
            drift_at = k as i64;
            drift_why = why;
            following = false;
            break 'sched;
        }
    }
    let _ = following;

    // free run (after drift or when the schedule ended early): seeded fair choice, no spurious
    // wake-ups; ends when no thread can run.
    if fail.is_none() {
        let mut guard = 0;
        loop {
            let sts = sched.statuses();
            let runnable: Vec<usize> = (0..n).filter(|&i| sched.runnable(i)).collect();
            if runnable.is_empty() {
                // monitor: lost wake-up / panic
                if let Some(i) = sts.iter().position(|s| matches!(s, Status::Panicked(_))) {
                    fail = Some(("C43:panic".into(), format!("thread {} panicked: {:?}", i + 1, sts[i]), nsteps as i64));
                } else if let Some(i) = sts.iter().position(|s| matches!(s, Status::Sleeping { .. })) {
                    fail = Some(("C43:lost-wakeup".into(),
                                 format!("thread {} is parked in futex_wait with key={} and no thread left to wake it \
                                          (statuses {:?})", i + 1, key(), sts), nsteps as i64));
                }
                break;
            }
            let t = *rng.pick(&runnable);
            sched.step(t, false)?;
            nsteps += 1;
            if excl_broken.load(Ordering::Relaxed) {
                fail = Some(("C43:mutual-exclusion".into(),
                             "two threads inside the critical section (free run after drift)".into(), nsteps as i64));
                break;
            }
            guard += 1;
            if guard > 100_000 {
                vrt::die("mutex free run did not terminate within 100000 steps");
            }
        }
    }
    let final_sts = format!("{:?}", sched.statuses());
    sched.abort_and_join();
    let obs = json!({"drift_at": drift_at, "drift_why": drift_why, "final": final_sts, "key": key()});
    Ok(match fail {
        None => Outcome { ok: true, key: String::new(), msg: String::new(), step: -1, drift, steps: nsteps, obs },
        Some((key, msg, step)) => Outcome { ok: false, key, msg, step, drift, steps: nsteps, obs },
    })
}

static SWALLOW_WAKE: AtomicBool = AtomicBool::new(false);
