//! C43 — replay of `ShmMutex` schedules on the real futex mutex
//! (`aranya_fast_channels::mutex::Mutex` through `verif::VMutex`).
//!
//! Behaviour (one per line): `{"threads":N,"rounds":R,"steps":[{"a":label,"t":tid,"key":k,
//! "pc":[..],"sl":[..],"wk":[..]},..]}` — `a`/`t` = the spec action and its thread (1-based),
//! the rest = the spec's state after the step.  Each spec label is one yield point of the code:
//!
//! | label | site | access |
//! |---|---|---|
//! | cas1 | MUTEX_CAS1 | `compare_exchange(0,1)` |
//! | spin | MUTEX_SPIN_LOAD | `load` of the passive spin |
//! | scas | MUTEX_SPIN_CAS | `compare_exchange(0,wait)` |
//! | swp | MUTEX_SWAP | `swap(2)` |
//! | fw | FUTEX_WAIT | futex compare-and-block |
//! | slp | (asleep in the shim) | return from `futex_wait` |
//! | cs / cs2 | harness | critical section enter / exit (occupancy counter) |
//! | unl | MUTEX_UNLOCK_SWAP | `swap(0)` |
//! | wk | FUTEX_WAKE | wake one sleeper |
//!
//! Verdict (DESIGN §2.2): only the property monitor — two threads inside the critical section,
//! or a thread still asleep in `futex_wait` when no thread can run any more (lost wake-up).
//! A difference between the spec's and the code's next site/state is `drift`: the run continues
//! with a seeded fair choice among runnable threads (no spurious wake-ups).
use std::sync::{
    atomic::{AtomicBool, AtomicU32, AtomicUsize, Ordering},
    Arc,
};

use aranya_fast_channels::verif::{site, VMutex};
use vrt::{Value, J};
use vsched::{Sched, Status};

use crate::{
    driver::{self, Control, Fail, Outcome},
    hsite,
};

const VISIBLE: &[u32] = &[
    site::MUTEX_CAS1,
    site::MUTEX_SPIN_LOAD,
    site::MUTEX_SPIN_CAS,
    site::MUTEX_SWAP,
    site::MUTEX_UNLOCK_SWAP,
    site::FUTEX_WAIT,
    site::FUTEX_WAKE,
    hsite::CS_ENTER,
    hsite::CS_EXIT,
];

fn label_site(l: &str) -> Option<u32> {
    Some(match l {
        "cas1" => site::MUTEX_CAS1,
        "spin" => site::MUTEX_SPIN_LOAD,
        "scas" => site::MUTEX_SPIN_CAS,
        "swp" => site::MUTEX_SWAP,
        "fw" => site::FUTEX_WAIT,
        "cs" => hsite::CS_ENTER,
        "cs2" => hsite::CS_EXIT,
        "unl" => site::MUTEX_UNLOCK_SWAP,
        "wk" => site::FUTEX_WAKE,
        _ => return None,
    })
}

/// Does the real thread's status correspond to the spec's pc label?
fn matches_pc(st: &Status, pc: &str) -> bool {
    match st {
        Status::Parked { site, .. } => label_site(pc) == Some(*site),
        Status::Sleeping { .. } => pc == "slp",
        Status::Done => pc == "Done",
        _ => false,
    }
}

struct Ctl {
    /// the schedule comes from a PASSIVE_SPIN = 1 graph: a thread the spec moved from `spin` to `swp`
    /// runs through the code's remaining spin loads (nobody else runs in between, so they all see
    /// the same held lock) before the states are compared
    spin_macro: bool,
    extra_steps: u64,
    n: usize,
    key_addr: usize,
    excl_broken: Arc<AtomicBool>,
    selftest_nowake: bool,
    swallow: bool,
}

impl Ctl {
    fn key(&self) -> u32 {
        // SAFETY: `key_addr` is the address of the mutex's `AtomicU32` key; the mutex outlives `Ctl`.
        unsafe { (*(self.key_addr as *const AtomicU32)).load(Ordering::SeqCst) }
    }
}

impl Control for Ctl {
    fn thread_of(&self, s: &Value) -> usize {
        (s.u("t") as usize).wrapping_sub(1)
    }
    fn pre_ok(&self, s: &Value, st: &Status) -> bool {
        match (st, s.s("a")) {
            (Status::Sleeping { .. }, "slp") => true,
            (Status::Parked { site, .. }, l) => label_site(l) == Some(*site),
            _ => false,
        }
    }
    fn before(&mut self, s: &Value, sched: &Sched) -> bool {
        let t = self.thread_of(s);
        match s.s("a") {
            "wk" => {
                // the sleeper the spec's wake picked = in the spec's wakeTok, still asleep here
                let choice = s.a("wk").iter().filter_map(Value::as_u64).map(|x| x as usize - 1).find(|&x| {
                    matches!(sched.status(x), Status::Sleeping { woken: false, .. })
                });
                sched.set_wake_choice(choice);
                // self-test "nowake": the wake-up is swallowed — the monitor must report it
                self.swallow = self.selftest_nowake;
                false
            }
            "slp" => matches!(sched.status(t), Status::Sleeping { woken: false, .. }),
            _ => false,
        }
    }
    fn compare(&mut self, s: &Value, sched: &Sched) -> Option<String> {
        if self.spin_macro && s.s("a") == "spin" {
            let t = self.thread_of(s);
            if s.a("pc")[t].as_str() == Some("swp") {
                for _ in 0..8 {
                    match sched.status(t) {
                        Status::Parked { site: st, .. } if st == site::MUTEX_SPIN_LOAD && self.key() != 0 => {
                            let _ = sched.step(t, false);
                            self.extra_steps += 1;
                        }
                        _ => break,
                    }
                }
            }
        }
        let sts = sched.statuses();
        if self.key() as u64 != s.u("key") {
            return Some(format!("key is {} but spec has {}", self.key(), s.u("key")));
        }
        for (i, pc) in s.a("pc").iter().enumerate() {
            let pc = pc.as_str().unwrap_or("?");
            if !matches_pc(&sts[i], pc) {
                return Some(format!("thread {} is {:?} but spec pc is {pc}", i + 1, sts[i]));
            }
        }
        let sl: Vec<u64> = s.a("sl").iter().filter_map(Value::as_u64).collect();
        let wk: Vec<u64> = s.a("wk").iter().filter_map(Value::as_u64).collect();
        for (i, st) in sts.iter().enumerate() {
            let id = i as u64 + 1;
            let (rs, rw) = match st {
                Status::Sleeping { woken, .. } => (!*woken, *woken),
                _ => (false, false),
            };
            if rs != sl.contains(&id) || rw != wk.contains(&id) {
                return Some(format!(
                    "sleepers/woken differ for thread {id}: real asleep={rs} woken={rw}, spec sl={sl:?} wk={wk:?}"
                ));
            }
        }
        None
    }
    fn monitor(&mut self, sched: &Sched) -> Option<Fail> {
        if self.swallow {
            self.swallow = false;
            sched.unwake(&sched.last_woken());
        }
        if self.excl_broken.load(Ordering::Relaxed) {
            return Some(("C43:mutual-exclusion".into(), "two threads inside the critical section".into()));
        }
        None
    }
    fn finish(&mut self, sched: &Sched) -> Option<Fail> {
        let sts = sched.statuses();
        debug_assert_eq!(sts.len(), self.n);
        if let Some(i) = sts.iter().position(|s| matches!(s, Status::Panicked(_))) {
            return Some(("C43:panic".into(), format!("thread {} panicked: {:?}", i + 1, sts[i])));
        }
        if let Some(i) = sts.iter().position(|s| matches!(s, Status::Sleeping { .. })) {
            return Some((
                "C43:lost-wakeup".into(),
                format!(
                    "thread {} is parked in futex_wait with key={} and no thread left to wake it (statuses {:?})",
                    i + 1,
                    self.key(),
                    sts
                ),
            ));
        }
        None
    }
}

pub fn run(args: &vrt::Args) {
    let mut out = args.out();
    let selftest = args.opt_str("selftest", "");
    for (i, b) in args.read_input().iter().enumerate() {
        let mut rng = vrt::Rng::new(args.seed.wrapping_mul(0x1000).wrapping_add(i as u64));
        let o = replay(b, &mut rng, &selftest);
        out.emit(o.to_json(i, Value::Null));
    }
    out.finish();
}

/// Free-running contention (`{"race":"contend","threads":N,"iters":K,"ms":T}`): N real,
/// unscheduled threads (real futex, the shim declines outside test threads) lock the mutex K
/// times each; the hardware interleaves the single accesses, which reaches interleavings inside
/// an atomic operation split into separate accesses (DESIGN §9).  Oracle: the occupancy monitor,
/// the plain counter protected by the mutex, and completion (a thread that never returns from
/// `lock()` although the mutex is free = lost wake-up).
fn race(b: &Value, selftest: &str) -> Outcome {
    let n = b.u("threads") as usize;
    let iters = b.u("iters");
    let ms = b.u("ms");
    let mut o = Outcome { fail: None, step: -1, drift: 0, steps: 0, drift_at: -1, drift_why: String::new(), final_status: String::new() };
    let m = Arc::new(VMutex::new(0u64));
    let inside = Arc::new(AtomicUsize::new(0));
    let broken = Arc::new(AtomicBool::new(false));
    let stop = Arc::new(AtomicBool::new(false));
    let ready = Arc::new(AtomicUsize::new(0));
    let done = Arc::new(AtomicUsize::new(0));
    let total = Arc::new(AtomicUsize::new(0));
    let no_lock = selftest == "nolock";
    for k in 0..n {
        let (m, inside, broken, stop, ready, done, total) = (Arc::clone(&m), Arc::clone(&inside), Arc::clone(&broken),
            Arc::clone(&stop), Arc::clone(&ready), Arc::clone(&done), Arc::clone(&total));
        std::thread::spawn(move || {
            ready.fetch_add(1, Ordering::SeqCst);
            while ready.load(Ordering::SeqCst) < n {
                std::hint::spin_loop();
            }
            let mut i = 0;
            while i < iters && !stop.load(Ordering::Relaxed) {
                let mut g = if no_lock { None } else { Some(m.lock()) };
                if inside.fetch_add(1, Ordering::Relaxed) != 0 {
                    broken.store(true, Ordering::Relaxed);
                }
                for _ in 0..(i as usize + k) % 5 {
                    std::hint::spin_loop();
                }
                if let Some(g) = g.as_mut() {
                    **g += 1;
                }
                inside.fetch_sub(1, Ordering::Relaxed);
                drop(g);
                total.fetch_add(1, Ordering::Relaxed);
                i += 1;
            }
            done.fetch_add(1, Ordering::SeqCst);
        });
    }
    let t0 = std::time::Instant::now();
    while done.load(Ordering::SeqCst) < n {
        std::thread::sleep(std::time::Duration::from_millis(5));
        let el = t0.elapsed().as_millis() as u64;
        if el > ms {
            stop.store(true, Ordering::Relaxed);
        }
        if el > ms + 10_000 {
            o.fail = Some(("C43:lost-wakeup".into(), format!("free-running contention: {} of {n} threads never came back from lock() within 10 s after the stop request", n - done.load(Ordering::SeqCst))));
            break;
        }
    }
    o.steps = total.load(Ordering::Relaxed) as u64;
    if broken.load(Ordering::Relaxed) {
        o.fail = Some(("C43:mutual-exclusion".into(), "free-running contention: two threads inside the critical section".into()));
    } else if o.fail.is_none() && !no_lock {
        let v = *m.lock();
        if v != o.steps {
            o.fail = Some(("C43:mutual-exclusion".into(), format!("free-running contention: the counter protected by the mutex is {v} after {} increments (lost update)", o.steps)));
        }
    }
    o.final_status = format!("race contend x{n}: {} critical sections", o.steps);
    o
}

fn replay(b: &Value, rng: &mut vrt::Rng, selftest: &str) -> Outcome {
    if b.get("race").is_some() {
        return race(b, selftest);
    }
    let n = b.u("threads") as usize;
    // rounds: one number for all threads, or one per thread
    let rounds_of: Vec<usize> = match b.g("rounds") {
        Value::Array(a) => a.iter().map(|x| x.as_u64().unwrap_or(1) as usize).collect(),
        v => vec![v.as_u64().unwrap_or(1) as usize; n],
    };
    let spin_macro = b.get("spin_macro").and_then(Value::as_bool).unwrap_or(false);
    let sched = Sched::new();
    sched.set_visible(VISIBLE);
    let m = Arc::new(VMutex::new(0u64));
    let inside = Arc::new(AtomicUsize::new(0));
    let excl_broken = Arc::new(AtomicBool::new(false));
    let no_lock = selftest == "nolock";
    for i in 0..n {
        let rounds = rounds_of.get(i).copied().unwrap_or(1);
        let (m, inside, excl_broken) = (Arc::clone(&m), Arc::clone(&inside), Arc::clone(&excl_broken));
        sched.spawn(move || {
            for _ in 0..rounds {
                // self-test "nolock": the threads skip the mutex — the monitor must notice
                let g = if no_lock { None } else { Some(m.lock()) };
                vsched::point(hsite::CS_ENTER, 0, 0);
                if inside.fetch_add(1, Ordering::Relaxed) != 0 {
                    excl_broken.store(true, Ordering::Relaxed);
                }
                vsched::point(hsite::CS_EXIT, 0, 0);
                inside.fetch_sub(1, Ordering::Relaxed);
                drop(g);
            }
        });
    }
    let mut ctl = Ctl {
        spin_macro,
        extra_steps: 0,
        n,
        key_addr: m.key_addr(),
        excl_broken,
        selftest_nowake: selftest == "nowake",
        swallow: false,
    };
    driver::run(&sched, b.a("steps"), &mut ctl, rng, 100_000)
}
