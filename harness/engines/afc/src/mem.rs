//! C40 / C41 — replay of `AfcMem` schedules on the real in-memory channel state
//! `aranya_fast_channels::memory::State` (one writer thread, N reader threads).
//!
//! Behaviour: `{"readers":N,"rops":R,"script":[..],"steps":[{"a":label,"t":tid,"ch":[..],"sh":[..],
//! "fr":[..],"p0":..,"p1":..,"r1":[what,tid,rfail,cid,res],"wr":[..]},..]}` (delta-encoded).
//! Spec label ↔ yield point: `wop`/`rop` harness, `wlk`/`lk` MEM_LOCK (the critical section up to
//! MEM_UNLOCKED runs as one atomic step: the std mutex is never held by a parked thread), `ld`
//! BIARC_LOAD, `dsw` BIARC_DROP_SWAP, `fr` BIARC_FREE.
//!
//! Verdict: the call-level predicates on the real history (same monitor as `shm`, in
//! single-context mode: the numbers of a channel's successful seals are 0, 1, 2, ... across
//! contexts, no second live seal context, removal effective, no lost channel).  The tracking
//! allocator's findings on the channel data (touched after free / freed twice / leaked) are
//! C44's predicate: keyed `C44:*`, reported only when the `only` filter admits them.
use std::{
    collections::BTreeMap,
    sync::{Arc, Mutex},
};

use aranya_crypto::{
    afc::{AuthData, OpenKey, RawOpenKey, RawSealKey, SealKey, Seq},
    dangerous::spideroak_crypto::csprng::Random,
    default::DefaultCipherSuite,
    id::IdExt as _,
    policy::LabelId,
    DeviceId, Rng,
};
use aranya_fast_channels::{memory::State, verif::site, AfcState, AranyaState, Directed, Error};
use vrt::{json, Value, J};
use vsched::{alloc, Sched, Status};

use crate::{
    driver::{self, Control, Fail, Outcome},
    hsite,
    shm::{chan_u64, err_class, ev, parse_script, Event, Monitor, ROp, Shared, WOp, PLAINTEXT, VERSION},
};

type CS = DefaultCipherSuite;

const VISIBLE: &[u32] = &[hsite::OP, site::MEM_LOCK, site::BIARC_LOAD, site::BIARC_DROP_SWAP, site::BIARC_FREE];

fn label_site(l: &str) -> Option<u32> {
    Some(match l {
        "wop" | "rop" => hsite::OP,
        "wlk" | "lk" => site::MEM_LOCK,
        "ld" => site::BIARC_LOAD,
        "dsw" => site::BIARC_DROP_SWAP,
        "fr" => site::BIARC_FREE,
        _ => return None,
    })
}

fn matches_pc(st: &Status, pc: &str) -> bool {
    match st {
        Status::Parked { site, .. } => label_site(pc) == Some(*site),
        Status::Done => pc == "Done",
        _ => false,
    }
}

struct Ctl {
    sh: Arc<Mutex<Shared>>,
    state: State<CS>,
    rops: u64,
    rng: vrt::Rng,
    /// mailbox extension: reader r shall drop its context
    drops: Arc<Mutex<Vec<bool>>>,
}

impl Control for Ctl {
    fn thread_of(&self, s: &Value) -> usize {
        let t = s.u("t") as usize;
        if t == 100 { 0 } else { t }
    }
    fn pre_ok(&self, s: &Value, st: &Status) -> bool {
        matches!(st, Status::Parked { site, .. } if label_site(s.s("a")) == Some(*site))
    }
    fn before(&mut self, s: &Value, _sched: &Sched) -> bool {
        if s.s("a") == "rop" {
            let t = self.thread_of(s);
            let rd = s.g(&format!("r{t}"));
            let mut sh = self.sh.lock().unwrap();
            match rd[0].as_str() {
                Some("setup") => sh.mailbox[t] = Some(ROp::Setup(rd[1].as_u64().unwrap_or(0))),
                Some("drop") => {
                    sh.mailbox[t] = Some(ROp::Use(false));
                    self.drops.lock().unwrap()[t] = true;
                }
                _ => sh.mailbox[t] = Some(ROp::Use(rd[2].as_bool().unwrap_or(false))),
            }
        }
        false
    }
    fn on_release(&mut self, tid: usize, st: &Status) -> Option<Fail> {
        if let Status::Parked { site: s, a, .. } = st {
            if tid >= 1 && *s == hsite::OP {
                let mut sh = self.sh.lock().unwrap();
                if sh.mailbox[tid].is_none() {
                    let kind = sh.rctx[tid - 1].0.clone();
                    let ever: Vec<u64> = sh.mon.ever.iter().copied().collect();
                    let op = if sh.rcalls[tid - 1] >= self.rops {
                        ROp::Stop
                    } else if kind == "seal" {
                        if self.rng.chance(1, 4) {
                            self.drops.lock().unwrap()[tid] = true;
                        }
                        ROp::Use(self.rng.chance(1, 4))
                    } else if !ever.is_empty() {
                        ROp::Setup(*self.rng.pick(&ever))
                    } else {
                        ROp::Stop
                    };
                    sh.mailbox[tid] = Some(op);
                }
            } else if *s < 128 && *a != 0 && alloc::is_freed(*a) {
                // memory safety of the channel data is C44's predicate (reported when `only` allows)
                let mut sh = self.sh.lock().unwrap();
                sh.mon.flag("C44:use-after-free", format!("thread {tid} is about to access channel data at site {s} after it was freed"));
                return sh.mon.fail.clone();
            }
        }
        None
    }
    fn compare(&mut self, s: &Value, sched: &Sched) -> Option<String> {
        let sts = sched.statuses();
        for (i, st) in sts.iter().enumerate() {
            let pc = s.get(format!("p{i}")).and_then(Value::as_str).unwrap_or("?");
            if !matches_pc(st, pc) {
                return Some(format!("thread {i} is {st:?} but spec pc is {pc}"));
            }
        }
        let sh = self.sh.lock().unwrap();
        // the channel map, through the public API
        let want: Vec<u64> = s.a("ch").iter().filter_map(Value::as_u64).collect();
        for (n, id) in &sh.ids {
            let there = AranyaState::exists(&self.state, *id).unwrap_or(false);
            if there != want.contains(n) {
                return Some(format!("channel {n} exists={there} but spec has {want:?}"));
            }
        }
        let freed: u64 = s.g("fr").as_object().map(|m| m.values().filter_map(Value::as_u64).sum()).unwrap_or(0);
        let r = alloc::report();
        if r.freed_marked as u64 != freed {
            return Some(format!("allocator saw {} frees of channel data, spec {}", r.freed_marked, freed));
        }
        let wres: Vec<&str> = s.a("wr").iter().filter_map(Value::as_str).collect();
        if wres.len() != sh.wres.len() {
            return Some(format!("writer results are {:?} but spec has {:?}", sh.wres, wres));
        }
        for r in 0..sh.rctx.len() {
            let rd = s.g(&format!("r{}", r + 1));
            let res = rd[4].as_str().unwrap_or("none");
            let pc = s.get(format!("p{}", r + 1)).and_then(Value::as_str).unwrap_or("?");
            if (pc == "rop" || pc == "Done") && res != "none" && sh.rctx[r].2 != res {
                return Some(format!("reader {} last result is {} but spec has {}", r + 1, sh.rctx[r].2, res));
            }
        }
        None
    }
    fn monitor(&mut self, _sched: &Sched) -> Option<Fail> {
        let r = alloc::report();
        let mut sh = self.sh.lock().unwrap();
        if r.double_free > 0 {
            sh.mon.flag("C44:double-free", format!("channel data freed twice ({r:?})"));
        }
        sh.mon.fail.clone()
    }
    fn finish(&mut self, sched: &Sched) -> Option<Fail> {
        if let Some(f) = self.monitor(sched) {
            return Some(f);
        }
        let sts = sched.statuses();
        let mut sh = self.sh.lock().unwrap();
        if let Some(i) = sts.iter().position(|s| matches!(s, Status::Panicked(_))) {
            sh.mon.flag("C41:panic", format!("thread {i} panicked: {:?}", sts[i]));
        }
        if !sts.iter().all(|s| s.is_finished()) {
            sh.mon.flag("C41:stuck", format!("threads cannot finish: {sts:?}"));
        }
        sh.mon.fail.clone()
    }
}

pub fn run(args: &vrt::Args) {
    let mut out = args.out();
    let trace_path = args.opts.get("trace").cloned();
    let only = args.opt_str("only", "");
    let trace_max = args.opt_u64("trace_max", u64::MAX);
    let mut trace: Vec<Value> = Vec::new();
    for (i, b) in args.read_input().iter().enumerate() {
        let mut rng = vrt::Rng::new(args.seed.wrapping_mul(0x1000).wrapping_add(i as u64));
        let (o, events) = replay(b, &mut rng, &only);
        if trace_path.is_some() && (i as u64) < trace_max {
            trace.push(json!({"ev": "reset", "i": i, "cap": 0, "readers": b.u("readers"), "single": true}));
            trace.extend(events.iter().map(Event::to_json));
        }
        let evs: Vec<Value> = if o.fail.is_some() { events.iter().map(Event::to_json).collect() } else { Vec::new() };
        out.emit(o.to_json(i, json!({"events": evs, "nevents": events.len()})));
    }
    if let Some(p) = trace_path {
        let mut f = std::io::BufWriter::new(std::fs::File::create(&p).unwrap_or_else(|e| vrt::die(&format!("create {p}: {e}"))));
        use std::io::Write as _;
        for e in trace {
            let _ = writeln!(f, "{e}");
        }
    }
    out.finish();
}

fn replay(b: &Value, rng: &mut vrt::Rng, only: &str) -> (Outcome, Vec<Event>) {
    let nreaders = b.u("readers") as usize;
    let rops = b.u("rops");
    let script = parse_script(b.g("script"));
    alloc::reset();
    let state: State<CS> = State::new();
    let sched = Sched::new();
    sched.set_visible(VISIBLE);
    sched.set_atomic_section(site::MEM_LOCK, site::MEM_UNLOCKED);
    let sh = Arc::new(Mutex::new(Shared {
        mon: Monitor { cap: 0, only: only.to_string(), single: true, ..Monitor::default() },
        mailbox: vec![None; nreaders + 1],
        keys: BTreeMap::new(),
        ids: BTreeMap::new(),
        rctx: vec![("none".to_string(), 0, "none".to_string()); nreaders],
        rcalls: vec![0; nreaders],
        wres: Vec::new(),
    }));
    let drops = Arc::new(Mutex::new(vec![false; nreaders + 1]));
    {
        let sh = Arc::clone(&sh);
        let st = state.clone();
        let script = script.clone();
        sched.spawn(move || {
            for op in &script {
                vsched::point(hsite::OP, 0, 0);
                let table = sh.lock().unwrap().mon.table.clone();
                let targets: Vec<u64> = op.targets(&table).into_iter().collect();
                ev(&sh, 0, false, op.name(), 0, "", -1, targets.clone());
                let (res, id) = match op {
                    WOp::Add => {
                        let raw = RawSealKey::<CS>::random(Rng);
                        let label = LabelId::random(Rng);
                        let key = SealKey::<CS>::from_raw(&raw, Seq::ZERO).expect("seal key");
                        // the channel's data is the tracked allocation
                        let r = alloc::track(|| st.add(Directed::SealOnly { seal: key }, label, DeviceId::random(Rng)));
                        match r {
                            Ok(id) => {
                                let n = chan_u64(id);
                                let mut g = sh.lock().unwrap();
                                g.keys.insert(n, (raw, label));
                                g.ids.insert(n, id);
                                ("ok".to_string(), n)
                            }
                            Err(e) => (format!("err:{e}"), 0),
                        }
                    }
                    WOp::Rm(i) => {
                        let id = sh.lock().unwrap().ids.get(i).copied();
                        let r = match id {
                            Some(id) => st.remove(id),
                            None => st.remove_if(|p| chan_u64(p.local_channel_id) == *i),
                        };
                        (r.map(|()| "ok".to_string()).unwrap_or_else(|e| format!("err:{e}")), *i)
                    }
                    WOp::RmIf(s) => {
                        let r = st.remove_if(|p| s.contains(&chan_u64(p.local_channel_id)));
                        (r.map(|()| "ok".to_string()).unwrap_or_else(|e| format!("err:{e}")), 0)
                    }
                    WOp::Clear => (st.remove_all().map(|()| "ok".to_string()).unwrap_or_else(|e| format!("err:{e}")), 0),
                };
                sh.lock().unwrap().wres.push(res.clone());
                ev(&sh, 0, true, op.name(), id, &res, -1, targets);
            }
        });
    }
    for r in 1..=nreaders {
        let sh = Arc::clone(&sh);
        let st = state.clone();
        let drops = Arc::clone(&drops);
        sched.spawn(move || {
            let mut sctx: Option<<State<CS> as AfcState>::SealCtx> = None;
            loop {
                if sh.lock().unwrap().rcalls[r - 1] >= rops {
                    break;
                }
                vsched::point(hsite::OP, r, 0);
                let op = sh.lock().unwrap().mailbox[r].take().unwrap_or(ROp::Stop);
                sh.lock().unwrap().rcalls[r - 1] += 1;
                let dropit = std::mem::replace(&mut drops.lock().unwrap()[r], false);
                match op {
                    ROp::Stop => break,
                    ROp::Setup(n) => {
                        let Some(id) = sh.lock().unwrap().ids.get(&n).copied() else { break };
                        ev(&sh, r, false, "setup", n, "", -1, vec![]);
                        let res = match st.setup_seal_ctx(id) {
                            Ok(c) => {
                                sctx = Some(c);
                                "ok".to_string()
                            }
                            Err(e) => err_class(&e),
                        };
                        {
                            let mut g = sh.lock().unwrap();
                            g.rctx[r - 1] = (if res == "ok" { "seal" } else { "none" }.to_string(), n, res.clone());
                        }
                        ev(&sh, r, true, "setup", n, &res, -1, vec![]);
                    }
                    ROp::Use(_) if dropit => {
                        {
                            let mut g = sh.lock().unwrap();
                            g.rctx[r - 1].0 = "none".to_string();
                            g.rctx[r - 1].2 = "ok".to_string();
                        }
                        sctx = None;
                        // (recorded when the loan is gone)
                        ev(&sh, r, false, "drop", 0, "", -1, vec![]);
                    }
                    ROp::Use(fail) => {
                        let n = sh.lock().unwrap().rctx[r - 1].1;
                        let Some(ctx) = sctx.as_mut() else { break };
                        ev(&sh, r, false, "seal", n, "", -1, vec![]);
                        let mut dst = vec![0u8; PLAINTEXT.len() + SealKey::<CS>::OVERHEAD];
                        let mut label_seen = None;
                        let r0 = st.seal(ctx, |key: &mut SealKey<CS>, label: LabelId| -> Result<Seq, Error> {
                            label_seen = Some(label);
                            let ad = AuthData { version: VERSION, label_id: label };
                            let out = if fail { &mut dst[..4] } else { &mut dst[..] };
                            key.seal(out, PLAINTEXT, &ad).map_err(Into::into)
                        });
                        let (res, seq) = match r0 {
                            Ok(Ok(seq)) => ("ok".to_string(), seq.to_u64() as i64),
                            Ok(Err(_)) => ("fail".to_string(), -1),
                            Err(e) => (err_class(&e), -1),
                        };
                        if res == "ok" {
                            let known = sh.lock().unwrap().keys.get(&n).map(|(raw, label)| (raw.clone(), *label));
                            if let Some((raw, label)) = known {
                                let ok = OpenKey::<CS>::from_raw(&RawOpenKey { key: raw.key.clone(), base_nonce: raw.base_nonce.clone() })
                                    .ok()
                                    .and_then(|k| {
                                        let mut pt = vec![0u8; PLAINTEXT.len()];
                                        let ad = AuthData { version: VERSION, label_id: label };
                                        k.open(&mut pt, &dst, &ad, Seq::new(seq as u64)).ok().map(|()| pt == PLAINTEXT)
                                    })
                                    .unwrap_or(false);
                                if !ok || label_seen != Some(label) {
                                    sh.lock().unwrap().mon.flag(
                                        "C40:wrong-key",
                                        format!("reader {r}: the message sealed for channel {n} does not open with that channel's key at sequence number {seq}"),
                                    );
                                }
                            }
                        }
                        sh.lock().unwrap().rctx[r - 1].2 = res.clone();
                        ev(&sh, r, true, "seal", n, &res, seq, vec![]);
                    }
                }
            }
            // thread end: a context still held is dropped
            if sctx.is_some() {
                drop(sctx);
                ev(&sh, r, false, "drop", 0, "", -1, vec![]);
            }
        });
    }
    let mut ctl = Ctl { sh: Arc::clone(&sh), state: state.clone(), rops, rng: rng.clone(), drops };
    let o = driver::run(&sched, b.a("steps"), &mut ctl, rng, 100_000);
    drop(sched);
    drop(ctl);
    drop(state);
    let rep = alloc::reset();
    let mut o = o;
    if o.fail.is_none() && rep.live_marked > 0 && (only.is_empty() || only == "C44") {
        o.fail = Some(("C44:leak".into(), format!("channel data still allocated after the state and every context are gone ({rep:?})")));
    }
    let events = std::mem::take(&mut sh.lock().unwrap().mon.events);
    (o, events)
}
