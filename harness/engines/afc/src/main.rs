//! `vh-afc` — SCHED binding (DESIGN §2.1) for the fast-channel properties C33, C40–C44:
//! real OS threads under the cooperative yield-point scheduler `vsched` replay schedules that
//! TLC generated from the fine-grained specs (ShmMutex, BiArc, ArcStr, AfcShm, AfcMem).
mod arcstr;
mod biarc;
mod driver;
mod mem;
mod mutex;
mod shm;

#[global_allocator]
static ALLOC: vsched::alloc::TrackAlloc = vsched::alloc::TrackAlloc;

/// Harness-level yield points (>= 128; the code under test uses < 128).
pub mod hsite {
    pub const CS_ENTER: u32 = 128;
    pub const CS_EXIT: u32 = 129;
    /// The thread picks its next operation (the controller put it into the thread's mailbox).
    pub const OP: u32 = 130;
    /// The thread reads shared data (`a` = address it reads).
    pub const READ: u32 = 131;
    /// A loan thread waits for its loan.
    pub const LOAN_WAIT: u32 = 132;
    /// A loan thread starts / stops using the borrowed data.
    pub const USE: u32 = 133;
    pub const USED: u32 = 134;
}

pub fn install_hooks() {
    aranya_fast_channels::verif::set_point_hook(Some(vsched::hook_point));
    aranya_fast_channels::verif::set_futex_hook(Some(vsched::hook_futex));
    aranya_policy_text::verif::set_point_hook(Some(vsched::hook_point));
}

fn main() {
    let args = vrt::Args::parse();
    vsched::quiet_panics();
    install_hooks();
    vsched::start_watchdog(60);
    match args.sub.as_str() {
        "mutex" => mutex::run(&args),
        "arcstr" => arcstr::run(&args),
        "biarc" => biarc::run(&args),
        "shm" => shm::run(&args),
        "mem" => mem::run(&args),
        s => vrt::die(&format!("unknown subcommand {s}")),
    }
}
