//! Schedule driver shared by all `vh-afc` sub-commands (DESIGN §2.1 SCHED).
//!
//! A schedule is the list of steps of a TLC behaviour; every step names the spec action, the
//! thread that takes it and the spec's state after it.  The driver *follows* the schedule while
//! the real threads are where the spec says they are, comparing the projected state after
//! every step; at the first difference it records `drift` and continues with a seeded fair
//! choice among the threads that can run (no spurious wake-ups) until nothing can run any more.
//! The verdict never comes from the comparison, only from the property monitor (`Control::
//! monitor` after every step, `Control::finish` at quiescence) — DESIGN §2.2.
use std::rc::Rc;

use vrt::{json, Value};
use vsched::{Sched, Status};

/// A failed property predicate: (stable class key, message).
pub type Fail = (String, String);

/// What a sub-command tells the driver about its spec and its monitor.
pub trait Control {
    /// 0-based thread that takes `step`.
    fn thread_of(&self, step: &Value) -> usize;
    /// Is the real thread about to do what the spec's step says (its site = the step's label)?
    fn pre_ok(&self, step: &Value, st: &Status) -> bool;
    /// Called before the step is released; returns true when the step is a spurious wake-up.
    fn before(&mut self, _step: &Value, _sched: &Sched) -> bool {
        false
    }
    /// Called after the step; `None` = the projected real state equals the spec's.
    fn compare(&mut self, step: &Value, sched: &Sched) -> Option<String>;
    /// Property monitor, evaluated after every step (follow and free run).
    fn monitor(&mut self, sched: &Sched) -> Option<Fail>;
    /// Free run: may `tid` be released now?  (Harness-level waits, locks.)
    fn enabled(&self, _tid: usize, _st: &Status, _sched: &Sched) -> bool {
        true
    }
    /// Called before any release (follow and free run) of `tid` — e.g. use-after-free check of
    /// the address the thread is about to touch.
    fn on_release(&mut self, _tid: usize, _st: &Status) -> Option<Fail> {
        None
    }
    /// Quiescence: no thread can run.  Lost wake-ups, leaks, final-state predicates.
    fn finish(&mut self, sched: &Sched) -> Option<Fail>;
}

pub struct Outcome {
    pub fail: Option<Fail>,
    pub step: i64,
    pub drift: u64,
    pub steps: u64,
    pub drift_at: i64,
    pub drift_why: String,
    pub final_status: String,
}

impl Outcome {
    pub fn to_json(&self, i: usize, extra: Value) -> Value {
        let (key, msg) = self.fail.clone().unwrap_or_default();
        json!({"i": i, "ok": self.fail.is_none(), "step": if self.fail.is_some() { self.step } else { -1 },
               "key": key, "msg": msg, "drift": self.drift, "steps": self.steps,
               "obs": {"drift_at": self.drift_at, "drift_why": self.drift_why, "final": self.final_status,
                       "extra": extra}})
    }
}

/// Runs one schedule.  `max_free` bounds the free run (a tool error beyond it).
pub fn run(sched: &Rc<Sched>, steps: &[Value], ctl: &mut dyn Control, rng: &mut vrt::Rng, max_free: u64) -> Outcome {
    let mut o = Outcome {
        fail: None,
        step: -1,
        drift: 0,
        steps: 0,
        drift_at: -1,
        drift_why: String::new(),
        final_status: String::new(),
    };
    let n = sched.statuses().len();
    // the watchdog (vsched::start_watchdog) only watches while a schedule is being executed
    vsched::BUSY.store(true, std::sync::atomic::Ordering::Relaxed);
    // steps may be delta-encoded (only the keys that changed): accumulate the spec's state
    let mut cur = vrt::Map::new();
    for (k, s) in steps.iter().enumerate() {
        if let Some(m) = s.as_object() {
            for (key, v) in m {
                cur.insert(key.clone(), v.clone());
            }
        }
        let merged = Value::Object(cur.clone());
        let s = &merged;
        let t = ctl.thread_of(s);
        let st = if t < n { sched.status(t) } else { Status::Fresh };
        if t >= n
            || !ctl.pre_ok(s, &st)
            || !(sched.runnable(t) || matches!(st, Status::Sleeping { .. }))
            || !ctl.enabled(t, &st, sched)
        {
            o.drift += 1;
            o.drift_at = k as i64;
            o.drift_why = format!("spec step {} of thread {} but the thread is {:?}", s.get("a").unwrap_or(&Value::Null), t, st);
            break;
        }
        let spurious = ctl.before(s, sched);
        if let Some(f) = ctl.on_release(t, &st) {
            o.fail = Some(f);
            o.step = k as i64;
            break;
        }
        if let Err(e) = sched.step(t, spurious) {
            o.drift += 1;
            o.drift_at = k as i64;
            o.drift_why = format!("{e:?}");
            break;
        }
        o.steps += 1;
        if let Some(f) = ctl.monitor(sched) {
            o.fail = Some(f);
            o.step = k as i64;
            break;
        }
        if let Some(why) = ctl.compare(s, sched) {
            o.drift += 1;
            o.drift_at = k as i64;
            o.drift_why = why;
            break;
        }
    }
    // free run: after drift, or to complete a schedule that ended before the threads did
    if o.fail.is_none() {
        let mut guard = 0u64;
        loop {
            let sts = sched.statuses();
            let runnable: Vec<usize> = (0..n)
                .filter(|&i| sched.runnable(i) && ctl.enabled(i, &sts[i], sched))
                .collect();
            if runnable.is_empty() {
                if let Some(f) = ctl.finish(sched) {
                    o.fail = Some(f);
                    o.step = o.steps as i64;
                }
                break;
            }
            let t = *rng.pick(&runnable);
            if let Some(f) = ctl.on_release(t, &sts[t]) {
                o.fail = Some(f);
                o.step = o.steps as i64;
                break;
            }
            if sched.step(t, false).is_err() {
                vrt::die("driver: runnable thread could not be stepped");
            }
            o.steps += 1;
            if let Some(f) = ctl.monitor(sched) {
                o.fail = Some(f);
                o.step = o.steps as i64;
                break;
            }
            guard += 1;
            if guard > max_free {
                vrt::die(&format!("free run did not reach quiescence within {max_free} steps"));
            }
        }
    }
    o.final_status = format!("{:?}", sched.statuses());
    sched.abort_and_join();
    vsched::BUSY.store(false, std::sync::atomic::Ordering::Relaxed);
    o
}
