//! C33 — replay of `ArcStr` schedules on real heap-backed `aranya_policy_text::Text` values.
//!
//! Behaviour: `{"threads":N,"owners":[..],"steps":[{"a":label,"t":tid,"count":c,"freed":f,"pc":[..],
//! "held":[..],"bor":[..]},..]}`.  Owner threads start with one handle; the other threads start
//! with a shared reference to the first owner's handle (clone/read through `&Text`, so several
//! threads can clone the same handle — also a unique one — at once) until they give it back.
//! Spec label ↔ yield point: `op` harness (the thread picks clone/read/drop; the choice is read
//! off the spec's next pc), `inc` ARC_FETCH_ADD, `rd` harness read of `as_str()`, `dec`
//! ARC_FETCH_SUB, `fence` ARC_FENCE, `free` ARC_DEALLOC.
//!
//! Verdict (the property's own predicate, DESIGN §2.2) from the tracking allocator and the reads:
//! an access (yield point address) inside a freed block or text that no longer reads back =
//! use after free; a second free = double free; a tracked block alive at the end = leak.
use std::sync::{Arc, Mutex};

use aranya_policy_text::{verif::site, Text};
use vrt::{json, Value, J};
use vsched::{alloc, Sched, Status};

use crate::{
    driver::{self, Control, Fail, Outcome},
    hsite,
};

const VISIBLE: &[u32] = &[
    site::ARC_FETCH_ADD,
    site::ARC_FETCH_SUB,
    site::ARC_FENCE,
    site::ARC_DEALLOC,
    hsite::OP,
    hsite::READ,
];

/// Longer than the inline representation (22 bytes) so the text lives on the heap.
const CONTENT: &str = "shared-heap-text:0123456789abcdefghijklmnopqrstuvwxyz";

#[derive(Clone, Copy, PartialEq, Debug)]
enum Op {
    Clone,
    Read,
    Drop,
    /// give the shared reference to the lender's handle back
    EndBorrow,
}

/// The lender's first handle, at a stable address so that other threads can hold `&Text` to it.
struct LentCell(std::cell::UnsafeCell<Option<Text>>);
// SAFETY: all test threads are coroutines of one OS thread; the scheduler serialises them.
unsafe impl Send for LentCell {}
// SAFETY: as above.
unsafe impl Sync for LentCell {}

fn label_site(l: &str) -> Option<u32> {
    Some(match l {
        "op" => hsite::OP,
        "inc" => site::ARC_FETCH_ADD,
        "rd" => hsite::READ,
        "dec" => site::ARC_FETCH_SUB,
        "fence" => site::ARC_FENCE,
        "free" => site::ARC_DEALLOC,
        _ => return None,
    })
}

fn matches_pc(st: &Status, pc: &str) -> bool {
    match st {
        Status::Parked { site, .. } => label_site(pc) == Some(*site),
        Status::Done => pc == "Done",
        _ => false,
    }
}

struct Shared {
    mailbox: Vec<Option<Op>>,
    held: Vec<usize>,
    borrowing: Vec<bool>,
    lender: usize,
    clones: Vec<u64>,
    reads: Vec<u64>,
    bad_read: Option<String>,
}

struct Ctl {
    sh: Arc<Mutex<Shared>>,
    max_clones: u64,
    max_reads: u64,
    rng: vrt::Rng,
}

fn allowed(sh: &Shared, tid: usize, max_clones: u64, max_reads: u64) -> Vec<Op> {
    let mut ops = Vec::new();
    let has = sh.held[tid] > 0 || sh.borrowing[tid];
    let lent = sh.borrowing.iter().any(|b| *b);
    if sh.held[tid] > 0 && !(tid == sh.lender && sh.held[tid] == 1 && lent) {
        ops.push(Op::Drop);
    }
    if has && sh.clones[tid] < max_clones {
        ops.push(Op::Clone);
    }
    if has && sh.reads[tid] < max_reads {
        ops.push(Op::Read);
    }
    if sh.borrowing[tid] {
        ops.push(Op::EndBorrow);
    }
    ops
}

impl Ctl {
    fn alloc_fail(&self) -> Option<Fail> {
        let r = alloc::report();
        if r.double_free > 0 {
            return Some(("C33:double-free".into(), format!("the text allocation was freed twice ({r:?})")));
        }
        if let Some(m) = self.sh.lock().unwrap().bad_read.clone() {
            return Some(("C33:use-after-free".into(), m));
        }
        None
    }
}

impl Control for Ctl {
    fn thread_of(&self, s: &Value) -> usize {
        (s.u("t") as usize).wrapping_sub(1)
    }
    fn pre_ok(&self, s: &Value, st: &Status) -> bool {
        matches!(st, Status::Parked { site, .. } if label_site(s.s("a")) == Some(*site))
    }
    fn before(&mut self, s: &Value, _sched: &Sched) -> bool {
        if s.s("a") == "op" {
            let t = self.thread_of(s);
            // the operation the spec chose shows in the thread's next pc
            let op = match s.a("pc")[t].as_str() {
                Some("inc") => Op::Clone,
                Some("rd") => Op::Read,
                Some("dec") => Op::Drop,
                _ => Op::EndBorrow,
            };
            self.sh.lock().unwrap().mailbox[t] = Some(op);
        }
        false
    }
    fn enabled(&self, tid: usize, st: &Status, _sched: &Sched) -> bool {
        match st {
            Status::Parked { site, .. } if *site == hsite::OP => {
                let sh = self.sh.lock().unwrap();
                sh.mailbox[tid].is_some() || !allowed(&sh, tid, self.max_clones, self.max_reads).is_empty()
            }
            _ => true,
        }
    }
    fn on_release(&mut self, tid: usize, st: &Status) -> Option<Fail> {
        if let Status::Parked { site: s, a, .. } = st {
            if *s == hsite::OP {
                // free run: seeded choice among the operations the bounds allow
                let mut sh = self.sh.lock().unwrap();
                if sh.mailbox[tid].is_none() {
                    let ops = allowed(&sh, tid, self.max_clones, self.max_reads);
                    let op = if ops.is_empty() { Op::EndBorrow } else { *self.rng.pick(&ops) };
                    sh.mailbox[tid] = Some(op);
                }
            } else if *s == site::ARC_FETCH_SUB {
                // the handle is gone as soon as the count is decremented
                let mut sh = self.sh.lock().unwrap();
                sh.held[tid] = sh.held[tid].saturating_sub(1);
            }
            if *s != hsite::OP && *a != 0 && alloc::is_freed(*a) {
                return Some((
                    "C33:use-after-free".into(),
                    format!("thread {} is about to access the text allocation at site {} after it was freed", tid + 1, s),
                ));
            }
        }
        None
    }
    fn compare(&mut self, s: &Value, sched: &Sched) -> Option<String> {
        let sts = sched.statuses();
        for (i, pc) in s.a("pc").iter().enumerate() {
            let pc = pc.as_str().unwrap_or("?");
            if !matches_pc(&sts[i], pc) {
                return Some(format!("thread {} is {:?} but spec pc is {pc}", i + 1, sts[i]));
            }
        }
        let sh = self.sh.lock().unwrap();
        for (i, h) in s.a("held").iter().enumerate() {
            if h.as_u64() != Some(sh.held[i] as u64) {
                return Some(format!("thread {} holds {} handles, spec {}", i + 1, sh.held[i], h));
            }
        }
        if let Some(b) = s.get("bor").and_then(Value::as_array) {
            for (i, v) in b.iter().enumerate() {
                if v.as_bool() != Some(sh.borrowing[i]) {
                    return Some(format!("thread {} borrowing={} but spec has {}", i + 1, sh.borrowing[i], v));
                }
            }
        }
        let r = alloc::report();
        if r.freed as u64 != s.u("freed") {
            return Some(format!("allocator saw {} frees, spec {}", r.freed, s.u("freed")));
        }
        None
    }
    fn monitor(&mut self, _sched: &Sched) -> Option<Fail> {
        self.alloc_fail()
    }
    fn finish(&mut self, sched: &Sched) -> Option<Fail> {
        if let Some(f) = self.alloc_fail() {
            return Some(f);
        }
        let sts = sched.statuses();
        if let Some(i) = sts.iter().position(|s| matches!(s, Status::Panicked(_))) {
            return Some(("C33:panic".into(), format!("thread {} panicked: {:?}", i + 1, sts[i])));
        }
        let r = alloc::report();
        if sts.iter().all(|s| matches!(s, Status::Done)) && r.live > 0 {
            return Some((
                "C33:leak".into(),
                format!("all handles are dropped but the text allocation is still live ({r:?})"),
            ));
        }
        None
    }
}

pub fn run(args: &vrt::Args) {
    let mut out = args.out();
    let selftest = args.opt_str("selftest", "");
    for (i, b) in args.read_input().iter().enumerate() {
        let rng = vrt::Rng::new(args.seed.wrapping_mul(0x1000).wrapping_add(i as u64));
        let (o, rep) = replay(b, rng, &selftest);
        out.emit(o.to_json(i, json!({"alloc": format!("{rep:?}")})));
    }
    out.finish();
}

/// Free-running race (`{"race":"mix","threads":N,"rounds":R,"ms":T}`): N real, unscheduled
/// threads, each owning one handle of the same heap text, are released together from a spin
/// barrier and clone their handle, read the clone, drop it and drop their own handle.  The
/// hardware interleaves the single accesses, which reaches interleavings inside a
/// read-modify-write of the count that was split into separate accesses (the SCHED replay
/// preempts only at yield points, DESIGN §9).  Oracle: the tracking allocator (freed exactly
/// once after the last handle is gone) and the reads.
fn race(b: &Value, selftest: &str) -> (Outcome, alloc::Report) {
    use std::sync::atomic::{AtomicBool, AtomicUsize, Ordering::SeqCst};
    let n = b.u("threads") as usize;
    let rounds = b.u("rounds");
    let t_end = std::time::Instant::now() + std::time::Duration::from_millis(b.u("ms"));
    let mut o = Outcome { fail: None, step: -1, drift: 0, steps: 0, drift_at: -1, drift_why: String::new(), final_status: String::new() };
    let mut last = alloc::reset();
    let mut r = 0u64;
    while r < rounds && std::time::Instant::now() < t_end {
        let first: Text = alloc::track(|| CONTENT.parse().expect("valid text"));
        let mut hs: Vec<Text> = (1..n).map(|_| first.clone()).collect();
        hs.push(first);
        let bar = AtomicUsize::new(0);
        let bad = AtomicBool::new(false);
        std::thread::scope(|sc| {
            for (k, h) in hs.drain(..).enumerate() {
                let (bar, bad) = (&bar, &bad);
                let forget = selftest == "forget" && k == 0;
                let jit = ((r / 5u64.pow(k as u32)) % 5) * 4;
                sc.spawn(move || {
                    bar.fetch_add(1, SeqCst);
                    while bar.load(SeqCst) < n {
                        std::hint::spin_loop();
                    }
                    for _ in 0..jit {
                        std::hint::spin_loop();
                    }
                    let c = h.clone();
                    if c.as_str() != CONTENT {
                        bad.store(true, SeqCst);
                    }
                    drop(c);
                    if h.as_str() != CONTENT {
                        bad.store(true, SeqCst);
                    }
                    if forget { std::mem::forget(h) } else { drop(h) }
                });
            }
        });
        r += 1;
        o.steps = r;
        last = alloc::reset();
        let fail: Option<Fail> = if last.double_free > 0 {
            Some(("C33:double-free".into(), format!("race round {}: the text allocation was freed twice ({last:?})", r - 1)))
        } else if bad.load(SeqCst) {
            Some(("C33:use-after-free".into(), format!("race round {}: a live handle no longer reads its text back", r - 1)))
        } else if last.live > 0 {
            Some(("C33:leak".into(), format!("race round {}: every handle is dropped but the allocation is still live ({last:?})", r - 1)))
        } else {
            None
        };
        if fail.is_some() {
            o.fail = fail;
            o.step = r as i64 - 1;
            break;
        }
    }
    o.final_status = format!("race mix x{n}: {r} rounds");
    (o, last)
}

fn replay(b: &Value, mut rng: vrt::Rng, selftest: &str) -> (Outcome, alloc::Report) {
    if b.get("race").is_some() {
        return race(b, selftest);
    }
    let n = b.u("threads") as usize;
    let max_clones = b.get("max_clones").and_then(Value::as_u64).unwrap_or(1);
    let max_reads = b.get("max_reads").and_then(Value::as_u64).unwrap_or(1);
    alloc::reset();
    let sched = Sched::new();
    sched.set_visible(VISIBLE);
    // one heap allocation; one handle per owner thread (made here, outside the schedule); the
    // first owner's handle lives in a cell the borrower threads hold a shared reference to
    let owners: Vec<usize> = match b.get("owners").and_then(Value::as_array) {
        Some(a) => a.iter().filter_map(Value::as_u64).map(|x| x as usize - 1).collect(),
        None => (0..n).collect(),
    };
    let lender = owners.iter().copied().min().unwrap_or(0);
    let first: Text = alloc::track(|| CONTENT.parse().expect("valid text"));
    let mut own: Vec<Option<Text>> = (0..n).map(|i| if owners.contains(&i) && i != lender { Some(first.clone()) } else { None }).collect();
    let lent = Arc::new(LentCell(std::cell::UnsafeCell::new(Some(first))));
    let sh = Arc::new(Mutex::new(Shared {
        mailbox: vec![None; n],
        held: (0..n).map(|i| usize::from(owners.contains(&i))).collect(),
        borrowing: (0..n).map(|i| !owners.contains(&i)).collect(),
        lender,
        clones: vec![0; n],
        reads: vec![0; n],
        bad_read: None,
    }));
    // self-test "forget": thread 1 forgets a handle instead of dropping it — a leak must be reported;
    // self-test "extradrop": thread 1 drops one handle twice — a double free / UAF must be reported
    let forget = selftest == "forget";
    let extradrop = selftest == "extradrop";
    for tid in 0..n {
        let sh = Arc::clone(&sh);
        let lent = Arc::clone(&lent);
        let mut mine: Vec<Text> = own[tid].take().into_iter().collect();
        sched.spawn(move || {
            // the handle a clone/read goes through: the borrowed one while borrowing (also for the
            // lender itself when it has no other), else the newest own handle
            loop {
                {
                    let g = sh.lock().unwrap();
                    if g.held[tid] == 0 && !g.borrowing[tid] {
                        break;
                    }
                }
                vsched::point(hsite::OP, tid, 0);
                let op = sh.lock().unwrap().mailbox[tid].take().unwrap_or(Op::EndBorrow);
                let via_lent = mine.is_empty();
                // SAFETY: the cell holds the lender's handle as long as the lender owns it or somebody
                // borrows it (the lender cannot drop it while it is lent); single OS thread.
                let lent_ref = || unsafe { (*lent.0.get()).as_ref() };
                match op {
                    Op::EndBorrow => {
                        sh.lock().unwrap().borrowing[tid] = false;
                    }
                    Op::Clone => {
                        let c = if via_lent { lent_ref().map(Text::clone) } else { Some(mine[mine.len() - 1].clone()) };
                        let Some(c) = c else { break };
                        mine.push(c);
                        let mut g = sh.lock().unwrap();
                        g.held[tid] += 1;
                        g.clones[tid] += 1;
                    }
                    Op::Read => {
                        let t = if via_lent { lent_ref() } else { Some(&mine[mine.len() - 1]) };
                        let Some(t) = t else { break };
                        vsched::point(hsite::READ, t.as_str().as_ptr() as usize, 0);
                        let ok = t.as_str().as_bytes() == CONTENT.as_bytes();
                        let mut g = sh.lock().unwrap();
                        g.reads[tid] += 1;
                        if !ok {
                            g.bad_read = Some(format!("thread {} read {:?} through as_str() instead of the text", tid + 1,
                                                      &t.as_str().as_bytes()[..8]));
                        }
                    }
                    Op::Drop => {
                        // the lender's own first handle sits in the cell and goes last
                        let t = match mine.pop() {
                            Some(t) => t,
                            // SAFETY: as above; nobody borrows it any more (spec guard / controller)
                            None => match unsafe { (*lent.0.get()).take() } {
                                Some(t) => t,
                                None => break,
                            },
                        };
                        // (the controller counts the handle as gone when it releases the fetch_sub)
                        if forget && tid == 0 {
                            std::mem::forget(t);
                        } else if extradrop && tid == 0 {
                            // SAFETY: deliberately wrong (binding self-test): duplicates the handle.
                            let dup: Text = unsafe { std::ptr::read(&t) };
                            drop(t);
                            drop(dup);
                        } else {
                            drop(t);
                        }
                    }
                }
            }
        });
    }
    let mut ctl = Ctl { sh, max_clones, max_reads, rng: rng.clone() };
    let o = driver::run(&sched, b.a("steps"), &mut ctl, &mut rng, 10_000);
    drop(sched);
    // a handle left in the cell (the run ended early) must not be dropped after the allocator
    // has handed the tracked block back: it is part of the leak verdict, forget it
    // SAFETY: no test thread runs any more.
    if let Some(t) = unsafe { (*lent.0.get()).take() } {
        std::mem::forget(t);
    }
    let rep = alloc::reset();
    (o, rep)
}
