//! C33 — replay of `ArcStr` schedules on real heap-backed `aranya_policy_text::Text` values.
//!
//! Behaviour: `{"threads":N,"steps":[{"a":label,"t":tid,"count":c,"freed":f,"pc":[..],"held":[..]},..]}`.
//! Spec label ↔ yield point: `op` harness (the thread picks clone/read/drop; the choice is read
//! off the spec's next pc), `inc` ARC_FETCH_ADD, `rd` harness read of `as_str()`, `dec`
//! ARC_FETCH_SUB, `fence` ARC_FENCE, `free` ARC_DEALLOC.
//!
//! Verdict (the property's own predicate, DESIGN §2.2) from the tracking allocator and the reads:
//! an access (yield point address) inside a freed block or text that no longer reads back =
//! use after free; a second free = double free; a tracked block alive at the end = leak.
use std::sync::{Arc, Mutex};

use aranya_policy_text::{verif::site, Text};
use vrt::{json, Value, J};
use vsched::{alloc, Sched, Status};

use crate::{
    driver::{self, Control, Fail, Outcome},
    hsite,
};

const VISIBLE: &[u32] = &[
    site::ARC_FETCH_ADD,
    site::ARC_FETCH_SUB,
    site::ARC_FENCE,
    site::ARC_DEALLOC,
    hsite::OP,
    hsite::READ,
];

/// Longer than the inline representation (22 bytes) so the text lives on the heap.
const CONTENT: &str = "shared-heap-text:0123456789abcdefghijklmnopqrstuvwxyz";

#[derive(Clone, Copy, PartialEq, Debug)]
enum Op {
    Clone,
    Read,
    Drop,
}

fn label_site(l: &str) -> Option<u32> {
    Some(match l {
        "op" => hsite::OP,
        "inc" => site::ARC_FETCH_ADD,
        "rd" => hsite::READ,
        "dec" => site::ARC_FETCH_SUB,
        "fence" => site::ARC_FENCE,
        "free" => site::ARC_DEALLOC,
        _ => return None,
    })
}

fn matches_pc(st: &Status, pc: &str) -> bool {
    match st {
        Status::Parked { site, .. } => label_site(pc) == Some(*site),
        Status::Done => pc == "Done",
        _ => false,
    }
}

struct Shared {
    mailbox: Vec<Option<Op>>,
    held: Vec<usize>,
    clones: Vec<u64>,
    reads: Vec<u64>,
    bad_read: Option<String>,
}

struct Ctl {
    sh: Arc<Mutex<Shared>>,
    max_clones: u64,
    max_reads: u64,
    rng: vrt::Rng,
}

impl Ctl {
    fn alloc_fail(&self) -> Option<Fail> {
        let r = alloc::report();
        if r.double_free > 0 {
            return Some(("C33:double-free".into(), format!("the text allocation was freed twice ({r:?})")));
        }
        if let Some(m) = self.sh.lock().unwrap().bad_read.clone() {
            return Some(("C33:use-after-free".into(), m));
        }
        None
    }
}

impl Control for Ctl {
    fn thread_of(&self, s: &Value) -> usize {
        (s.u("t") as usize).wrapping_sub(1)
    }
    fn pre_ok(&self, s: &Value, st: &Status) -> bool {
        matches!(st, Status::Parked { site, .. } if label_site(s.s("a")) == Some(*site))
    }
    fn before(&mut self, s: &Value, _sched: &Sched) -> bool {
        if s.s("a") == "op" {
            let t = self.thread_of(s);
            // the operation the spec chose shows in the thread's next pc
            let op = match s.a("pc")[t].as_str() {
                Some("inc") => Op::Clone,
                Some("rd") => Op::Read,
                _ => Op::Drop,
            };
            self.sh.lock().unwrap().mailbox[t] = Some(op);
        }
        false
    }
    fn on_release(&mut self, tid: usize, st: &Status) -> Option<Fail> {
        if let Status::Parked { site: s, a, .. } = st {
            if *s == hsite::OP {
                // free run: seeded choice among the operations the bounds allow
                let mut sh = self.sh.lock().unwrap();
                if sh.mailbox[tid].is_none() {
                    let mut ops = vec![Op::Drop];
                    if sh.clones[tid] < self.max_clones {
                        ops.push(Op::Clone);
                    }
                    if sh.reads[tid] < self.max_reads {
                        ops.push(Op::Read);
                    }
                    sh.mailbox[tid] = Some(*self.rng.pick(&ops));
                }
            } else if *s == site::ARC_FETCH_SUB {
                // the handle is gone as soon as the count is decremented
                let mut sh = self.sh.lock().unwrap();
                sh.held[tid] = sh.held[tid].saturating_sub(1);
            }
            if *s != hsite::OP && *a != 0 && alloc::is_freed(*a) {
                return Some((
                    "C33:use-after-free".into(),
                    format!("thread {} is about to access the text allocation at site {} after it was freed", tid + 1, s),
                ));
            }
        }
        None
    }
    fn compare(&mut self, s: &Value, sched: &Sched) -> Option<String> {
        let sts = sched.statuses();
        for (i, pc) in s.a("pc").iter().enumerate() {
            let pc = pc.as_str().unwrap_or("?");
            if !matches_pc(&sts[i], pc) {
                return Some(format!("thread {} is {:?} but spec pc is {pc}", i + 1, sts[i]));
            }
        }
        let sh = self.sh.lock().unwrap();
        for (i, h) in s.a("held").iter().enumerate() {
            if h.as_u64() != Some(sh.held[i] as u64) {
                return Some(format!("thread {} holds {} handles, spec {}", i + 1, sh.held[i], h));
            }
        }
        let r = alloc::report();
        if r.freed as u64 != s.u("freed") {
            return Some(format!("allocator saw {} frees, spec {}", r.freed, s.u("freed")));
        }
        None
    }
    fn monitor(&mut self, _sched: &Sched) -> Option<Fail> {
        self.alloc_fail()
    }
    fn finish(&mut self, sched: &Sched) -> Option<Fail> {
        if let Some(f) = self.alloc_fail() {
            return Some(f);
        }
        let sts = sched.statuses();
        if let Some(i) = sts.iter().position(|s| matches!(s, Status::Panicked(_))) {
            return Some(("C33:panic".into(), format!("thread {} panicked: {:?}", i + 1, sts[i])));
        }
        let r = alloc::report();
        if sts.iter().all(|s| matches!(s, Status::Done)) && r.live > 0 {
            return Some((
                "C33:leak".into(),
                format!("all handles are dropped but the text allocation is still live ({r:?})"),
            ));
        }
        None
    }
}

pub fn run(args: &vrt::Args) {
    let mut out = args.out();
    let selftest = args.opt_str("selftest", "");
    for (i, b) in args.read_input().iter().enumerate() {
        let rng = vrt::Rng::new(args.seed.wrapping_mul(0x1000).wrapping_add(i as u64));
        let (o, rep) = replay(b, rng, &selftest);
        out.emit(o.to_json(i, json!({"alloc": format!("{rep:?}")})));
    }
    out.finish();
}

fn replay(b: &Value, mut rng: vrt::Rng, selftest: &str) -> (Outcome, alloc::Report) {
    let n = b.u("threads") as usize;
    let max_clones = b.get("max_clones").and_then(Value::as_u64).unwrap_or(1);
    let max_reads = b.get("max_reads").and_then(Value::as_u64).unwrap_or(1);
    alloc::reset();
    let sched = Sched::new();
    sched.set_visible(VISIBLE);
    // one heap allocation, one handle per thread (made here, outside the schedule)
    let first: Text = alloc::track(|| CONTENT.parse().expect("valid text"));
    let mut handles: Vec<Text> = (1..n).map(|_| first.clone()).collect();
    handles.push(first);
    let sh = Arc::new(Mutex::new(Shared {
        mailbox: vec![None; n],
        held: vec![1; n],
        clones: vec![0; n],
        reads: vec![0; n],
        bad_read: None,
    }));
    // self-test "forget": thread 1 forgets a handle instead of dropping it — a leak must be reported;
    // self-test "extradrop": thread 1 drops one handle twice — a double free / UAF must be reported
    let forget = selftest == "forget";
    let extradrop = selftest == "extradrop";
    for (tid, h) in handles.into_iter().enumerate() {
        let sh = Arc::clone(&sh);
        sched.spawn(move || {
            let mut mine = vec![h];
            while !mine.is_empty() {
                vsched::point(hsite::OP, tid, 0);
                let op = sh.lock().unwrap().mailbox[tid].take().unwrap_or(Op::Drop);
                match op {
                    Op::Clone => {
                        let c = mine[mine.len() - 1].clone();
                        mine.push(c);
                        let mut g = sh.lock().unwrap();
                        g.held[tid] += 1;
                        g.clones[tid] += 1;
                    }
                    Op::Read => {
                        let t = &mine[mine.len() - 1];
                        vsched::point(hsite::READ, t.as_str().as_ptr() as usize, 0);
                        let ok = t.as_str().as_bytes() == CONTENT.as_bytes();
                        let mut g = sh.lock().unwrap();
                        g.reads[tid] += 1;
                        if !ok {
                            g.bad_read = Some(format!("thread {} read {:?} through as_str() instead of the text", tid + 1,
                                                      &t.as_str().as_bytes()[..8]));
                        }
                    }
                    Op::Drop => {
                        let t = mine.pop().expect("non-empty");
                        // (the controller counts the handle as gone when it releases the fetch_sub)
                        if forget && tid == 0 {
                            std::mem::forget(t);
                        } else if extradrop && tid == 0 {
                            // SAFETY: deliberately wrong (binding self-test): duplicates the handle.
                            let dup: Text = unsafe { std::ptr::read(&t) };
                            drop(t);
                            drop(dup);
                        } else {
                            drop(t);
                        }
                    }
                }
            }
        });
    }
    let mut ctl = Ctl { sh, max_clones, max_reads, rng: rng.clone() };
    let o = driver::run(&sched, b.a("steps"), &mut ctl, &mut rng, 10_000);
    drop(sched);
    let rep = alloc::reset();
    (o, rep)
}
