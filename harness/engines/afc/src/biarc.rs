//! C44 — replay of `BiArc` schedules on the real `Lender` / `Loan`
//! (`aranya_fast_channels::memory::lender`, reached through `memory::verif_lender`).
//!
//! Behaviour: `{"loans":N,"lends":L,"gets":G,"steps":[{"a":label,"t":tid,"shared":b,"freed":f,
//! "slot":[..],"pc":{"0":..,"1":..}},..]}`; thread 0 is the lender thread, k >= 1 loan thread k.
//! Spec label ↔ yield point: `lend` BIARC_CLONE_SWAP, `ldrop`/`drop` BIARC_DROP_SWAP,
//! `lfree`/`free` BIARC_FREE, `get` BIARC_LOAD, `wait`/`use`/`used` harness.
//!
//! Verdict (property's own predicate): more than one live loan; two threads using the exclusive
//! data; `get_mut` invoked after `drop(Lender)` returned still gets access; an access to the
//! allocation after it was freed / payload that no longer reads back; double free; leak or
//! payload not dropped exactly once when everything is gone.
use std::sync::{Arc, Mutex};

use aranya_fast_channels::{
    memory::verif_lender::{Lender, Loan},
    verif::site,
};
use vrt::{json, Value, J};
use vsched::{alloc, Sched, Status};

use crate::{
    driver::{self, Control, Fail, Outcome},
    hsite,
};

const VISIBLE: &[u32] = &[
    site::BIARC_CLONE_SWAP,
    site::BIARC_LOAD,
    site::BIARC_DROP_SWAP,
    site::BIARC_FREE,
    hsite::LOAN_WAIT,
    hsite::USE,
    hsite::USED,
];

const MAGIC: u64 = 0x5041_594c_4f41_4421;

/// Pointer-free payload whose drop is recorded.
struct Pay {
    id: u64,
    magic: u64,
    val: u64,
    drops: Arc<Mutex<Vec<(u64, u64)>>>,
}

impl Drop for Pay {
    fn drop(&mut self) {
        // `drops` of a poisoned (freed) payload is garbage: never touch it then
        if self.magic == MAGIC {
            self.drops.lock().unwrap().push((self.id, self.magic));
        } else {
            BAD_DROP.store(true, std::sync::atomic::Ordering::Relaxed);
            std::mem::forget(std::mem::replace(&mut self.drops, Arc::new(Mutex::new(Vec::new()))));
        }
    }
}

static BAD_DROP: std::sync::atomic::AtomicBool = std::sync::atomic::AtomicBool::new(false);

type L = Lender<Pay, Pay>;
type Ln = Loan<Pay, Pay>;

fn label_site(l: &str) -> Option<u32> {
    Some(match l {
        "lend" => site::BIARC_CLONE_SWAP,
        "ldrop" | "drop" => site::BIARC_DROP_SWAP,
        "lfree" | "free" => site::BIARC_FREE,
        "get" => site::BIARC_LOAD,
        "wait" => hsite::LOAN_WAIT,
        "use" => hsite::USE,
        "used" => hsite::USED,
        _ => return None,
    })
}

fn matches_pc(st: &Status, pc: &str) -> bool {
    match st {
        Status::Parked { site, .. } => label_site(pc) == Some(*site),
        Status::Done => pc == "Done",
        _ => false,
    }
}

struct Shared {
    /// per loan thread: "none" / "given" / "dropped"
    slot: Vec<&'static str>,
    loans: Vec<Option<Ln>>,
    lender_done: bool,
    using: usize,
    fail: Option<Fail>,
}

struct Ctl {
    sh: Arc<Mutex<Shared>>,
    drops: Arc<Mutex<Vec<(u64, u64)>>>,
}

impl Ctl {
    fn check(&self) -> Option<Fail> {
        let r = alloc::report();
        if r.double_free > 0 {
            return Some(("C44:double-free".into(), format!("the shared data was freed twice ({r:?})")));
        }
        if BAD_DROP.load(std::sync::atomic::Ordering::Relaxed) {
            return Some(("C44:double-free".into(), "the payload was dropped again after its memory was freed".into()));
        }
        let sh = self.sh.lock().unwrap();
        if let Some(f) = sh.fail.clone() {
            return Some(f);
        }
        if sh.slot.iter().filter(|s| **s == "given").count() > 1 {
            return Some(("C44:two-loans".into(), format!("more than one live loan: {:?}", sh.slot)));
        }
        let d = self.drops.lock().unwrap();
        if d.len() > 2 {
            return Some(("C44:double-free".into(), format!("payload dropped more than once: {d:?}")));
        }
        None
    }
}

impl Control for Ctl {
    fn thread_of(&self, s: &Value) -> usize {
        s.u("t") as usize
    }
    fn pre_ok(&self, s: &Value, st: &Status) -> bool {
        matches!(st, Status::Parked { site, .. } if label_site(s.s("a")) == Some(*site))
    }
    fn enabled(&self, tid: usize, st: &Status, _sched: &Sched) -> bool {
        if let Status::Parked { site, .. } = st {
            if *site == hsite::LOAN_WAIT {
                let sh = self.sh.lock().unwrap();
                return sh.slot[tid - 1] == "given" || sh.lender_done;
            }
        }
        true
    }
    fn on_release(&mut self, tid: usize, st: &Status) -> Option<Fail> {
        if let Status::Parked { site: s, a, .. } = st {
            if *s == site::BIARC_DROP_SWAP && tid >= 1 {
                // the loan is dead as soon as its drop has swapped the flag
                self.sh.lock().unwrap().slot[tid - 1] = "dropped";
            }
            if *s < 128 && *a != 0 && alloc::is_freed(*a) {
                return Some((
                    "C44:use-after-free".into(),
                    format!("thread {tid} is about to access the shared data at site {s} after it was freed"),
                ));
            }
        }
        None
    }
    fn compare(&mut self, s: &Value, sched: &Sched) -> Option<String> {
        let sts = sched.statuses();
        let pcs = s.g("pc");
        for (i, st) in sts.iter().enumerate() {
            let pc = pcs.get(i.to_string()).and_then(Value::as_str).unwrap_or("?");
            if !matches_pc(st, pc) {
                return Some(format!("thread {i} is {st:?} but spec pc is {pc}"));
            }
        }
        let sh = self.sh.lock().unwrap();
        for (i, v) in s.a("slot").iter().enumerate() {
            if v.as_str() != Some(sh.slot[i]) {
                return Some(format!("slot {} is {} but spec has {}", i + 1, sh.slot[i], v));
            }
        }
        let r = alloc::report();
        if r.freed as u64 != s.u("freed") {
            return Some(format!("allocator saw {} frees, spec {}", r.freed, s.u("freed")));
        }
        None
    }
    fn monitor(&mut self, _sched: &Sched) -> Option<Fail> {
        self.check()
    }
    fn finish(&mut self, sched: &Sched) -> Option<Fail> {
        if let Some(f) = self.check() {
            return Some(f);
        }
        let sts = sched.statuses();
        if let Some(i) = sts.iter().position(|s| matches!(s, Status::Panicked(_))) {
            return Some(("C44:panic".into(), format!("thread {i} panicked: {:?}", sts[i])));
        }
        if sts.iter().all(|s| matches!(s, Status::Done)) {
            let r = alloc::report();
            let d = self.drops.lock().unwrap();
            if r.live > 0 || d.len() != 2 {
                return Some((
                    "C44:leak".into(),
                    format!("lender and loans are gone but the shared data was not freed exactly once ({r:?}, payload drops {d:?})"),
                ));
            }
        } else {
            return Some(("C44:stuck".into(), format!("threads cannot finish: {sts:?}")));
        }
        None
    }
}

pub fn run(args: &vrt::Args) {
    let mut out = args.out();
    let selftest = args.opt_str("selftest", "");
    for (i, b) in args.read_input().iter().enumerate() {
        let mut rng = vrt::Rng::new(args.seed.wrapping_mul(0x1000).wrapping_add(i as u64));
        let (o, rep) = replay(b, &mut rng, &selftest);
        out.emit(o.to_json(i, json!({"alloc": format!("{rep:?}")})));
    }
    out.finish();
}

/// Free-running race of one pair of BiArc operations that the spec's state graph has enabled
/// at the same time (`{"race":"drop-drop"|"lend-lend"|"lend-drop","rounds":N,"ms":T}`): the
/// two operations run on real, unscheduled threads released together from a spin barrier, so
/// the hardware interleaves the individual memory accesses.  Complements the SCHED replay,
/// which can only preempt at yield points (DESIGN §9): an atomic read-modify-write of
/// `BiArcInner::state` that was split into separate accesses executes atomically there.
fn race(b: &Value, selftest: &str) -> Outcome {
    use std::sync::atomic::{AtomicUsize, Ordering::SeqCst};
    let mode = b.s("race").to_string();
    let rounds = b.u("rounds");
    let t_end = std::time::Instant::now() + std::time::Duration::from_millis(b.u("ms"));
    let mut o = Outcome { fail: None, step: -1, drift: 0, steps: 0, drift_at: -1, drift_why: String::new(), final_status: String::new() };
    let drops = Arc::new(Mutex::new(Vec::new()));
    let mut r = 0u64;
    while r < rounds && std::time::Instant::now() < t_end {
        drops.lock().unwrap().clear();
        let lender: L = Lender::new(
            Pay { id: 1, magic: MAGIC, val: 0, drops: Arc::clone(&drops) },
            Pay { id: 2, magic: MAGIC, val: 0, drops: Arc::clone(&drops) },
        );
        let bar = AtomicUsize::new(0);
        let wait = |jit: u64| {
            bar.fetch_add(1, SeqCst);
            while bar.load(SeqCst) < 2 {
                std::hint::spin_loop();
            }
            for _ in 0..jit {
                std::hint::spin_loop();
            }
        };
        let (j1, j2) = ((r % 7) * 3, ((r / 7) % 7) * 3);
        let mut fail: Option<Fail> = None;
        match mode.as_str() {
            "drop-drop" => {
                let loan = lender.lend().expect("fresh lender lends");
                std::thread::scope(|sc| {
                    sc.spawn(|| {
                        wait(j1);
                        if selftest == "forget" { std::mem::forget(lender) } else { drop(lender) }
                    });
                    sc.spawn(|| {
                        wait(j2);
                        drop(loan)
                    });
                });
            }
            "lend-lend" => {
                let (a, b2) = std::thread::scope(|sc| {
                    let h1 = sc.spawn(|| {
                        wait(j1);
                        lender.lend()
                    });
                    let h2 = sc.spawn(|| {
                        wait(j2);
                        lender.lend()
                    });
                    (h1.join().unwrap(), h2.join().unwrap())
                });
                if a.is_some() && b2.is_some() {
                    fail = Some(("C44:two-loans".into(), format!("two concurrent lend() calls both got a loan (round {r})")));
                    // never drop three handles of a two-handle cell: that would free twice
                    std::mem::forget(a);
                    std::mem::forget(b2);
                    std::mem::forget(lender);
                    o.fail = fail;
                    o.step = r as i64;
                    break;
                } else if a.is_none() && b2.is_none() {
                    fail = Some(("C44:no-loan".into(), format!("two concurrent lend() calls on an unshared lender both failed (round {r})")));
                }
                drop(a);
                drop(b2);
                drop(lender);
            }
            "lend-drop" => {
                let loan = lender.lend().expect("fresh lender lends");
                let second = std::thread::scope(|sc| {
                    let h1 = sc.spawn(|| {
                        wait(j1);
                        lender.lend()
                    });
                    sc.spawn(|| {
                        wait(j2);
                        drop(loan)
                    });
                    h1.join().unwrap()
                });
                drop(second);
                drop(lender);
            }
            m => vrt::die(&format!("unknown race mode {m}")),
        }
        r += 1;
        o.steps = r;
        if fail.is_none() {
            let d = drops.lock().unwrap();
            if d.len() < 2 {
                fail = Some(("C44:leak".into(), format!("race {mode}, round {}: every handle is gone but the data was not freed (payload drops {:?})", r - 1, *d)));
            } else if d.len() > 2 || d[0].0 == d[1].0 {
                fail = Some(("C44:double-free".into(), format!("race {mode}, round {}: payload dropped more than once: {:?}", r - 1, *d)));
            }
        }
        if BAD_DROP.load(std::sync::atomic::Ordering::Relaxed) {
            fail = Some(("C44:double-free".into(), "the payload was dropped again after its memory was freed".into()));
        }
        if fail.is_some() {
            o.fail = fail;
            o.step = r as i64 - 1;
            break;
        }
    }
    o.final_status = format!("race {mode}: {r} rounds");
    o
}

fn replay(b: &Value, rng: &mut vrt::Rng, selftest: &str) -> (Outcome, alloc::Report) {
    if b.get("race").is_some() {
        BAD_DROP.store(false, std::sync::atomic::Ordering::Relaxed);
        let o = race(b, selftest);
        return (o, alloc::reset());
    }
    let nloans = b.u("loans") as usize;
    let lends = b.u("lends") as usize;
    let gets = b.u("gets") as usize;
    alloc::reset();
    BAD_DROP.store(false, std::sync::atomic::Ordering::Relaxed);
    let sched = Sched::new();
    sched.set_visible(VISIBLE);
    let drops = Arc::new(Mutex::new(Vec::new()));
    let lender: L = alloc::track(|| {
        Lender::new(
            Pay { id: 1, magic: MAGIC, val: 0, drops: Arc::clone(&drops) },
            Pay { id: 2, magic: MAGIC, val: 0, drops: Arc::clone(&drops) },
        )
    });
    let sh = Arc::new(Mutex::new(Shared {
        slot: vec!["none"; nloans],
        loans: (0..nloans).map(|_| None).collect(),
        lender_done: false,
        using: 0,
        fail: None,
    }));
    // self-test "forget": the lender is forgotten instead of dropped — a leak must be reported
    let forget = selftest == "forget";
    // thread 0: the lender thread
    {
        let sh = Arc::clone(&sh);
        sched.spawn(move || {
            let mut n = 0;
            loop {
                let r = lender.lend();
                n += 1;
                let mut g = sh.lock().unwrap();
                if let Some(l) = r {
                    match g.slot.iter().position(|s| *s == "none") {
                        Some(k) => {
                            g.slot[k] = "given";
                            g.loans[k] = Some(l);
                        }
                        None => {
                            g.fail = Some(("C44:two-loans".into(), "lend() succeeded although every loan thread already got a loan".into()));
                            drop(g);
                            drop(l);
                            break;
                        }
                    }
                }
                let more = n < lends && sh_has_none(&g);
                drop(g);
                if !more {
                    break;
                }
            }
            if forget {
                std::mem::forget(lender);
            } else {
                drop(lender);
            }
            sh.lock().unwrap().lender_done = true;
        });
    }
    for k in 0..nloans {
        let sh = Arc::clone(&sh);
        sched.spawn(move || {
            vsched::point(hsite::LOAN_WAIT, k, 0);
            let Some(mut loan) = sh.lock().unwrap().loans[k].take() else {
                return;
            };
            for _ in 0..gets {
                let invoked_after_removal = sh.lock().unwrap().lender_done;
                if let Some((s, x)) = loan.get_mut() {
                    if invoked_after_removal {
                        sh.lock().unwrap().fail = Some((
                            "C44:not-revoked".into(),
                            format!("loan {} got access from get_mut() invoked after drop(Lender) had returned", k + 1),
                        ));
                    }
                    vsched::point(hsite::USE, std::ptr::from_ref(s) as usize, 0);
                    {
                        let mut g = sh.lock().unwrap();
                        g.using += 1;
                        if g.using > 1 {
                            g.fail = Some(("C44:shared-exclusive".into(), "two threads use the exclusive data at once".into()));
                        }
                        if s.magic != MAGIC || x.magic != MAGIC {
                            g.fail = Some(("C44:use-after-free".into(), format!("loan {} reads freed data ({:x}, {:x})", k + 1, s.magic, x.magic)));
                        }
                    }
                    x.val = x.val.wrapping_add(s.id);
                    vsched::point(hsite::USED, std::ptr::from_ref(s) as usize, 0);
                    let mut g = sh.lock().unwrap();
                    g.using -= 1;
                    if s.magic != MAGIC || x.magic != MAGIC {
                        g.fail = Some(("C44:use-after-free".into(), format!("loan {} reads freed data ({:x}, {:x})", k + 1, s.magic, x.magic)));
                    }
                }
            }
            // (the controller marks the slot "dropped" when it releases the swap of this drop)
            drop(loan);
        });
    }
    let mut ctl = Ctl { sh: Arc::clone(&sh), drops };
    let o = driver::run(&sched, b.a("steps"), &mut ctl, rng, 10_000);
    drop(sched);
    let rep = alloc::reset();
    (o, rep)
}

fn sh_has_none(g: &Shared) -> bool {
    g.slot.iter().any(|s| *s == "none")
}

