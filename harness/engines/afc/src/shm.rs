//! C40 / C41 / C42 — replay of `AfcShm` schedules on the real `WriteState` / `ReadState` over
//! POSIX shared memory: one writer thread and N reader threads in one process under the
//! yield-point scheduler.
//!
//! Behaviour: `{"cap":C,"readers":N,"rops":R,"script":[["add"],["rm",0],["rmif",[0,1]],["clear"]..],
//! "steps":[{"a":label,"t":tid,"g":[gA,gB],"cA":[..],"cB":[..],"ro":"A","wo":"B","p0":wpc,"p1":pc1,..,
//! "r1":[what,tid,rfail,ctx,res],..,"wr":[..]},..]}` (delta-encoded: a step carries the keys that
//! changed); thread 0 = the writer (spec process 100), thread r = reader r.
//!
//! Spec label ↔ yield point: `wop`/`rop` harness (call invoked), `wl1`/`wl2`/`lk` MUTEX_LOCK (only
//! released while the list's lock word is 0; the mutex-internal sites are passed through),
//! `wb1`/`wb2` SHM_GEN_BUMP, `ws` SHM_OFF_SWAP, `l1` SHM_READ_OFF_LOAD, `e2` SHM_GEN_LOAD.
//!
//! Verdict (DESIGN §2.2) — only the properties' own predicates, evaluated on the *real* call /
//! return history (stamped by the scheduler's step clock) and on the verification snapshot:
//!  * C40: the successful seals of a context return 0, 1, 2, ...; every sealed message opens
//!    with the channel's own key at that sequence number;
//!  * C41: a seal/open/setup invoked after a removal of its channel returned must not find the
//!    channel; NotFound only for channels a removal was invoked for; removed ids are in no list
//!    when the writer is idle;
//!  * C42: ids strictly increase; OutOfSpace iff the table is full; both lists equal (order,
//!    generation, opposite offsets) and equal to the abstract table when the writer is idle; an
//!    unlocked list holds the table before or after the call in progress.
//! Differences to the spec's fine-grained state are `drift`.
use std::{
    collections::{BTreeMap, BTreeSet},
    sync::{
        atomic::{AtomicU32, AtomicU64, Ordering},
        Arc, Mutex,
    },
};

use aranya_crypto::{
    afc::{AuthData, OpenKey, RawOpenKey, RawSealKey, SealKey, Seq},
    dangerous::spideroak_crypto::csprng::Random,
    default::DefaultCipherSuite,
    id::IdExt as _,
    policy::LabelId,
    DeviceId, Rng,
};
use aranya_fast_channels::{
    shm::{self, Flag, Mode, Path, ReadState, WriteState},
    verif::{site, ShmSnapshot},
    AfcState, AranyaState, Directed, Error, LocalChannelId,
};
use vrt::{json, Value, J};
use vsched::{Sched, Status};

use crate::{
    driver::{self, Control, Fail, Outcome},
    hsite,
};

type CS = DefaultCipherSuite;

const VISIBLE: &[u32] = &[
    hsite::OP,
    site::MUTEX_LOCK,
    site::SHM_GEN_BUMP,
    site::SHM_OFF_SWAP,
    site::SHM_READ_OFF_LOAD,
    site::SHM_GEN_LOAD,
];

pub const VERSION: u32 = 1;
pub const PLAINTEXT: &[u8] = b"afc-shm-conformance";

fn label_site(l: &str) -> Option<u32> {
    Some(match l {
        "wop" | "rop" => hsite::OP,
        "wl1" | "wl2" | "lk" => site::MUTEX_LOCK,
        "wb1" | "wb2" => site::SHM_GEN_BUMP,
        "ws" => site::SHM_OFF_SWAP,
        "l1" => site::SHM_READ_OFF_LOAD,
        "e2" => site::SHM_GEN_LOAD,
        _ => return None,
    })
}

fn matches_pc(st: &Status, pc: &str) -> bool {
    match st {
        Status::Parked { site, .. } => label_site(pc) == Some(*site),
        Status::Done => pc == "Done",
        _ => false,
    }
}

pub fn chan_u64(id: LocalChannelId) -> u64 {
    format!("{id}").parse().unwrap_or(u64::MAX)
}

/// Writer operations of a script.
#[derive(Clone, Debug)]
pub enum WOp {
    Add,
    Rm(u64),
    RmIf(Vec<u64>),
    Clear,
}

pub fn parse_script(v: &Value) -> Vec<WOp> {
    v.as_array()
        .unwrap_or_else(|| vrt::die("script is not an array"))
        .iter()
        .map(|o| {
            let a = o.as_array().unwrap_or_else(|| vrt::die("script op is not an array"));
            match a[0].as_str().unwrap_or("") {
                "add" => WOp::Add,
                "rm" => WOp::Rm(a[1].as_u64().unwrap_or(0)),
                "rmif" => WOp::RmIf(a[1].as_array().map(|x| x.iter().filter_map(Value::as_u64).collect()).unwrap_or_default()),
                "clear" => WOp::Clear,
                s => vrt::die(&format!("unknown writer op {s}")),
            }
        })
        .collect()
}

impl WOp {
    pub fn targets(&self, table: &BTreeSet<u64>) -> BTreeSet<u64> {
        match self {
            WOp::Add => BTreeSet::new(),
            WOp::Rm(i) => [*i].into_iter().collect(),
            WOp::RmIf(s) => s.iter().copied().collect(),
            WOp::Clear => table.clone(),
        }
    }
    pub fn name(&self) -> &'static str {
        match self {
            WOp::Add => "add",
            WOp::Rm(_) => "rm",
            WOp::RmIf(_) => "rmif",
            WOp::Clear => "clear",
        }
    }
}

/// What a reader is told to do next.
#[derive(Clone, Copy, Debug, PartialEq)]
pub enum ROp {
    Setup(u64),
    /// seal/open on the held context; `true` = make the seal closure fail (buffer too small)
    Use(bool),
    Stop,
}

/// One call/return event of the real history.
#[derive(Clone, Debug)]
pub struct Event {
    pub clock: u64,
    pub thread: usize,
    pub ret: bool,
    pub what: String,
    pub id: u64,
    pub res: String,
    pub seq: i64,
    pub targets: Vec<u64>,
}

impl Event {
    pub fn to_json(&self) -> Value {
        if self.what == "drop" {
            return json!({"ev": "drop", "th": self.thread, "clock": self.clock});
        }
        json!({"ev": if self.ret { "ret" } else { "inv" }, "th": self.thread, "what": self.what, "id": self.id,
               "res": self.res, "seq": self.seq, "targets": self.targets, "clock": self.clock})
    }
}

/// The abstract call-level monitor (the engine's own copy of the `AfcAbs` predicates).
#[derive(Default)]
pub struct Monitor {
    pub cap: usize,
    pub table: BTreeSet<u64>,
    /// table after the writer call in progress (None = writer idle)
    pub table_next: Option<BTreeSet<u64>>,
    pub ever: BTreeSet<u64>,
    pub removal_started: BTreeSet<u64>,
    pub removed_done: BTreeSet<u64>,
    pub last_id: Option<u64>,
    pub pending_targets: BTreeSet<u64>,
    /// per reader: `after` flag of the call in progress
    pub after: BTreeMap<usize, bool>,
    /// per reader: next expected sequence number of its seal context
    pub next_seq: BTreeMap<usize, u64>,
    pub events: Vec<Event>,
    pub fail: Option<Fail>,
    /// report only failures of this property ("" = all): each check decides its own property
    pub only: String,
    /// memory::State: one live seal context per channel, numbering continues per channel
    pub single: bool,
    pub live: BTreeSet<u64>,
    pub chan_seq: BTreeMap<u64, u64>,
    /// per reader: the channel of its live context (memory mode)
    pub holds: BTreeMap<usize, u64>,
    /// per reader with a setup in progress: (channel, a context for it was live during the call)
    pub pending_setup: BTreeMap<usize, (u64, bool)>,
}

impl Monitor {
    pub fn flag(&mut self, key: &str, msg: String) {
        if self.fail.is_none() && key.starts_with(self.only.as_str()) {
            self.fail = Some((key.to_string(), msg));
        }
    }

    /// Feeds one event; `prop` prefixes are chosen by the predicate that fails.
    pub fn event(&mut self, e: Event) {
        if e.thread == 0 {
            if !e.ret {
                match e.what.as_str() {
                    "add" => {
                        let mut t = self.table.clone();
                        // the id is not known yet; `table_next` is completed at return
                        if self.cap == 0 || t.len() < self.cap {
                            t.insert(u64::MAX);
                        }
                        self.table_next = Some(t);
                    }
                    _ => {
                        let tg: BTreeSet<u64> = e.targets.iter().copied().collect();
                        self.removal_started.extend(tg.iter().copied());
                        self.table_next = Some(self.table.difference(&tg).copied().collect());
                        self.pending_targets = tg;
                    }
                }
            } else {
                match (e.what.as_str(), e.res.as_str()) {
                    ("add", "ok") => {
                        if self.cap != 0 && self.table.len() >= self.cap {
                            self.flag("C42:add-on-full", format!("add returned id {} although the table was full ({:?})", e.id, self.table));
                        }
                        if let Some(l) = self.last_id {
                            if e.id <= l {
                                self.flag("C42:id-reused", format!("add returned id {} after id {} (ids must strictly increase)", e.id, l));
                            }
                        }
                        if self.removed_done.contains(&e.id) {
                            self.flag(
                                "C41:resurrected",
                                format!("add returned id {} although a removal of channel {} had returned: a removed channel reappears", e.id, e.id),
                            );
                        }
                        if self.ever.contains(&e.id) {
                            self.flag("C42:id-reused", format!("add returned id {} twice", e.id));
                        }
                        self.last_id = Some(e.id);
                        self.ever.insert(e.id);
                        self.table.insert(e.id);
                    }
                    ("add", "oos") => {
                        if self.cap == 0 || self.table.len() < self.cap {
                            self.flag("C42:oos-not-full", format!("add returned OutOfSpace with {} of {} channels", self.table.len(), self.cap));
                        }
                    }
                    ("add", r) => self.flag("C42:add-error", format!("add failed with {r}")),
                    (w, "ok") => {
                        let tg = std::mem::take(&mut self.pending_targets);
                        self.removed_done.extend(tg.iter().copied());
                        self.table = self.table.difference(&tg).copied().collect();
                        let _ = w;
                    }
                    (w, r) => self.flag("C41:remove-error", format!("{w} failed with {r}")),
                }
                self.table_next = None;
            }
        } else if e.what == "drop" {
            if let Some(id) = self.holds.remove(&e.thread) {
                self.live.remove(&id);
            }
        } else if !e.ret {
            self.after.insert(e.thread, self.removed_done.contains(&e.id));
            if e.what == "setup" {
                let start = if self.single { self.chan_seq.get(&e.id).copied().unwrap_or(0) } else { 0 };
                self.next_seq.insert(e.thread, start);
                self.pending_setup.insert(e.thread, (e.id, self.live.contains(&e.id)));
            }
        } else {
            let after = self.after.get(&e.thread).copied().unwrap_or(false);
            let found = matches!(e.res.as_str(), "ok" | "fail");
            if found && after {
                self.flag(
                    "C41:used-after-remove",
                    format!("reader {} {} on channel {} found the channel although its removal had returned before the call was invoked", e.thread, e.what, e.id),
                );
            }
            if self.single && e.what == "setup" && e.res == "ok" {
                if self.live.contains(&e.id) {
                    self.flag(
                        "C40:second-live-context",
                        format!("reader {} got a seal context for channel {} while another context for it is live", e.thread, e.id),
                    );
                }
                self.live.insert(e.id);
                self.holds.insert(e.thread, e.id);
                for (_, p) in self.pending_setup.iter_mut() {
                    if p.0 == e.id {
                        p.1 = true;
                    }
                }
                let start = self.chan_seq.get(&e.id).copied().unwrap_or(0);
                self.next_seq.insert(e.thread, start);
            }
            let saw_live = if e.what == "setup" { self.pending_setup.remove(&e.thread).is_some_and(|p| p.1) } else { false };
            let refused = self.single && e.what == "setup" && (self.live.contains(&e.id) || saw_live);
            if e.res == "notfound" && !self.removal_started.contains(&e.id) && !refused {
                self.flag(
                    "C41:lost-channel",
                    format!("reader {} {} on channel {} returned NotFound although no removal of it was ever invoked", e.thread, e.what, e.id),
                );
            }
            if e.what == "seal" && e.res == "ok" {
                let want = self.next_seq.get(&e.thread).copied().unwrap_or(0);
                if e.seq != want as i64 {
                    self.flag(
                        "C40:seq-not-consecutive",
                        format!("reader {} sealed with sequence number {} but its context's next number is {}", e.thread, e.seq, want),
                    );
                }
                self.next_seq.insert(e.thread, (e.seq.max(0) as u64) + 1);
                self.chan_seq.insert(e.id, (e.seq.max(0) as u64) + 1);
            }
            if e.res.starts_with("err:") {
                self.flag("C41:call-error", format!("reader {} {} on channel {} failed with {}", e.thread, e.what, e.id, e.res));
            }
        }
        self.events.push(e);
    }

    pub fn writer_idle(&self) -> bool {
        self.table_next.is_none()
    }

    /// Snapshot predicates of C41/C42.
    pub fn check_snapshot(&mut self, s: &ShmSnapshot) {
        let ids = |x: &aranya_fast_channels::verif::ShmSideSnapshot| -> Vec<u64> { x.ids[..x.ids_len].to_vec() };
        let (a, b) = (ids(&s.side_a), ids(&s.side_b));
        for (name, side, l) in [("A", &s.side_a, &a), ("B", &s.side_b, &b)] {
            let set: BTreeSet<u64> = l.iter().copied().collect();
            if set.len() != l.len() {
                self.flag("C42:duplicate-channel", format!("list {name} holds a channel twice: {l:?}"));
            }
            if side.len as usize != side.ids_len || side.len > side.cap {
                self.flag("C42:bad-len", format!("list {name}: len {} cap {}", side.len, side.cap));
            }
            if side.lock == 0 {
                // an unlocked list is one the writer produced: the table before or after its call
                let ok = set == self.table
                    || self.table_next.as_ref().is_some_and(|t| {
                        // an add in progress: the id is not known to the monitor yet
                        if t.contains(&u64::MAX) {
                            let extra: Vec<u64> = set.difference(&self.table).copied().collect();
                            set.is_superset(&self.table) && extra.len() == 1 && !self.ever.contains(&extra[0])
                        } else {
                            &set == t
                        }
                    });
                if !ok {
                    self.flag(
                        "C42:unproduced-list",
                        format!("unlocked list {name} holds {l:?}, the writer produced {:?} / {:?}", self.table, self.table_next),
                    );
                }
            }
        }
        if !s.read_off_valid || !s.write_off_valid {
            self.flag("C42:bad-offset", "read_off/write_off is not the offset of a list".into());
        }
        if self.writer_idle() {
            // (equal generations are part of the spec comparison — drift —, not of the property)
            if a != b || s.read_is_a == s.write_is_a {
                self.flag(
                    "C42:sides-differ",
                    format!(
                        "writer idle but the lists differ: A={a:?} gen {} B={b:?} gen {} read_is_a={} write_is_a={}",
                        s.side_a.generation, s.side_b.generation, s.read_is_a, s.write_is_a
                    ),
                );
            }
            let set: BTreeSet<u64> = a.iter().copied().collect();
            if set != self.table {
                self.flag("C42:table-mismatch", format!("writer idle: lists hold {a:?}, the calls so far give {:?}", self.table));
            }
            if let Some(x) = set.intersection(&self.removed_done).next() {
                self.flag("C41:resurrected", format!("channel {x} is listed again after its removal returned"));
            }
        }
    }
}

/// Everything the threads and the controller share.
pub struct Shared {
    pub mon: Monitor,
    pub mailbox: Vec<Option<ROp>>,
    /// raw keys of every added channel (for the decrypt check)
    pub keys: BTreeMap<u64, (RawSealKey<CS>, LabelId)>,
    pub ids: BTreeMap<u64, LocalChannelId>,
    /// per reader: (kind "none"/"seal"/"open"/"expired", channel, last result)
    pub rctx: Vec<(String, u64, String)>,
    pub rcalls: Vec<u64>,
    pub wres: Vec<String>,
}

pub fn ev(sh: &Arc<Mutex<Shared>>, thread: usize, ret: bool, what: &str, id: u64, res: &str, seq: i64, targets: Vec<u64>) {
    let e = Event { clock: vsched::current_clock(), thread, ret, what: what.to_string(), id, res: res.to_string(), seq, targets };
    sh.lock().unwrap().mon.event(e);
}

static SHM_COUNTER: AtomicU64 = AtomicU64::new(0);

pub struct ShmPath(pub Vec<u8>);

impl ShmPath {
    pub fn fresh() -> Self {
        let n = SHM_COUNTER.fetch_add(1, Ordering::Relaxed);
        let mut v = format!("/vh_afc_{}_{}", std::process::id(), n).into_bytes();
        v.push(0);
        ShmPath(v)
    }
    pub fn path(&self) -> &Path {
        Path::from_bytes(&self.0).unwrap_or_else(|_| vrt::die("bad shm path"))
    }
}

impl Drop for ShmPath {
    fn drop(&mut self) {
        let _ = shm::unlink(self.path());
    }
}

pub fn err_class(e: &Error) -> String {
    match e {
        Error::NotFound(_) => "notfound".into(),
        Error::KeyExpired => "expired".into(),
        e => format!("err:{e}"),
    }
}

struct Ctl {
    sh: Arc<Mutex<Shared>>,
    rs: Arc<ReadState<CS>>,
    rops: u64,
    rng: vrt::Rng,
    selftest: String,
}

impl Ctl {
    fn lock_free(st: &Status) -> bool {
        match st {
            // SAFETY: `a` of MUTEX_LOCK is the address of the live mutex's `AtomicU32` key.
            Status::Parked { site: s, a, .. } if *s == site::MUTEX_LOCK => unsafe {
                (*(*a as *const AtomicU32)).load(Ordering::SeqCst) == 0
            },
            _ => true,
        }
    }
}

impl Control for Ctl {
    fn thread_of(&self, s: &Value) -> usize {
        let t = s.u("t") as usize;
        if t == 100 { 0 } else { t }
    }
    fn pre_ok(&self, s: &Value, st: &Status) -> bool {
        matches!(st, Status::Parked { site, .. } if label_site(s.s("a")) == Some(*site))
    }
    fn enabled(&self, _tid: usize, st: &Status, _sched: &Sched) -> bool {
        Self::lock_free(st)
    }
    fn before(&mut self, s: &Value, _sched: &Sched) -> bool {
        if s.s("a") == "rop" {
            let t = self.thread_of(s);
            let rd = s.g(&format!("r{t}"));
            let op = match rd[0].as_str() {
                Some("setup") => ROp::Setup(rd[1].as_u64().unwrap_or(0)),
                _ => ROp::Use(rd[2].as_bool().unwrap_or(false)),
            };
            self.sh.lock().unwrap().mailbox[t] = Some(op);
        }
        false
    }
    fn on_release(&mut self, tid: usize, st: &Status) -> Option<Fail> {
        if tid >= 1 {
            if let Status::Parked { site: s, .. } = st {
                if *s == hsite::OP {
                    // free run: a seeded choice the reader's state allows
                    let mut sh = self.sh.lock().unwrap();
                    if sh.mailbox[tid].is_none() {
                        let kind = sh.rctx[tid - 1].0.clone();
                        let ever: Vec<u64> = sh.mon.ever.iter().copied().collect();
                        let op = if sh.rcalls[tid - 1] >= self.rops {
                            ROp::Stop
                        } else if kind == "seal" || kind == "open" {
                            ROp::Use(kind == "seal" && self.rng.chance(1, 4))
                        } else if !ever.is_empty() {
                            ROp::Setup(*self.rng.pick(&ever))
                        } else {
                            ROp::Stop
                        };
                        sh.mailbox[tid] = Some(op);
                    }
                }
            }
        }
        None
    }
    fn compare(&mut self, s: &Value, sched: &Sched) -> Option<String> {
        let sts = sched.statuses();
        for (i, st) in sts.iter().enumerate() {
            let pc = s.get(format!("p{i}")).and_then(Value::as_str).unwrap_or("?");
            if !matches_pc(st, pc) {
                return Some(format!("thread {i} is {st:?} but spec pc is {pc}"));
            }
        }
        let snap = self.rs.verif_snapshot();
        let gens = s.a("g");
        if gens[0].as_u64() != Some(snap.side_a.generation as u64) || gens[1].as_u64() != Some(snap.side_b.generation as u64) {
            return Some(format!("generations are ({}, {}) but spec has {:?}", snap.side_a.generation, snap.side_b.generation, gens));
        }
        for (k, side) in [&snap.side_a, &snap.side_b].iter().enumerate() {
            let want: Vec<u64> = s.a(["cA", "cB"][k]).iter().filter_map(Value::as_u64).collect();
            // while the writer holds the lock the list is in flux (the spec changes it at the bump)
            if side.lock == 0 && side.ids[..side.ids_len] != want[..] {
                return Some(format!("list {} is {:?} but spec has {:?}", ["A", "B"][k], &side.ids[..side.ids_len], want));
            }
        }
        if (s.s("ro") == "A") != snap.read_is_a {
            return Some(format!("read_off is {} but spec has {}", if snap.read_is_a { "A" } else { "B" }, s.s("ro")));
        }
        // completed calls: results
        let sh = self.sh.lock().unwrap();
        let wres: Vec<&str> = s.a("wr").iter().filter_map(Value::as_str).collect();
        if wres.len() != sh.wres.len() || wres.iter().zip(sh.wres.iter()).any(|(a, b)| *a != b.as_str()) {
            return Some(format!("writer results are {:?} but spec has {:?}", sh.wres, wres));
        }
        for r in 0..sh.rctx.len() {
            let rd = s.g(&format!("r{}", r + 1));
            let res = rd[4].as_str().unwrap_or("none");
            let pc = s.get(format!("p{}", r + 1)).and_then(Value::as_str).unwrap_or("?");
            if (pc == "rop" || pc == "Done") && res != "none" && sh.rctx[r].2 != res {
                return Some(format!("reader {} last result is {} but spec has {}", r + 1, sh.rctx[r].2, res));
            }
        }
        None
    }
    fn monitor(&mut self, _sched: &Sched) -> Option<Fail> {
        let snap = self.rs.verif_snapshot();
        let mut sh = self.sh.lock().unwrap();
        if self.selftest == "stale-table" {
            // self-test: pretend the writer's last removal never happened
            if let Some(x) = sh.mon.removed_done.iter().next().copied() {
                sh.mon.table.insert(x);
            }
        }
        sh.mon.check_snapshot(&snap);
        sh.mon.fail.clone()
    }
    fn finish(&mut self, sched: &Sched) -> Option<Fail> {
        if let Some(f) = self.monitor(sched) {
            return Some(f);
        }
        let sts = sched.statuses();
        if let Some(i) = sts.iter().position(|s| matches!(s, Status::Panicked(_))) {
            let prop = if i == 0 { "C42" } else { "C41" };
            self.sh.lock().unwrap().mon.flag(&format!("{prop}:panic"), format!("thread {i} panicked: {:?}", sts[i]));
        }
        if !sts.iter().all(|s| s.is_finished()) {
            self.sh.lock().unwrap().mon.flag("C42:stuck", format!("threads cannot finish (a list lock is never released?): {sts:?}"));
        }
        self.sh.lock().unwrap().mon.fail.clone()
    }
}

pub fn run(args: &vrt::Args) {
    let mut out = args.out();
    let selftest = args.opt_str("selftest", "");
    let trace_path = args.opts.get("trace").cloned();
    let only = args.opt_str("only", "");
    let trace_max = args.opt_u64("trace_max", u64::MAX);
    let mut trace: Vec<Value> = Vec::new();
    for (i, b) in args.read_input().iter().enumerate() {
        let mut rng = vrt::Rng::new(args.seed.wrapping_mul(0x1000).wrapping_add(i as u64));
        let (o, events) = replay(b, &mut rng, &selftest, &only);
        if trace_path.is_some() && (i as u64) < trace_max {
            trace.push(json!({"ev": "reset", "i": i, "cap": b.u("cap"), "readers": b.u("readers"), "single": false}));
            trace.extend(events.iter().map(Event::to_json));
        }
        let evs: Vec<Value> = if o.fail.is_some() { events.iter().map(Event::to_json).collect() } else { Vec::new() };
        out.emit(o.to_json(i, json!({"events": evs, "nevents": events.len()})));
    }
    if let Some(p) = trace_path {
        let mut f = std::io::BufWriter::new(std::fs::File::create(&p).unwrap_or_else(|e| vrt::die(&format!("create {p}: {e}"))));
        use std::io::Write as _;
        for e in trace {
            let _ = writeln!(f, "{e}");
        }
    }
    out.finish();
}

fn replay(b: &Value, rng: &mut vrt::Rng, selftest: &str, only: &str) -> (Outcome, Vec<Event>) {
    let cap = b.u("cap") as usize;
    let nreaders = b.u("readers") as usize;
    let rops = b.u("rops");
    let script = parse_script(b.g("script"));
    let path = ShmPath::fresh();
    let _ = shm::unlink(path.path()); // a leftover of a killed run with the same pid
    let ws: WriteState<CS, Rng> = WriteState::open(path.path(), Flag::Create, Mode::ReadWrite, cap, Rng)
        .unwrap_or_else(|e| vrt::die(&format!("WriteState::open: {e}")));
    let rs: Arc<ReadState<CS>> = Arc::new(
        ReadState::open(path.path(), Flag::OpenOnly, Mode::ReadWrite, cap).unwrap_or_else(|e| vrt::die(&format!("ReadState::open: {e}"))),
    );
    let sched = Sched::new();
    sched.set_visible(VISIBLE);
    let sh = Arc::new(Mutex::new(Shared {
        mon: Monitor { cap, only: only.to_string(), ..Monitor::default() },
        mailbox: vec![None; nreaders + 1],
        keys: BTreeMap::new(),
        ids: BTreeMap::new(),
        rctx: vec![("none".to_string(), 0, "none".to_string()); nreaders],
        rcalls: vec![0; nreaders],
        wres: Vec::new(),
    }));
    // ---- thread 0: the writer
    {
        let sh = Arc::clone(&sh);
        let script = script.clone();
        sched.spawn(move || {
            let mut adds = 0u64;
            for op in &script {
                vsched::point(hsite::OP, 0, 0);
                let table = sh.lock().unwrap().mon.table.clone();
                let targets: Vec<u64> = op.targets(&table).into_iter().collect();
                ev(&sh, 0, false, op.name(), 0, "", -1, targets.clone());
                let (res, id) = match op {
                    WOp::Add => {
                        // even ids are seal channels, odd ids open channels (ids are drawn in order)
                        let raw = RawSealKey::<CS>::random(Rng);
                        let label = LabelId::random(Rng);
                        let keys = if adds % 2 == 0 {
                            Directed::SealOnly { seal: raw.clone() }
                        } else {
                            Directed::OpenOnly { open: RawOpenKey { key: raw.key.clone(), base_nonce: raw.base_nonce.clone() } }
                        };
                        adds += 1;
                        match ws.add(keys, label, DeviceId::random(Rng)) {
                            Ok(id) => {
                                let n = chan_u64(id);
                                let mut g = sh.lock().unwrap();
                                g.keys.insert(n, (raw, label));
                                g.ids.insert(n, id);
                                ("ok".to_string(), n)
                            }
                            Err(shm::Error::OutOfSpace) => ("oos".to_string(), 0),
                            Err(e) => (format!("err:{e}"), 0),
                        }
                    }
                    WOp::Rm(i) => {
                        let id = sh.lock().unwrap().ids.get(i).copied();
                        let r = match id {
                            Some(id) => ws.remove(id),
                            // an id no add ever returned: remove through the predicate form
                            None => ws.remove_if(|p| chan_u64(p.local_channel_id) == *i),
                        };
                        (r.map(|()| "ok".to_string()).unwrap_or_else(|e| format!("err:{e}")), *i)
                    }
                    WOp::RmIf(s) => {
                        let r = ws.remove_if(|p| s.contains(&chan_u64(p.local_channel_id)));
                        (r.map(|()| "ok".to_string()).unwrap_or_else(|e| format!("err:{e}")), 0)
                    }
                    WOp::Clear => {
                        let r = ws.remove_all();
                        (r.map(|()| "ok".to_string()).unwrap_or_else(|e| format!("err:{e}")), 0)
                    }
                };
                sh.lock().unwrap().wres.push(res.clone());
                ev(&sh, 0, true, op.name(), id, &res, -1, targets);
            }
        });
    }
    // ---- readers
    for r in 1..=nreaders {
        let sh = Arc::clone(&sh);
        let rs = Arc::clone(&rs);
        sched.spawn(move || {
            let mut sctx: Option<<ReadState<CS> as AfcState>::SealCtx> = None;
            let mut octx: Option<<ReadState<CS> as AfcState>::OpenCtx> = None;
            loop {
                if sh.lock().unwrap().rcalls[r - 1] >= rops {
                    break;
                }
                vsched::point(hsite::OP, r, 0);
                let op = sh.lock().unwrap().mailbox[r].take().unwrap_or(ROp::Stop);
                sh.lock().unwrap().rcalls[r - 1] += 1;
                match op {
                    ROp::Stop => break,
                    ROp::Setup(n) => {
                        let Some(id) = sh.lock().unwrap().ids.get(&n).copied() else { break };
                        ev(&sh, r, false, "setup", n, "", -1, vec![]);
                        sctx = None;
                        octx = None;
                        let res = if n % 2 == 0 {
                            match rs.setup_seal_ctx(id) {
                                Ok(c) => {
                                    sctx = Some(c);
                                    "ok".to_string()
                                }
                                Err(e) => err_class(&e),
                            }
                        } else {
                            match rs.setup_open_ctx(id) {
                                Ok(c) => {
                                    octx = Some(c);
                                    "ok".to_string()
                                }
                                Err(e) => err_class(&e),
                            }
                        };
                        {
                            let mut g = sh.lock().unwrap();
                            let kind = if res == "ok" { if n % 2 == 0 { "seal" } else { "open" } } else { "none" };
                            g.rctx[r - 1] = (kind.to_string(), n, res.clone());
                        }
                        ev(&sh, r, true, "setup", n, &res, -1, vec![]);
                    }
                    ROp::Use(fail) => {
                        let (kind, n) = {
                            let g = sh.lock().unwrap();
                            (g.rctx[r - 1].0.clone(), g.rctx[r - 1].1)
                        };
                        if kind == "seal" {
                            ev(&sh, r, false, "seal", n, "", -1, vec![]);
                            let ctx = sctx.as_mut().expect("seal ctx");
                            let mut dst = vec![0u8; PLAINTEXT.len() + SealKey::<CS>::OVERHEAD];
                            let mut called = false;
                            let mut label_seen = None;
                            let r0 = rs.seal(ctx, |key: &mut SealKey<CS>, label: LabelId| -> Result<Seq, Error> {
                                called = true;
                                label_seen = Some(label);
                                let ad = AuthData { version: VERSION, label_id: label };
                                // injected failure: the output buffer is too small
                                let out = if fail { &mut dst[..4] } else { &mut dst[..] };
                                key.seal(out, PLAINTEXT, &ad).map_err(Into::into)
                            });
                            let (res, seq) = match r0 {
                                Ok(Ok(seq)) => ("ok".to_string(), seq.to_u64() as i64),
                                Ok(Err(_)) => ("fail".to_string(), -1),
                                Err(e) => (err_class(&e), -1),
                            };
                            let _ = called;
                            // the message must open with the channel's own key at that number
                            if res == "ok" {
                                let known = sh.lock().unwrap().keys.get(&n).map(|(raw, label)| (raw.clone(), *label));
                                if let Some((raw, label)) = known {
                                    let ok = OpenKey::<CS>::from_raw(&RawOpenKey { key: raw.key.clone(), base_nonce: raw.base_nonce.clone() })
                                        .ok()
                                        .and_then(|k| {
                                            let mut pt = vec![0u8; PLAINTEXT.len()];
                                            let ad = AuthData { version: VERSION, label_id: label };
                                            k.open(&mut pt, &dst, &ad, Seq::new(seq as u64)).ok().map(|()| pt == PLAINTEXT)
                                        })
                                        .unwrap_or(false);
                                    if !ok || label_seen != Some(label) {
                                        sh.lock().unwrap().mon.flag(
                                            "C42:wrong-key",
                                            format!("reader {r}: the message sealed for channel {n} does not open with that channel's key at sequence number {seq}"),
                                        );
                                    }
                                }
                            }
                            {
                                let mut g = sh.lock().unwrap();
                                g.rctx[r - 1].2 = res.clone();
                                if res == "notfound" {
                                    g.rctx[r - 1].0 = "expired".to_string();
                                }
                            }
                            ev(&sh, r, true, "seal", n, &res, seq, vec![]);
                        } else if kind == "open" {
                            ev(&sh, r, false, "open", n, "", -1, vec![]);
                            let ctx = octx.as_mut().expect("open ctx");
                            // a message sealed with the channel's key at sequence number 0
                            let (raw, label) = {
                                let g = sh.lock().unwrap();
                                let (raw, label) = g.keys.get(&n).expect("key");
                                (raw.clone(), *label)
                            };
                            let mut ct = vec![0u8; PLAINTEXT.len() + SealKey::<CS>::OVERHEAD];
                            let ad = AuthData { version: VERSION, label_id: label };
                            let sealed = SealKey::<CS>::from_raw(&raw, Seq::ZERO).ok().and_then(|mut k| k.seal(&mut ct, PLAINTEXT, &ad).ok());
                            let r0 = rs.open(ctx, |key: &OpenKey<CS>, label_in: LabelId| -> Result<bool, Error> {
                                let mut pt = vec![0u8; PLAINTEXT.len()];
                                let ad = AuthData { version: VERSION, label_id: label_in };
                                key.open(&mut pt, &ct, &ad, Seq::ZERO)?;
                                Ok(pt == PLAINTEXT)
                            });
                            let res = match r0 {
                                Ok(Ok(true)) if sealed.is_some() => "ok".to_string(),
                                Ok(Ok(_)) | Ok(Err(_)) => "fail".to_string(),
                                Err(e) => err_class(&e),
                            };
                            if res == "fail" {
                                sh.lock().unwrap().mon.flag(
                                    "C42:wrong-key",
                                    format!("reader {r}: a message sealed with channel {n}'s key does not open through its open context"),
                                );
                            }
                            sh.lock().unwrap().rctx[r - 1].2 = res.clone();
                            ev(&sh, r, true, "open", n, &res, -1, vec![]);
                        } else {
                            break;
                        }
                    }
                }
            }
        });
    }
    let mut ctl = Ctl { sh: Arc::clone(&sh), rs: Arc::clone(&rs), rops, rng: rng.clone(), selftest: selftest.to_string() };
    let o = driver::run(&sched, b.a("steps"), &mut ctl, rng, 100_000);
    drop(sched);
    let events = std::mem::take(&mut sh.lock().unwrap().mon.events);
    (o, events)
}
