//! `vsched` — cooperative yield-point scheduler and tracking allocator (DESIGN §2.1 SCHED).
//!
//! The code under test is compiled with `--cfg aranya_verif`, so every access to shared memory
//! is preceded by a *yield point* that calls a process-global hook.  The engine installs
//! [`hook_point`] / [`hook_futex`] as these hooks.  Test "threads" are created with
//! [`Sched::spawn`]; a thread that reaches a (visible) yield point parks there until the
//! controller (the engine) releases it with [`Sched::step`], which returns when the released
//! thread has parked again, went to sleep in the futex shim, or finished.  Hence exactly one
//! thread runs between two yield points and an interleaving is the sequence of `(thread, site)`
//! pairs the controller chooses.
//!
//! Threads are *stackful coroutines* (`corosensei`) on the controller's OS thread rather than OS
//! threads: the scheduler serialises all execution anyway (TLC's interleaving semantics,
//! DESIGN §9), and a hand-over that is a user-space stack switch costs ~50 ns instead of two
//! kernel wake-ups (measured 1 ms/step on this machine under load, i.e. minutes per check).
//! Consequences: nothing in the code under test may block in the kernel on another test thread —
//! `futex_wait` is routed to [`hook_futex`], and locks of the code under test that are not built
//! from yield points must be announced by lock/unlock marker sites so the controller never
//! releases a thread into a lock a parked thread holds.
//!
//! Code that runs outside any test thread (the controller itself) passes through yield points
//! without stopping and uses the real futex.

pub mod alloc;

use std::{
    any::Any,
    cell::{Cell, RefCell},
    panic::{self, AssertUnwindSafe},
    rc::Rc,
};

use corosensei::{stack::DefaultStack, Coroutine, CoroutineResult, Yielder};

/// Site number the futex shim parks at before `futex_wait` compares the word.
/// (Equal to `aranya_fast_channels::verif::site::FUTEX_WAIT`.)
pub const SITE_FUTEX_WAIT: u32 = 8;
/// Site number the futex shim parks at before `futex_wake` wakes sleepers.
pub const SITE_FUTEX_WAKE: u32 = 9;

pub const FUTEX_OP_WAIT: u32 = 0;
pub const FUTEX_OP_WAKE: u32 = 1;

const STACK_SIZE: usize = 1 << 20;

/// What a test thread is doing, as seen by the controller.
#[derive(Clone, Debug, PartialEq, Eq)]
pub enum Status {
    /// Created, has not reached its first yield point yet.
    Fresh,
    /// Parked at a yield point, *before* the access the site announces.
    Parked { site: u32, a: usize, b: usize },
    /// Released by the controller and not yet parked again.
    Running,
    /// Blocked in `futex_wait(addr)`; `woken` = a `futex_wake` selected it (wake-up pending).
    Sleeping { addr: usize, woken: bool },
    /// The thread's closure returned.
    Done,
    /// The thread's closure panicked (a panic of the code under test is data).
    Panicked(String),
}

impl Status {
    pub fn site(&self) -> Option<u32> {
        match self {
            Status::Parked { site, .. } => Some(*site),
            _ => None,
        }
    }
    pub fn is_finished(&self) -> bool {
        matches!(self, Status::Done | Status::Panicked(_))
    }
}

#[derive(Debug)]
pub enum StepError {
    /// `step` called for a thread that cannot run.
    NotRunnable(usize, Status),
}

type Co = Coroutine<(), (), (), DefaultStack>;

struct Inner {
    st: Vec<Status>,
    yielders: Vec<*const Yielder<(), ()>>,
    /// Sites at which threads park; at all other sites `point` returns at once.
    visible: [bool; 256],
    /// The sleeper the next `futex_wake` must pick (schedule decision).
    wake_choice: Option<usize>,
    /// Sleepers woken by the last executed `futex_wake`.
    last_woken: Vec<usize>,
    /// Atomic sections: a thread released from site `.0` passes every site without parking
    /// until it has passed site `.1` (a lock of the code under test that is not built from
    /// yield points: the controller only releases the thread into it while it is free, and the
    /// thread then runs through its critical section in one step).
    atomic: Option<(u32, u32)>,
    in_atomic: Vec<bool>,
    /// Set by `abort_and_join`: parked threads unwind, yield points no longer stop.
    aborting: bool,
    /// Number of yield points passed (visible or not) — the global step clock.
    clock: u64,
}

pub struct Sched {
    inner: RefCell<Inner>,
    coros: RefCell<Vec<Option<Co>>>,
}

thread_local! {
    /// The test thread currently running on this OS thread: (scheduler, tid).
    static CUR: Cell<Option<(*const Sched, usize)>> = const { Cell::new(None) };
    /// Stacks of finished threads, re-used by later ones (mmap/munmap per thread is slow).
    static STACKS: RefCell<Vec<DefaultStack>> = const { RefCell::new(Vec::new()) };
}

/// Total number of hand-overs in this process (progress indicator for the watchdog).
pub static PROGRESS: std::sync::atomic::AtomicU64 = std::sync::atomic::AtomicU64::new(0);
/// Set by engines while a schedule is being executed (the watchdog only fires then).
pub static BUSY: std::sync::atomic::AtomicBool = std::sync::atomic::AtomicBool::new(false);

/// Panic payload used to unwind parked threads at the end of a schedule.
struct AbortToken;

fn cur() -> Option<(&'static Sched, usize)> {
    CUR.try_with(|c| c.get()).ok().flatten().map(|(s, t)| {
        // SAFETY: `CUR` is only set by `Sched::release` for the duration of a `resume`, during
        // which the scheduler is borrowed (it outlives the running coroutine).
        (unsafe { &*s }, t)
    })
}

/// The yield point hook (install with `verif::set_point_hook(Some(vsched::hook_point))`).
pub fn hook_point(site: u32, a: usize, b: usize) {
    if let Some((s, tid)) = cur() {
        s.park(tid, site, a, b);
    }
}

/// A yield point issued by the harness itself (critical section markers, hand-overs ...).
pub fn point(site: u32, a: usize, b: usize) {
    hook_point(site, a, b);
}

/// The futex hook (install with `verif::set_futex_hook(Some(vsched::hook_futex))`).
/// Returns false outside test threads: they use the real futex.
pub fn hook_futex(op: u32, addr: usize, val: u32) -> bool {
    match cur() {
        None => false,
        Some((s, tid)) => {
            if op == FUTEX_OP_WAIT {
                s.futex_wait(tid, addr, val);
            } else {
                s.futex_wake(tid, addr, val);
            }
            true
        }
    }
}

/// Id of the calling test thread, if any.
pub fn current_tid() -> Option<usize> {
    cur().map(|(_, t)| t)
}

/// Global step clock of the scheduler the calling test thread belongs to.
pub fn current_clock() -> u64 {
    cur().map(|(s, _)| s.clock()).unwrap_or(0)
}

impl Sched {
    #[allow(clippy::new_ret_no_self)]
    pub fn new() -> Rc<Self> {
        Rc::new(Sched {
            inner: RefCell::new(Inner {
                st: Vec::new(),
                yielders: Vec::new(),
                visible: [true; 256],
                wake_choice: None,
                last_woken: Vec::new(),
                atomic: None,
                in_atomic: Vec::new(),
                aborting: false,
                clock: 0,
            }),
            coros: RefCell::new(Vec::new()),
        })
    }

    /// Only the listed sites stop threads; all others are passed through.
    pub fn set_visible(&self, sites: &[u32]) {
        let mut g = self.inner.borrow_mut();
        g.visible = [false; 256];
        for &s in sites {
            g.visible[s as usize & 255] = true;
        }
    }

    /// Declares the enter/exit marker sites of atomic sections (see `Inner::atomic`).
    pub fn set_atomic_section(&self, enter: u32, exit: u32) {
        self.inner.borrow_mut().atomic = Some((enter, exit));
    }

    /// Is `tid` inside an atomic section (between its enter and exit markers)?
    pub fn in_atomic(&self, tid: usize) -> bool {
        self.inner.borrow().in_atomic[tid]
    }

    /// Global step clock (number of yield points passed so far).
    pub fn clock(&self) -> u64 {
        self.inner.borrow().clock
    }

    // ------------------------------------------------------------------ thread side

    /// Gives control back to the controller and waits for the next release.
    /// Returns false when the schedule is being aborted.
    fn yield_to_controller(&self, tid: usize) -> bool {
        let y = self.inner.borrow().yielders[tid];
        // SAFETY: the yielder of coroutine `tid` lives as long as the coroutine, and we are
        // running on that coroutine's stack.
        let tracking = alloc::suspend();
        unsafe { (*y).suspend(()) };
        alloc::resume(tracking);
        !self.inner.borrow().aborting
    }

    fn park(&self, tid: usize, site: u32, a: usize, b: usize) {
        if std::thread::panicking() {
            // an unwinding thread runs its destructors without yielding
            return;
        }
        alloc::note(a);
        {
            let mut g = self.inner.borrow_mut();
            g.clock += 1;
            if g.aborting {
                drop(g);
                panic::resume_unwind(Box::new(AbortToken));
            }
            if let Some((_, exit)) = g.atomic {
                if g.in_atomic[tid] {
                    if site == exit {
                        g.in_atomic[tid] = false;
                    }
                    return;
                }
            }
            if !g.visible[site as usize & 255] {
                return;
            }
            g.st[tid] = Status::Parked { site, a, b };
        }
        if !self.yield_to_controller(tid) {
            panic::resume_unwind(Box::new(AbortToken));
        }
        let mut g = self.inner.borrow_mut();
        g.st[tid] = Status::Running;
        if let Some((enter, _)) = g.atomic {
            if site == enter {
                g.in_atomic[tid] = true;
            }
        }
    }

    fn futex_wait(&self, tid: usize, addr: usize, val: u32) {
        // the compare-and-block of futex(2) is one atomic step, announced by a yield point
        self.park(tid, SITE_FUTEX_WAIT, addr, val as usize);
        if std::thread::panicking() {
            return;
        }
        // SAFETY: `addr` is the address of the live `AtomicU32` passed to `futex_wait`.
        let cur = unsafe {
            (*(addr as *const std::sync::atomic::AtomicU32)).load(std::sync::atomic::Ordering::SeqCst)
        };
        if cur != val {
            return; // EAGAIN: keeps running
        }
        self.inner.borrow_mut().st[tid] = Status::Sleeping { addr, woken: false };
        if !self.yield_to_controller(tid) {
            panic::resume_unwind(Box::new(AbortToken));
        }
        self.inner.borrow_mut().st[tid] = Status::Running;
    }

    fn futex_wake(&self, tid: usize, addr: usize, n: u32) {
        self.park(tid, SITE_FUTEX_WAKE, addr, n as usize);
        if std::thread::panicking() {
            return;
        }
        let mut g = self.inner.borrow_mut();
        g.last_woken.clear();
        let mut left = n;
        let choice = g.wake_choice.take();
        let mut order: Vec<usize> = (0..g.st.len()).collect();
        if let Some(c) = choice {
            order.retain(|&x| x != c);
            order.insert(0, c);
        }
        for t in order {
            if left == 0 {
                break;
            }
            if let Status::Sleeping { addr: a, woken: false } = g.st[t] {
                if a == addr {
                    g.st[t] = Status::Sleeping { addr: a, woken: true };
                    g.last_woken.push(t);
                    left -= 1;
                }
            }
        }
    }

    // ------------------------------------------------------------------ controller side

    /// Creates a test thread and runs it up to its first visible yield point.
    pub fn spawn<F>(self: &Rc<Self>, f: F) -> usize
    where
        F: FnOnce() + Send + 'static,
    {
        let tid = {
            let mut g = self.inner.borrow_mut();
            g.st.push(Status::Fresh);
            g.yielders.push(std::ptr::null());
            g.in_atomic.push(false);
            g.st.len() - 1
        };
        let me: *const Sched = Rc::as_ptr(self);
        let stack = STACKS
            .with(|p| p.borrow_mut().pop())
            .unwrap_or_else(|| DefaultStack::new(STACK_SIZE).expect("coroutine stack"));
        let co: Co = Coroutine::with_stack(stack, move |y: &Yielder<(), ()>, ()| {
            // SAFETY: the scheduler owns this coroutine and drops it before it is dropped itself.
            let me = unsafe { &*me };
            {
                let mut g = me.inner.borrow_mut();
                g.yielders[tid] = y as *const _;
                g.st[tid] = Status::Running;
            }
            let r = panic::catch_unwind(AssertUnwindSafe(f));
            me.inner.borrow_mut().st[tid] = match r {
                Ok(()) => Status::Done,
                Err(e) => {
                    if e.is::<AbortToken>() {
                        Status::Done
                    } else {
                        Status::Panicked(panic_msg(&e))
                    }
                }
            };
        });
        self.coros.borrow_mut().push(Some(co));
        self.release(tid);
        tid
    }

    fn release(&self, tid: usize) -> Status {
        PROGRESS.fetch_add(1, std::sync::atomic::Ordering::Relaxed);
        let mut co = self.coros.borrow_mut()[tid].take().expect("coroutine is not running");
        let prev = CUR.with(|c| c.replace(Some((self as *const Sched, tid))));
        let r = co.resume(());
        CUR.with(|c| c.set(prev));
        match r {
            CoroutineResult::Yield(()) => self.coros.borrow_mut()[tid] = Some(co),
            // finished: keep its stack for the next thread
            CoroutineResult::Return(()) => STACKS.with(|p| p.borrow_mut().push(co.into_stack())),
        }
        self.inner.borrow().st[tid].clone()
    }

    pub fn status(&self, tid: usize) -> Status {
        self.inner.borrow().st[tid].clone()
    }

    pub fn statuses(&self) -> Vec<Status> {
        self.inner.borrow().st.clone()
    }

    /// May `tid` be released?  Parked threads always; sleepers only when woken.
    pub fn runnable(&self, tid: usize) -> bool {
        matches!(
            self.inner.borrow().st[tid],
            Status::Parked { .. } | Status::Sleeping { woken: true, .. }
        )
    }

    /// The sleeper the next executed `futex_wake` picks first.
    pub fn set_wake_choice(&self, tid: Option<usize>) {
        self.inner.borrow_mut().wake_choice = tid;
    }

    /// Binding self-test support: take the wake-up back from `tids` (a swallowed `futex_wake`).
    pub fn unwake(&self, tids: &[usize]) {
        let mut g = self.inner.borrow_mut();
        for &t in tids {
            if let Status::Sleeping { addr, woken: true } = g.st[t] {
                g.st[t] = Status::Sleeping { addr, woken: false };
            }
        }
    }

    pub fn last_woken(&self) -> Vec<usize> {
        self.inner.borrow().last_woken.clone()
    }

    /// Releases `tid` for one step: it performs the access announced by the site it is parked
    /// at and runs until its next visible yield point.  A sleeper that was not woken is only
    /// released with `spurious = true` (a spurious futex wake-up — a schedule decision).
    pub fn step(&self, tid: usize, spurious: bool) -> Result<Status, StepError> {
        {
            let mut g = self.inner.borrow_mut();
            match g.st[tid].clone() {
                Status::Parked { .. } | Status::Sleeping { woken: true, .. } => {}
                Status::Sleeping { addr, woken: false } if spurious => {
                    g.st[tid] = Status::Sleeping { addr, woken: true };
                }
                s => return Err(StepError::NotRunnable(tid, s)),
            }
        }
        Ok(self.release(tid))
    }

    /// Ends the schedule.  Threads that have not finished are *abandoned* where they are parked:
    /// their stacks are reset without running destructors (destructors of the code under test may
    /// panic — `buggy::bug!` does in debug builds — and a panic while unwinding aborts the
    /// process).  Whatever such a thread owned is leaked; this only happens in schedules that end
    /// abnormally (a reported failure, a lost wake-up, a binding self-test).
    pub fn abort_and_join(&self) {
        self.inner.borrow_mut().aborting = true;
        let mut coros = std::mem::take(&mut *self.coros.borrow_mut());
        for (tid, slot) in coros.iter_mut().enumerate() {
            if let Some(mut co) = slot.take() {
                if !co.done() {
                    // SAFETY: the objects on the abandoned stack are deliberately leaked (never
                    // dropped, never touched again); nothing else refers into that stack.
                    unsafe { co.force_reset() };
                    ABANDONED.fetch_add(1, std::sync::atomic::Ordering::Relaxed);
                }
                STACKS.with(|p| p.borrow_mut().push(co.into_stack()));
                let mut g = self.inner.borrow_mut();
                if !g.st[tid].is_finished() {
                    g.st[tid] = Status::Done;
                }
            }
        }
    }
}

/// Number of threads abandoned by `abort_and_join` in this process.
pub static ABANDONED: std::sync::atomic::AtomicU64 = std::sync::atomic::AtomicU64::new(0);

impl Drop for Sched {
    fn drop(&mut self) {
        // never let corosensei force-unwind a suspended coroutine behind our back
        if self.coros.borrow().iter().any(Option::is_some) {
            self.abort_and_join();
        }
    }
}

fn panic_msg(e: &Box<dyn Any + Send>) -> String {
    if let Some(s) = e.downcast_ref::<&str>() {
        (*s).to_string()
    } else if let Some(s) = e.downcast_ref::<String>() {
        s.clone()
    } else {
        "panic (non-string payload)".to_string()
    }
}

/// Silences the default panic hook (panics of test threads are reported as data) unless
/// `VH_PANIC_VERBOSE` is set.
pub fn quiet_panics() {
    if std::env::var_os("VH_PANIC_VERBOSE").is_none() {
        panic::set_hook(Box::new(|_| {}));
    }
}

/// Starts an OS thread that ends the process with status 2 (tool error) when no hand-over
/// happened for `secs` seconds while [`BUSY`] is set — a test thread blocked outside the
/// scheduler's view (coroutines cannot be pre-empted).
pub fn start_watchdog(secs: u64) {
    use std::sync::atomic::Ordering;
    std::thread::spawn(move || {
        let mut last = PROGRESS.load(Ordering::Relaxed);
        let mut idle = 0;
        loop {
            std::thread::sleep(std::time::Duration::from_secs(1));
            let now = PROGRESS.load(Ordering::Relaxed);
            if now == last && BUSY.load(Ordering::Relaxed) {
                idle += 1;
                if idle >= secs {
                    eprintln!(
                        "vh: tool error: no scheduler progress for {secs}s (a test thread blocks \
                         outside the scheduler's view)"
                    );
                    std::process::exit(2);
                }
            } else {
                idle = 0;
                last = now;
            }
        }
    });
}
