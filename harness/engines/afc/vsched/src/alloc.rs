//! Tracking global allocator: the memory-safety oracle of C33 / C44.
//!
//! Allocations made while the calling thread is inside [`track`] are *tracked*.  When a tracked
//! block is freed (from any thread) it is filled with [`POISON`], kept in quarantine (never handed
//! back to the system allocator before [`reset`]) and remembered as freed, so that
//!
//! * a second free of the same block is a detected **double free**,
//! * an access to an address inside a freed block (reported by the yield points, which carry the
//!   address of the atomic they are about to touch) is a detected **use after free**
//!   ([`is_freed`]), and reading the block yields the poison pattern,
//! * a tracked block still live at [`reset`] is a detected **leak**.
//!
//! Everything else is passed to `std::alloc::System`.

use std::{
    alloc::{GlobalAlloc, Layout, System},
    cell::Cell,
    sync::atomic::{AtomicBool, AtomicUsize, Ordering},
};

pub const POISON: u8 = 0xDE;
const CAP: usize = 1024;

#[derive(Clone, Copy)]
struct Ent {
    ptr: usize,
    size: usize,
    align: usize,
    freed: bool,
    /// a yield point reported an address inside this block (it is shared data of the code under test)
    marked: bool,
}

struct Table {
    lock: AtomicBool,
    n: AtomicUsize,
    ents: std::cell::UnsafeCell<[Ent; CAP]>,
    double_free: AtomicUsize,
    overflow: AtomicBool,
}

// SAFETY: `ents` is only accessed while `lock` is held.
unsafe impl Sync for Table {}

static TABLE: Table = Table {
    lock: AtomicBool::new(false),
    n: AtomicUsize::new(0),
    ents: std::cell::UnsafeCell::new([Ent { ptr: 0, size: 0, align: 0, freed: false, marked: false }; CAP]),
    double_free: AtomicUsize::new(0),
    overflow: AtomicBool::new(false),
};

thread_local! {
    static TRACK: Cell<bool> = const { Cell::new(false) };
}

fn with_table<R>(f: impl FnOnce(&mut [Ent; CAP], &AtomicUsize) -> R) -> R {
    while TABLE.lock.compare_exchange_weak(false, true, Ordering::Acquire, Ordering::Relaxed).is_err() {
        std::hint::spin_loop();
    }
    // SAFETY: the spin lock is held.
    let r = f(unsafe { &mut *TABLE.ents.get() }, &TABLE.n);
    TABLE.lock.store(false, Ordering::Release);
    r
}

/// The allocator; declare `#[global_allocator] static A: TrackAlloc = TrackAlloc;` in the binary.
pub struct TrackAlloc;

// SAFETY: defers to `System`; tracked blocks are only withheld from `System::dealloc` until `reset`.
unsafe impl GlobalAlloc for TrackAlloc {
    unsafe fn alloc(&self, layout: Layout) -> *mut u8 {
        // SAFETY: forwarded contract.
        let p = unsafe { System.alloc(layout) };
        if !p.is_null() && TRACK.try_with(|t| t.get()).unwrap_or(false) {
            with_table(|e, n| {
                let k = n.load(Ordering::Relaxed);
                if k < CAP {
                    e[k] = Ent { ptr: p as usize, size: layout.size(), align: layout.align(), freed: false, marked: false };
                    n.store(k + 1, Ordering::Relaxed);
                } else {
                    TABLE.overflow.store(true, Ordering::Relaxed);
                }
            });
        }
        p
    }

    unsafe fn dealloc(&self, ptr: *mut u8, layout: Layout) {
        if TABLE.n.load(Ordering::Relaxed) != 0 {
            // 0 = untracked, 1 = first free (quarantine), 2 = double free
            let kind = with_table(|e, n| {
                let k = n.load(Ordering::Relaxed);
                for ent in e[..k].iter_mut() {
                    if ent.ptr == ptr as usize {
                        if ent.freed {
                            return 2;
                        }
                        ent.freed = true;
                        return 1;
                    }
                }
                0
            });
            match kind {
                1 => {
                    // SAFETY: the block is still allocated (we withhold it) and `size` bytes long.
                    unsafe { std::ptr::write_bytes(ptr, POISON, layout.size()) };
                    return;
                }
                2 => {
                    TABLE.double_free.fetch_add(1, Ordering::Relaxed);
                    return;
                }
                _ => {}
            }
        }
        // SAFETY: forwarded contract.
        unsafe { System.dealloc(ptr, layout) }
    }
}

/// Runs `f` with allocation tracking enabled on this thread.
pub fn track<R>(f: impl FnOnce() -> R) -> R {
    let old = TRACK.with(|t| t.replace(true));
    let r = f();
    TRACK.with(|t| t.set(old));
    r
}

/// Tracking is a property of the *test thread*, not of the OS thread the coroutines share: the
/// scheduler switches it off while another thread runs.
pub fn suspend() -> bool {
    TRACK.try_with(|t| t.replace(false)).unwrap_or(false)
}

pub fn resume(old: bool) {
    let _ = TRACK.try_with(|t| t.set(old));
}

/// A yield point is about to touch `addr`: the tracked block holding it is shared data.
pub fn note(addr: usize) {
    if addr == 0 || TABLE.n.load(Ordering::Relaxed) == 0 {
        return;
    }
    with_table(|e, n| {
        for x in e[..n.load(Ordering::Relaxed)].iter_mut() {
            if addr >= x.ptr && addr < x.ptr + x.size.max(1) {
                x.marked = true;
            }
        }
    })
}

/// Is `addr` inside a tracked block that has been freed?
pub fn is_freed(addr: usize) -> bool {
    if TABLE.n.load(Ordering::Relaxed) == 0 {
        return false;
    }
    with_table(|e, n| {
        e[..n.load(Ordering::Relaxed)]
            .iter()
            .any(|x| x.freed && addr >= x.ptr && addr < x.ptr + x.size.max(1))
    })
}

/// Is `addr` inside a tracked block that is still live?
pub fn is_live(addr: usize) -> bool {
    with_table(|e, n| {
        e[..n.load(Ordering::Relaxed)]
            .iter()
            .any(|x| !x.freed && addr >= x.ptr && addr < x.ptr + x.size.max(1))
    })
}

#[derive(Debug, Default, Clone, PartialEq, Eq)]
pub struct Report {
    /// tracked blocks allocated since the last reset
    pub tracked: usize,
    /// tracked blocks freed (once)
    pub freed: usize,
    /// tracked blocks still live (= leaks when taken at the end of a run)
    pub live: usize,
    /// second frees of a tracked block
    pub double_free: usize,
    /// marked (touched by a yield point) blocks freed / still live
    pub freed_marked: usize,
    pub live_marked: usize,
    /// the table overflowed (tool error: results incomplete)
    pub overflow: bool,
}

/// Current counters.
pub fn report() -> Report {
    with_table(|e, n| {
        let k = n.load(Ordering::Relaxed);
        let freed = e[..k].iter().filter(|x| x.freed).count();
        Report {
            tracked: k,
            freed,
            live: k - freed,
            freed_marked: e[..k].iter().filter(|x| x.freed && x.marked).count(),
            live_marked: e[..k].iter().filter(|x| !x.freed && x.marked).count(),
            double_free: TABLE.double_free.load(Ordering::Relaxed),
            overflow: TABLE.overflow.load(Ordering::Relaxed),
        }
    })
}

/// Ends a run: returns the counters, hands every tracked block (quarantined or leaked) back to
/// the system allocator and clears the table.
pub fn reset() -> Report {
    let r = report();
    // copy out on the stack: no allocation while the table lock is held
    let (ents, k) = with_table(|e, n| {
        let k = n.load(Ordering::Relaxed);
        n.store(0, Ordering::Relaxed);
        (*e, k)
    });
    TABLE.double_free.store(0, Ordering::Relaxed);
    TABLE.overflow.store(false, Ordering::Relaxed);
    for x in &ents[..k] {
        if let Ok(l) = Layout::from_size_align(x.size, x.align) {
            // SAFETY: the block was allocated by `System.alloc` with this layout and was never
            // handed back (freed tracked blocks are quarantined, live ones are leaks).
            unsafe { System.dealloc(x.ptr as *mut u8, l) };
        }
    }
    r
}
