//! `vh-small` — small sequential machines (DESIGN §3.6): CStrWriter (C47), KeyStore (C45) ...
mod cli;
mod cstr;
mod keystore;
mod text;

fn main() {
    let args = vrt::Args::parse();
    match args.sub.as_str() {
        "cli" => cli::run(&args),
        "cstr" => cstr::run(&args),
        "keystore" => keystore::run(&args),
        "text" => text::run(&args),
        s => vrt::die(&format!("unknown subcommand {s}")),
    }
}
