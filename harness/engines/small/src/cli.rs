//! TABLE binding of `CliValidate.tla` to the real `policy-compiler` binary (C31).
//!
//! item: `{"cell": {"class","ffi","novalidate","stubffi","out","verbose"}, "success": bool,
//!         "exit": "success|failure|panic", "written": bool, "said": [..],
//!         "doc": "<document text>", "doc_name": ".."}` — a cell of the decision table with the
//! outcome the spec's relation defines, concretised by the driver with one corpus document of
//! the cell's class.  `--opt bin=<path>` names the binary built from the current /repo tree.
//!
//! For every item the engine writes the document into a fresh directory, runs the binary with
//! the cell's flags and decides on the observables of the property: the process exit status and
//! which files exist afterwards (the output module at the path the flags select, nothing else),
//! plus: a written module must decode as `aranya_policy_module::Module`.
use std::{
    collections::BTreeSet,
    fs,
    path::{Path, PathBuf},
    process::{Command, Stdio},
    sync::{
        atomic::{AtomicUsize, Ordering},
        Mutex,
    },
    time::{Duration, Instant},
};

use aranya_policy_module::Module;
use vrt::{json, Args, Value, J};

const TIMEOUT: Duration = Duration::from_secs(60);

struct RunOut {
    /// `Some(code)` if the process exited, `None` if killed by a signal or timed out
    code: Option<i32>,
    timed_out: bool,
    stdout: String,
    stderr: String,
}

fn run_bin(bin: &str, args: &[String], cwd: &Path, log: &Path) -> RunOut {
    // stdout/stderr go to files outside the observed directory (no pipe to fill up)
    let so = log.with_extension("stdout");
    let se = log.with_extension("stderr");
    let mk = |p: &Path| fs::File::create(p).unwrap_or_else(|e| vrt::die(&format!("create {}: {e}", p.display())));
    let mut child = Command::new(bin)
        .args(args)
        .current_dir(cwd)
        .stdin(Stdio::null())
        .stdout(Stdio::from(mk(&so)))
        .stderr(Stdio::from(mk(&se)))
        .spawn()
        .unwrap_or_else(|e| vrt::die(&format!("spawn {bin}: {e}")));
    let t0 = Instant::now();
    let mut timed_out = false;
    let status = loop {
        match child.try_wait() {
            Ok(Some(s)) => break Some(s),
            Ok(None) => {
                if t0.elapsed() > TIMEOUT {
                    let _ = child.kill();
                    let _ = child.wait();
                    timed_out = true;
                    break None;
                }
                std::thread::sleep(Duration::from_millis(2));
            }
            Err(e) => vrt::die(&format!("wait: {e}")),
        }
    };
    let rd = |p: &Path| String::from_utf8_lossy(&fs::read(p).unwrap_or_default()).into_owned();
    let (stdout, stderr) = (rd(&so), rd(&se));
    let _ = fs::remove_file(&so);
    let _ = fs::remove_file(&se);
    RunOut { code: status.and_then(|s| s.code()), timed_out, stdout, stderr }
}

fn tail(s: &str, n: usize) -> String {
    let start = s.len().saturating_sub(n);
    let mut i = start;
    while !s.is_char_boundary(i) {
        i += 1;
    }
    s[i..].to_string()
}

fn fail(i: usize, key: &str, msg: &str, obs: Value) -> Value {
    json!({"i": i, "ok": false, "step": 0, "key": key, "msg": msg, "obs": obs})
}

fn eval(i: usize, it: &Value, bin: &str, base: &Path) -> Value {
    let res;
    let cell = it.g("cell");
    let class = cell.s("class");
    let (ffi, noval, stub, outf, verbose) =
        (cell.b("ffi"), cell.b("novalidate"), cell.b("stubffi"), cell.b("out"), cell.b("verbose"));
    let exp_success = it.b("success");
    let exp_written = it.b("written");

    let dir = base.join(format!("c{i}"));
    fs::create_dir_all(&dir).unwrap_or_else(|e| vrt::die(&format!("mkdir: {e}")));
    let input = dir.join("policy.md");
    if class != "missing" {
        fs::write(&input, it.s("doc")).unwrap_or_else(|e| vrt::die(&format!("write doc: {e}")));
    }
    let mut argv: Vec<String> = vec!["policy.md".into()];
    let out_name = if outf { "custom.out" } else { "policy.pmod" };
    if outf {
        argv.push("--out".into());
        argv.push("custom.out".into());
    }
    if verbose {
        argv.push("--verbose".into());
    }
    if noval {
        argv.push("--no-validate".into());
    }
    if stub {
        argv.push("--stub-ffi".into());
    }
    let r = run_bin(&bin, &argv, &dir, &base.join(format!("log{i}")));

    let files: BTreeSet<String> = fs::read_dir(&dir)
        .unwrap_or_else(|e| vrt::die(&format!("read_dir: {e}")))
        .filter_map(|e| e.ok())
        .map(|e| e.file_name().to_string_lossy().into_owned())
        .filter(|n| n != "policy.md")
        .collect();
    let got_success = r.code == Some(0);
    let got_written = files.contains(out_name);
    let extra: Vec<&String> = files.iter().filter(|n| *n != out_name).collect();
    let module_ok = if got_written {
        match fs::File::open(dir.join(out_name)) {
            Ok(f) => match vrt::catch_any(|| ciborium::from_reader::<Module, _>(f)) {
                Ok(Ok(_)) => Ok(()),
                Ok(Err(e)) => Err(format!("{e}")),
                Err(p) => Err(format!("panic: {p}")),
            },
            Err(e) => Err(format!("open: {e}")),
        }
    } else {
        Ok(())
    };

    let obs = json!({"cell": cell, "doc_name": it.get("doc_name"), "argv": argv, "code": r.code,
                     "timed_out": r.timed_out, "files": files,
                     "stdout": tail(&r.stdout, 600), "stderr": tail(&r.stderr, 600)});
    let cls = format!("{class}{}:{}", if ffi { "+ffi" } else { "" },
                      if noval { "no-validate" } else { "validate" });
    let stubs = if stub { ":stub-ffi" } else { "" };
    let show = |s: bool, w: bool| format!("{}{}", if s { "success" } else { "failure" }, if w { "+file" } else { "" });

    if r.timed_out {
        res = fail(i, &format!("C31:{cls}{stubs}:timeout"), "the compiler did not terminate within 60 s", obs);
    } else if got_success != exp_success || got_written != exp_written {
        let key = format!("C31:{cls}{stubs}:{}->{}", show(exp_success, exp_written), show(got_success, got_written));
        let msg = format!(
            "document class `{class}`{} with flags {:?}: the decision table defines {} , the binary gave {} (exit code {:?})",
            if ffi { " (uses FFI)" } else { "" }, &argv[1..], show(exp_success, exp_written),
            show(got_success, got_written), r.code
        );
        res = fail(i, &key, &msg, obs);
    } else if !extra.is_empty() {
        res = fail(i, &format!("C31:{cls}{stubs}:stray-files"),
                   &format!("files other than the selected output were created: {extra:?}"), obs);
    } else if let Err(e) = module_ok {
        res = fail(i, &format!("C31:{cls}{stubs}:module-undecodable"),
                   &format!("the written output does not decode as a policy Module: {e}"), obs);
    } else {
        // drift-level: which stage spoke
        let said: Vec<&str> = it.a("said").iter().filter_map(Value::as_str).collect();
        let mut drift = 0u64;
        let stub_msg = r.stdout.contains("Not creating output file");
        if stub_msg != said.contains(&"not creating output file") {
            drift += 1;
        }
        if (it.s("exit") == "panic") != (r.code == Some(101)) {
            drift += 1;
        }
        if verbose != r.stdout.contains("Compiling ") {
            drift += 1;
        }
        res = json!({"i": i, "ok": true, "step": -1, "drift": drift,
                     "obs": if i < 3 || drift > 0 { obs } else { Value::Null }});
    }
    let _ = fs::remove_dir_all(&dir);
    res
}

pub fn run(args: &Args) {
    let mut out = args.out();
    let bin = args.opt_str("bin", "");
    if bin.is_empty() || !Path::new(&bin).exists() {
        vrt::die("--opt bin=<policy-compiler binary> required");
    }
    let base = PathBuf::from(args.opt_str("dir", "cli-tmp"));
    let _ = fs::remove_dir_all(&base);
    fs::create_dir_all(&base).unwrap_or_else(|e| vrt::die(&format!("mkdir: {e}")));
    let base = base.canonicalize().unwrap_or_else(|e| vrt::die(&format!("canonicalize: {e}")));

    let items = args.read_input();
    let jobs = args.opt_u64("jobs", 8).max(1) as usize;
    let next = AtomicUsize::new(0);
    let results: Mutex<Vec<Option<Value>>> = Mutex::new(vec![None; items.len()]);
    std::thread::scope(|sc| {
        for _ in 0..jobs {
            sc.spawn(|| loop {
                let i = next.fetch_add(1, Ordering::SeqCst);
                if i >= items.len() {
                    break;
                }
                let r = eval(i, &items[i], &bin, &base);
                results.lock().unwrap_or_else(|e| e.into_inner())[i] = Some(r);
            });
        }
    });
    for r in results.into_inner().unwrap_or_else(|e| e.into_inner()) {
        out.emit(r.unwrap_or_else(|| vrt::die("missing result")));
    }
    let _ = fs::remove_dir_all(&base);
    out.finish();
}
