//! S2I replay of `KeyStore.tla` behaviours into `aranya_crypto`'s `MemStore` and fs `Store` (C45).
//!
//! behaviour: `{"steps": [{"op", "id", "how", "ins", "r", "v", "map", "files", "h", "gone"}, ..]}`
//! — one record per spec action with the result class `r` / returned value `v` the map model
//! defines and the projection of the spec state after the step (`map`: value per id, 0 = not
//! occupied; `files`: ids that have a directory entry; `h`: kind of the open handle).
//!
//! Every step is executed through the public `KeyStore`/`Entry`/`Vacant`/`Occupied` API of both
//! stores.  After every step the engine compares: the result class and the returned key with
//! the model; the directory listing of the fs store with `files` (exactly one file per id, plus
//! the debug canary); and — whenever no handle is open — `get` of every id on both stores with
//! `map`.  An `Entry` borrows its store, so the handle lives on the stack of `replay` while the
//! following handle steps are consumed.
use std::{
    collections::{BTreeMap, BTreeSet},
    fs,
    path::{Path, PathBuf},
    sync::{
        atomic::{AtomicBool, Ordering},
        mpsc,
    },
    time::Duration,
};

use aranya_crypto::{
    engine::WrappedKey,
    id::{BaseId, IdError, Identified},
    keystore::{
        fs_keystore::Store, memstore::MemStore, Entry, ErrorKind, KeyStore, Occupied,
        Vacant,
    },
};
use serde::{Deserialize, Serialize};
use vrt::{json, Args, Rng, Value, J};

/// The wrapped key.  `poison != 0` makes `Serialize` fail — before the first field (1), after
/// `v` (2) or after `pad` (3) — which is how the harness drives a failing `Vacant::insert`
/// (the write of the wrapped key fails after the fs store created the file).
#[derive(Clone, Debug, Eq, PartialEq, Deserialize)]
struct TestKey {
    v: u64,
    pad: Vec<u8>,
    #[serde(skip)]
    poison: u8,
}

impl Serialize for TestKey {
    fn serialize<S: serde::Serializer>(&self, s: S) -> Result<S::Ok, S::Error> {
        use serde::ser::{Error, SerializeStruct};
        let fail = || S::Error::custom("wrapped key cannot be exported");
        if self.poison == 1 {
            return Err(fail());
        }
        let mut st = s.serialize_struct("TestKey", 2)?;
        st.serialize_field("v", &self.v)?;
        if self.poison == 2 {
            return Err(fail());
        }
        st.serialize_field("pad", &self.pad)?;
        if self.poison == 3 {
            return Err(fail());
        }
        st.end()
    }
}

impl WrappedKey for TestKey {}

impl Identified for TestKey {
    type Id = BaseId;
    fn id(&self) -> Result<BaseId, IdError> {
        let mut b = [0u8; 32];
        b[..8].copy_from_slice(&self.v.to_le_bytes());
        Ok(BaseId::from(b))
    }
}

struct Step {
    op: String,
    id: usize,
    how: String,
    ins: u64,
    r: String,
    v: u64,
    map: Vec<u64>,
    files: BTreeSet<usize>,
    gone: bool,
}

fn parse(b: &Value) -> Vec<Step> {
    b.a("steps")
        .iter()
        .map(|s| Step {
            op: s.s("op").to_string(),
            id: s.u("id") as usize,
            how: s.s("how").to_string(),
            ins: s.u("ins"),
            r: s.s("r").to_string(),
            v: s.u("v"),
            map: s.a("map").iter().map(|x| x.as_u64().unwrap_or(0)).collect(),
            files: s.a("files").iter().map(|x| x.as_u64().unwrap_or(0) as usize).collect(),
            gone: s.b("gone"),
        })
        .collect()
}

/// What the real store showed at one step.
#[derive(Clone, Debug, Default)]
struct Obs {
    r: String,
    key: Option<TestKey>,
    detail: String,
    /// directory listing after the step (fs only, while the root exists)
    files: Option<BTreeSet<String>>,
    /// `get` of every id after the step (only when no handle is open)
    probe: Option<Vec<String>>,
}

trait Backend {
    type S: KeyStore;
    fn store(&mut self) -> &mut Self::S;
    fn reopen(&mut self, how: &str) -> Result<(), String>;
    /// Remove the root under the open store; `false`: this store has no root (stop here).
    fn rootgone(&mut self) -> bool;
    /// Execute an `entry`-based call after the root is gone, guarded by a watchdog.
    fn gone_call(&mut self, op: &str, id: BaseId, key: Option<TestKey>) -> Obs;
}

struct Mem(MemStore);

impl Backend for Mem {
    type S = MemStore;
    fn store(&mut self) -> &mut MemStore {
        &mut self.0
    }
    fn reopen(&mut self, how: &str) -> Result<(), String> {
        if how == "clone" {
            let c = self.0.clone();
            self.0 = c;
        }
        Ok(())
    }
    fn rootgone(&mut self) -> bool {
        false
    }
    fn gone_call(&mut self, _: &str, _: BaseId, _: Option<TestKey>) -> Obs {
        Obs::default()
    }
}

struct Fs {
    dir: PathBuf,
    store: Option<Store>,
}

static HANG_SEEN: AtomicBool = AtomicBool::new(false);
const HANG_MS: u64 = 3000;

impl Backend for Fs {
    type S = Store;
    fn store(&mut self) -> &mut Store {
        self.store.as_mut().unwrap_or_else(|| vrt::die("fs store lost"))
    }
    fn reopen(&mut self, how: &str) -> Result<(), String> {
        if how == "clone" {
            let c = self.store().try_clone().map_err(|e| format!("try_clone: {e}"))?;
            self.store = Some(c);
        } else {
            self.store = None;
            self.store = Some(Store::open(self.dir.as_path()).map_err(|e| format!("open: {e}"))?);
        }
        Ok(())
    }
    fn rootgone(&mut self) -> bool {
        fs::remove_dir_all(&self.dir).unwrap_or_else(|e| vrt::die(&format!("remove root: {e}")));
        true
    }
    fn gone_call(&mut self, op: &str, id: BaseId, key: Option<TestKey>) -> Obs {
        if HANG_SEEN.load(Ordering::SeqCst) {
            // one spinning thread is enough; the class was reported
            return Obs { r: "not-run".into(), ..Obs::default() };
        }
        let mut store = self.store.take().unwrap_or_else(|| vrt::die("fs store lost"));
        let op = op.to_string();
        let (tx, rx) = mpsc::channel();
        std::thread::spawn(move || {
            let o = call_top(&mut store, &op, id, key);
            let _ = tx.send((store, o));
        });
        match rx.recv_timeout(Duration::from_millis(HANG_MS)) {
            Ok((s, o)) => {
                self.store = Some(s);
                o
            }
            Err(_) => {
                HANG_SEEN.store(true, Ordering::SeqCst);
                Obs {
                    r: "hang".into(),
                    detail: format!("call did not return within {HANG_MS} ms"),
                    ..Obs::default()
                }
            }
        }
    }
}

fn err_class<E: aranya_crypto::keystore::Error>(e: &E) -> (String, String) {
    let r = if e.kind() == ErrorKind::AlreadyExists { "exists" } else { "err" };
    (r.to_string(), e.to_string())
}

/// `get` / `try_insert` / `remove` / `entry` (result class only) on a store without open handle.
fn call_top<S: KeyStore>(s: &mut S, op: &str, id: BaseId, key: Option<TestKey>) -> Obs {
    let mut o = Obs::default();
    let res = vrt::catch_any(|| match op {
        "get" => match s.get::<TestKey>(id) {
            Ok(None) => ("none".to_string(), None, String::new()),
            Ok(Some(k)) => ("some".to_string(), Some(k), String::new()),
            Err(e) => {
                let (r, d) = err_class(&e);
                (r, None, d)
            }
        },
        "tryinsert" => match s.try_insert(id, key.clone().unwrap_or_else(|| vrt::die("no key"))) {
            Ok(()) => ("ok".to_string(), None, String::new()),
            Err(e) => {
                let (r, d) = err_class(&e);
                (r, None, d)
            }
        },
        "remove" => match s.remove::<TestKey>(id) {
            Ok(None) => ("none".to_string(), None, String::new()),
            Ok(Some(k)) => ("some".to_string(), Some(k), String::new()),
            Err(e) => {
                let (r, d) = err_class(&e);
                (r, None, d)
            }
        },
        "entry" => match s.entry::<TestKey>(id) {
            Ok(Entry::Vacant(_)) => ("vacant".to_string(), None, String::new()),
            Ok(Entry::Occupied(_)) => ("occupied".to_string(), None, String::new()),
            Err(e) => {
                let (r, d) = err_class(&e);
                (r, None, d)
            }
        },
        _ => vrt::die(&format!("unknown top-level op {op}")),
    });
    match res {
        Ok((r, k, d)) => {
            o.r = r;
            o.key = k;
            o.detail = d;
        }
        Err(p) => {
            o.r = "panic".into();
            o.detail = p;
        }
    }
    o
}

fn probe<S: KeyStore>(s: &mut S, ids: &[BaseId], keys: &BTreeMap<u64, TestKey>) -> Vec<String> {
    ids.iter()
        .map(|id| {
            let o = call_top(s, "get", *id, None);
            match (&*o.r, o.key) {
                ("some", Some(k)) => {
                    if keys.get(&k.v) == Some(&k) { format!("{}", k.v) } else { format!("corrupt:{}", k.v) }
                }
                ("none", _) => "0".to_string(),
                (r, _) => format!("{r}:{}", o.detail),
            }
        })
        .collect()
}

struct World<'a> {
    ids: &'a [BaseId],
    keys: &'a BTreeMap<u64, TestKey>,
    lister: &'a dyn Fn() -> Option<BTreeSet<String>>,
}

/// Replays `steps` on `b`; returns one `Obs` per executed step (shorter than `steps` when the
/// store took a different branch than the model and the following handle steps cannot run) and
/// the final observation after any open handle was dropped.
fn replay<B: Backend>(b: &mut B, steps: &[Step], w: &World<'_>) -> (Vec<Obs>, Obs) {
    let mut out: Vec<Obs> = Vec::new();
    let mut k = 0;
    let mut gone = false;
    let id_of = |s: &Step| w.ids[s.id - 1];
    'outer: while k < steps.len() {
        let st = &steps[k];
        let mut o;
        match st.op.as_str() {
            "entry" if !gone => {
                let id = id_of(st);
                let store = b.store();
                let e = vrt::catch_any(|| store.entry::<TestKey>(id));
                match e {
                    Err(p) => {
                        out.push(Obs { r: "panic".into(), detail: p, ..Obs::default() });
                        break 'outer;
                    }
                    Ok(Err(e)) => {
                        let (r, d) = err_class(&e);
                        out.push(Obs { r, detail: d, files: (w.lister)(), ..Obs::default() });
                        break 'outer;
                    }
                    Ok(Ok(Entry::Vacant(v))) => {
                        out.push(Obs { r: "vacant".into(), files: (w.lister)(), ..Obs::default() });
                        k += 1;
                        if st.r != "vacant" {
                            break 'outer;
                        }
                        match steps.get(k).map(|s| s.op.as_str()) {
                            Some("vinsert") => {
                                let key = w.keys[&steps[k].ins].clone();
                                let r = vrt::catch_any(|| v.insert(key));
                                o = Obs::default();
                                match r {
                                    Ok(Ok(())) => o.r = "ok".into(),
                                    Ok(Err(e)) => (o.r, o.detail) = err_class(&e),
                                    Err(p) => (o.r, o.detail) = ("panic".into(), p),
                                }
                            }
                            Some("vinsertfail") => {
                                let key = w.keys[&POISON_KEY].clone();
                                let r = vrt::catch_any(|| v.insert(key));
                                o = Obs::default();
                                match r {
                                    Ok(Ok(())) => o.r = "ok".into(),
                                    Ok(Err(e)) => (o.r, o.detail) = err_class(&e),
                                    Err(p) => (o.r, o.detail) = ("panic".into(), p),
                                }
                            }
                            Some("vdrop") => {
                                let r = vrt::catch_any(|| drop(v));
                                o = Obs::default();
                                match r {
                                    Ok(()) => o.r = "ok".into(),
                                    Err(p) => (o.r, o.detail) = ("panic".into(), p),
                                }
                            }
                            Some(other) => vrt::die(&format!("step {k}: {other} with a vacant handle open")),
                            None => {
                                drop(v);
                                break 'outer;
                            }
                        }
                    }
                    Ok(Ok(Entry::Occupied(oc))) => {
                        out.push(Obs { r: "occupied".into(), files: (w.lister)(), ..Obs::default() });
                        k += 1;
                        if st.r != "occupied" {
                            break 'outer;
                        }
                        loop {
                            match steps.get(k).map(|s| s.op.as_str()) {
                                Some("oget") => {
                                    let r = vrt::catch_any(|| oc.get());
                                    let mut g = Obs::default();
                                    match r {
                                        Ok(Ok(key)) => (g.r, g.key) = ("some".into(), Some(key)),
                                        Ok(Err(e)) => (g.r, g.detail) = err_class(&e),
                                        Err(p) => (g.r, g.detail) = ("panic".into(), p),
                                    }
                                    g.files = (w.lister)();
                                    out.push(g);
                                    k += 1;
                                }
                                Some("oremove") => {
                                    let r = vrt::catch_any(|| oc.remove());
                                    o = Obs::default();
                                    match r {
                                        Ok(Ok(key)) => (o.r, o.key) = ("some".into(), Some(key)),
                                        Ok(Err(e)) => (o.r, o.detail) = err_class(&e),
                                        Err(p) => (o.r, o.detail) = ("panic".into(), p),
                                    }
                                    break;
                                }
                                Some("odrop") => {
                                    drop(oc);
                                    o = Obs { r: "ok".into(), ..Obs::default() };
                                    break;
                                }
                                Some(other) => {
                                    vrt::die(&format!("step {k}: {other} with an occupied handle open"))
                                }
                                None => {
                                    drop(oc);
                                    break 'outer;
                                }
                            }
                        }
                    }
                }
            }
            "get" if !gone => o = call_top(b.store(), "get", id_of(st), None),
            "tryinsert" if !gone => {
                let kv = if st.ins != 0 { st.ins } else { NEXT_KEY };
                o = call_top(b.store(), "tryinsert", id_of(st), Some(w.keys[&kv].clone()))
            }
            "tryinsertfail" if !gone => {
                o = call_top(b.store(), "tryinsert", id_of(st), Some(w.keys[&POISON_KEY].clone()))
            }
            "remove" if !gone => o = call_top(b.store(), "remove", id_of(st), None),
            "reopen" => {
                o = Obs::default();
                match vrt::catch_any(|| b.reopen(&st.how)) {
                    Ok(Ok(())) => o.r = "ok".into(),
                    Ok(Err(e)) => (o.r, o.detail) = ("err".into(), e),
                    Err(p) => (o.r, o.detail) = ("panic".into(), p),
                }
            }
            "rootgone" => {
                if !b.rootgone() {
                    break 'outer;
                }
                gone = true;
                o = Obs { r: "ok".into(), ..Obs::default() };
            }
            "get" => o = call_top(b.store(), "get", id_of(st), None),
            "entry" | "tryinsert" | "tryinsertfail" | "remove" => {
                let key = match st.op.as_str() {
                    "tryinsert" => Some(w.keys[&NEXT_KEY].clone()),
                    "tryinsertfail" => Some(w.keys[&POISON_KEY].clone()),
                    _ => None,
                };
                let op = if st.op == "tryinsertfail" { "tryinsert" } else { st.op.as_str() };
                o = b.gone_call(op, id_of(st), key);
                if o.r == "hang" || o.r == "not-run" {
                    out.push(o);
                    break 'outer;
                }
            }
            other => vrt::die(&format!("unknown op {other}")),
        }
        // here no handle is open
        if !gone {
            o.files = (w.lister)();
            o.probe = Some(probe(b.store(), w.ids, w.keys));
        }
        let stop = o.r == "panic";
        out.push(o);
        k += 1;
        if stop {
            break;
        }
    }
    let mut fin = Obs::default();
    if !gone && !out.iter().any(|o| o.r == "panic") {
        fin.files = (w.lister)();
        fin.probe = Some(probe(b.store(), w.ids, w.keys));
    }
    (out, fin)
}

/// key used by a `tryinsert` the model expects to be refused (its `ins` is 0)
const NEXT_KEY: u64 = 1_000_000;
/// key whose encoding fails (`vinsertfail` / `tryinsertfail`)
const POISON_KEY: u64 = 2_000_000;

struct Verdict {
    step: i64,
    key: String,
    msg: String,
}

fn check(
    name: &str,
    steps: &[Step],
    obs: &[Obs],
    fin: &Obs,
    names: &[String],
    keys: &BTreeMap<u64, TestKey>,
    stopped_at_rootgone: bool,
) -> Option<Verdict> {
    let exp_files = |fs: &BTreeSet<usize>| -> BTreeSet<String> { fs.iter().map(|i| names[i - 1].clone()).collect() };
    let files_ok = |got: &BTreeSet<String>, want: &BTreeSet<usize>| -> bool {
        let g: BTreeSet<String> = got.iter().filter(|n| *n != "__canary").cloned().collect();
        g == exp_files(want)
    };
    for (k, st) in steps.iter().enumerate() {
        let Some(o) = obs.get(k) else {
            if stopped_at_rootgone && st.op == "rootgone" {
                return None;
            }
            // an earlier step diverged in kind and was reported there; cannot happen otherwise
            return Some(Verdict {
                step: k as i64,
                key: format!("C45:{name}:short"),
                msg: format!("replay stopped before step {k} ({})", st.op),
            });
        };
        if o.r == "not-run" {
            return None;
        }
        if o.r != st.r {
            return Some(Verdict {
                step: k as i64,
                key: format!("C45:{name}:{}:{}->{}", st.op, st.r, o.r),
                msg: format!(
                    "step {k} {}(id {}): the map model defines result `{}`, the {name} store returned `{}` {}",
                    st.op, st.id, st.r, o.r, o.detail
                ),
            });
        }
        if st.r == "some" {
            let want = keys.get(&st.v);
            if o.key.as_ref() != want {
                return Some(Verdict {
                    step: k as i64,
                    key: format!("C45:{name}:{}:wrong-key", st.op),
                    msg: format!(
                        "step {k} {}(id {}): returned key {:?} is not the stored key v={}",
                        st.op,
                        st.id,
                        o.key.as_ref().map(|x| x.v),
                        st.v
                    ),
                });
            }
        }
        if let Some(f) = &o.files {
            if !st.gone && !files_ok(f, &st.files) {
                return Some(Verdict {
                    step: k as i64,
                    key: format!("C45:{name}:dir:after-{}", st.op),
                    msg: format!(
                        "step {k} {}(id {}): directory holds {:?}, expected exactly {:?} (+ canary)",
                        st.op,
                        st.id,
                        f,
                        exp_files(&st.files)
                    ),
                });
            }
        }
        if let Some(p) = &o.probe {
            let want: Vec<String> = st.map.iter().map(|v| v.to_string()).collect();
            if *p != want {
                return Some(Verdict {
                    step: k as i64,
                    key: format!("C45:{name}:contents:after-{}", st.op),
                    msg: format!(
                        "step {k} {}(id {}): get of every id shows {:?}, the map model holds {:?}",
                        st.op, st.id, p, want
                    ),
                });
            }
        }
    }
    // after the behaviour (an open handle was dropped): contents = final map, no stray file
    if let (Some(last), false) = (steps.last(), steps.iter().any(|s| s.gone)) {
        let occupied: BTreeSet<usize> =
            last.map.iter().enumerate().filter(|(_, v)| **v != 0).map(|(i, _)| i + 1).collect();
        if let Some(f) = &fin.files {
            if !files_ok(f, &occupied) {
                return Some(Verdict {
                    step: steps.len() as i64,
                    key: format!("C45:{name}:dir:at-end"),
                    msg: format!(
                        "after the last step and dropping any open handle the directory holds {:?}, expected exactly {:?} (+ canary)",
                        f,
                        exp_files(&occupied)
                    ),
                });
            }
        }
        if let Some(p) = &fin.probe {
            let want: Vec<String> = last.map.iter().map(|v| v.to_string()).collect();
            if *p != want {
                return Some(Verdict {
                    step: steps.len() as i64,
                    key: format!("C45:{name}:contents:at-end"),
                    msg: format!("final contents {:?}, the map model holds {:?}", p, want),
                });
            }
        }
    }
    None
}

fn list_dir(p: &Path) -> Option<BTreeSet<String>> {
    let rd = fs::read_dir(p).ok()?;
    Some(rd.filter_map(|e| e.ok()).map(|e| e.file_name().to_string_lossy().into_owned()).collect())
}

fn obs_json(obs: &[Obs]) -> Value {
    Value::Array(
        obs.iter()
            .map(|o| json!({"r": o.r, "v": o.key.as_ref().map(|k| k.v), "detail": o.detail,
                            "files": o.files, "probe": o.probe}))
            .collect(),
    )
}

pub fn run(args: &Args) {
    let mut out = args.out();
    let base = PathBuf::from(args.opt_str("dir", "ks-tmp"));
    let _ = fs::remove_dir_all(&base);
    fs::create_dir_all(&base).unwrap_or_else(|e| vrt::die(&format!("mkdir {}: {e}", base.display())));
    for (i, b) in args.read_input().iter().enumerate() {
        let steps = parse(b);
        let nids = steps.first().map(|s| s.map.len()).unwrap_or(0);
        // concretisation: id bytes and key padding from the seed and the behaviour's text
        let mut h = args.seed;
        for c in b.to_string().bytes() {
            h = h.wrapping_mul(0x100_0000_01b3) ^ u64::from(c);
        }
        let mut rng = Rng::new(h);
        // ids: random 32 bytes; in half of the behaviours the later ids differ from the first in a
        // single (seeded) byte, and sometimes the first id starts with zero bytes (base58 '1's),
        // so a store that derives the file name from part of the id is noticed
        let mut ids: Vec<BaseId> = Vec::new();
        let near = rng.chance(1, 2);
        let mut first = [0u8; 32];
        rng.fill(&mut first);
        if rng.chance(1, 4) {
            let z = rng.range(1, 8) as usize;
            first[..z].fill(0);
        }
        while ids.len() < nids {
            let mut bytes = first;
            if !ids.is_empty() {
                if near {
                    let pos = rng.below(32) as usize;
                    bytes[pos] ^= 1 << rng.below(8);
                } else {
                    rng.fill(&mut bytes);
                }
            }
            let id = BaseId::from(bytes);
            if !ids.contains(&id) {
                ids.push(id);
            }
        }
        let names: Vec<String> = ids.iter().map(|x| x.to_string()).collect();
        let mut keys = BTreeMap::new();
        for v in steps.iter().map(|s| s.ins).filter(|v| *v != 0).chain([NEXT_KEY, POISON_KEY]) {
            let mut pad = vec![0u8; rng.below(96) as usize];
            rng.fill(&mut pad);
            keys.insert(v, TestKey { v, pad, poison: 0 });
        }

        if let Some(k) = keys.get_mut(&POISON_KEY) {
            k.poison = rng.range(1, 3) as u8;
        }

        // in-memory store
        let none = || None;
        let w = World { ids: &ids, keys: &keys, lister: &none };
        let mut mem = Mem(MemStore::new());
        let (mobs, mfin) = replay(&mut mem, &steps, &w);
        let mv = check("mem", &steps, &mobs, &mfin, &names, &keys, true);

        // file-system store
        let dir = base.join(format!("b{i}"));
        let _ = fs::remove_dir_all(&dir);
        fs::create_dir_all(&dir).unwrap_or_else(|e| vrt::die(&format!("mkdir: {e}")));
        let store = Store::open(dir.as_path()).unwrap_or_else(|e| vrt::die(&format!("Store::open: {e}")));
        let ldir = dir.clone();
        let lister = move || list_dir(&ldir);
        let w = World { ids: &ids, keys: &keys, lister: &lister };
        let mut fsb = Fs { dir: dir.clone(), store: Some(store) };
        let (fobs, ffin) = replay(&mut fsb, &steps, &w);
        let fv = check("fs", &steps, &fobs, &ffin, &names, &keys, false);
        drop(fsb);
        let _ = fs::remove_dir_all(&dir);

        // the two stores agree step by step (implied when both follow the model; reported
        // separately when they deviate from it in different ways)
        let obs = json!({"ids": names, "mem": obs_json(&mobs), "fs": obs_json(&fobs),
                         "fs_end": {"files": ffin.files, "probe": ffin.probe},
                         "mem_end": {"probe": mfin.probe}});
        let not_run = fobs.iter().any(|o| o.r == "not-run");
        match (fv, mv) {
            (None, None) => {
                out.emit(json!({"i": i, "ok": true, "step": -1, "obs": if i < 3 { obs } else { Value::Null },
                                "drift": u64::from(not_run)}));
            }
            (Some(v), None) | (None, Some(v)) => out.fail(i, v.step, &v.key, &v.msg, obs),
            (Some(f), Some(m)) => {
                let v = if m.step < f.step { m } else { f };
                out.fail(i, v.step, &v.key, &format!("{} (both stores deviate from the map model)", v.msg), obs)
            }
        }
    }
    let _ = fs::remove_dir_all(&base);
    out.finish();
}
