//! S2I replay of `CStrWriter.tla` behaviours into `aranya_capi_core::write_c_str` (C47).
//!
//! behaviour: `{"size": n, "frags": [len, ...], "ok": bool, "nw": k}`; the text is the
//! concatenation of the fragments, the byte at overall index j being `b'A' + j % 26`
//! (the spec's `Char(j)`), written by a `Display` impl that issues exactly one `write_str`
//! per fragment (so fragment boundaries — the spec's `Write` actions — are real).
use core::{ffi::c_char, fmt, mem::MaybeUninit};

use aranya_capi_core::{write_c_str, WriteCStrError};
use vrt::{json, Args, J};

const GUARD: usize = 16;
const CANARY: u8 = 0xA5;

struct Frags<'a>(&'a [usize]);

fn ch(j: usize) -> u8 {
    b'A' + (j % 26) as u8
}

impl fmt::Display for Frags<'_> {
    fn fmt(&self, f: &mut fmt::Formatter<'_>) -> fmt::Result {
        let mut j = 0;
        for &l in self.0 {
            let s: String = (j..j + l).map(|k| ch(k) as char).collect();
            j += l;
            f.write_str(&s)?;
        }
        Ok(())
    }
}

pub fn run(args: &Args) {
    let mut out = args.out();
    for (i, b) in args.read_input().iter().enumerate() {
        let size = b.u("size") as usize;
        let frags: Vec<usize> = b.a("frags").iter().map(|v| v.as_u64().unwrap() as usize).collect();
        let total: usize = frags.iter().sum();
        let exp_ok = b.b("ok");
        let exp_nw = b.u("nw") as usize;

        // buffer with guard zones on both sides
        let mut mem = vec![CANARY; GUARD + size + GUARD];
        let mut nw = 0xdead_beef_usize;
        let res = vrt::catch_any(|| {
            // SAFETY: u8 and MaybeUninit<c_char> have the same layout.
            let dst = unsafe {
                &mut *(core::ptr::from_mut::<[u8]>(&mut mem[GUARD..GUARD + size])
                    as *mut [MaybeUninit<c_char>])
            };
            write_c_str(dst, &Frags(&frags), &mut nw)
        });
        let obs = json!({"size": size, "frags": frags, "nw": nw,
                         "res": match &res { Ok(Ok(())) => "ok".to_string(),
                                             Ok(Err(WriteCStrError::BufferTooSmall)) => "too_small".to_string(),
                                             Ok(Err(e)) => format!("err:{e}"),
                                             Err(p) => format!("panic:{p}") }});
        let guards_ok = mem[..GUARD].iter().chain(&mem[GUARD + size..]).all(|&x| x == CANARY);
        if !guards_ok {
            out.fail(i, 0, "C47:guard", "bytes written outside the caller's buffer", obs);
            continue;
        }
        let fits = size >= total + 1;
        match res {
            Err(_) => out.fail(i, 0, "C47:panic", "write_c_str panicked", obs),
            Ok(Ok(())) => {
                let buf = &mem[GUARD..GUARD + size];
                if !fits {
                    out.fail(i, 0, "C47:ok-but-short", "success reported for a buffer that cannot hold text+NUL", obs);
                } else if !(0..total).all(|j| buf[j] == ch(j)) || buf[total] != 0 {
                    out.fail(i, 0, "C47:content", "text or terminating NUL wrong on success", obs);
                } else if nw != total + 1 && nw != total {
                    out.fail(i, 0, "C47:len", "reported length is neither len nor len+1", obs);
                } else if !exp_ok {
                    out.fail(i, 0, "C47:spec-drift", "spec expected failure, code succeeded", obs);
                } else {
                    let drift = u64::from(nw != exp_nw);
                    out.emit(json!({"i": i, "ok": true, "step": -1, "obs": obs, "drift": drift}));
                }
            }
            Ok(Err(WriteCStrError::BufferTooSmall)) => {
                if fits {
                    out.fail(i, 0, "C47:spurious-too-small", "failure reported although text+NUL fits", obs);
                } else if nw != total + 1 {
                    out.fail(i, 0, "C47:needed", "failure does not report exactly len+1", obs);
                } else {
                    let _ = exp_nw;
                    out.ok(i, obs);
                }
            }
            Ok(Err(_)) => out.fail(i, 0, "C47:bug", "internal Bug error returned", obs),
        }
    }
    out.finish();
}
