//! TABLE/S2I replay of `AfcMessage.tla` behaviours into the real AFC client (C39).
//!
//! behaviour (one TLC `Hist` record):
//! `{"lens":[n..], "failat":-1|k, "t":target, "op":{"op":..,"a":..,"b":..},
//!   "call":{"iface":..,"dst":..,"opener":..}, "expect":{"ok":..,"err":..,"pt":..,"seq":..}}`
//!
//! The engine seals `lens` on one channel of `memory::State` through `Client::seal` /
//! `seal_in_place` (alternating), builds the presented byte string the spec's `PByte` describes
//! (symbolic "arbitrary" bytes are concretised from the seed), opens it through the interface the
//! behaviour names and decides C39's own predicate:
//!
//! * an authentic message opens to exactly its plaintext, the channel's label and the sequence
//!   number used when sealing (with every interface, twice);
//! * everything else is an `Err`, never a panic, and the output buffer holds no plaintext.
//!
//! The error *class* (size/auth/small) is the spec's implementation-shaped part: a difference
//! there is drift, not a violation.
use aranya_crypto::{
    afc::{OpenKey, RawOpenKey, RawSealKey, SealKey, Seq},
    default::DefaultCipherSuite as CS,
    policy::LabelId,
    id::IdExt as _,
    DeviceId, Random,
};
use aranya_fast_channels::{
    memory::State, AfcState, AranyaState, Client, Directed, Error, FixedBuf, Header, HeaderError,
    LocalChannelId, Message, MsgType, Payload, Version,
};
use vrt::{json, Args, Value, J};

use crate::util::{hex, SeedRng};

const TAG: usize = 16;
const HDR: usize = 8;
const OVERHEAD: usize = TAG + HDR;
/// Fill of untouched output buffers. Plaintext bytes avoid 0x00 and this value, so any
/// position where the output equals the plaintext is plaintext.
const SENTINEL: u8 = 0xAA;

fn plaintext(rng: &mut vrt::Rng, n: usize) -> Vec<u8> {
    (0..n)
        .map(|_| loop {
            let b = rng.next_u64() as u8;
            if b != 0 && b != SENTINEL {
                break b;
            }
        })
        .collect()
}

struct Sealed {
    pt: Vec<u8>,
    wire: Vec<u8>,
    seq: u64,
}

struct World {
    msgs: Vec<Sealed>,
    label_a: LabelId,
    label_b: LabelId,
    raw_a: RawSealKey<CS>,
    raw_b: RawSealKey<CS>,
}

fn open_key(raw: &RawSealKey<CS>) -> OpenKey<CS> {
    OpenKey::from_raw(&RawOpenKey { key: raw.key.clone(), base_nonce: raw.base_nonce.clone() })
        .unwrap_or_else(|e| panic!("HONEST-FAIL OpenKey::from_raw: {e}"))
}

/// Longest run of positions where `buf[i] == pt[i]`.
fn leak_run(buf: &[u8], pt: &[u8]) -> usize {
    let mut best = 0;
    let mut cur = 0;
    for (a, b) in buf.iter().zip(pt) {
        if a == b {
            cur += 1;
            best = best.max(cur);
        } else {
            cur = 0;
        }
    }
    best
}

fn err_class(e: &Error) -> &'static str {
    match e {
        Error::InvalidHeader(HeaderError::InvalidSize) => "size",
        Error::InvalidHeader(_) => "header",
        Error::Authentication => "auth",
        Error::BufferTooSmall => "small",
        Error::KeyExpired => "expired",
        Error::NotFound(_) => "notfound",
        Error::Bug(_) => "bug",
        _ => "other",
    }
}

enum Outcome {
    Ok { pt: Vec<u8>, label: LabelId, seq: u64, out: Vec<u8> },
    Err { class: &'static str, text: String, out: Vec<u8> },
    Panic(String),
}

pub fn run(args: &Args) {
    let mut out = args.out();
    for (i, b) in args.read_input().iter().enumerate() {
        match vrt::catch_any(|| one(args.seed, i, b)) {
            Ok(v) => out.emit(v),
            Err(p) => {
                let key = if p.starts_with("HONEST-FAIL") { "C39:honest-operation-failed" } else { "C39:harness-panic" };
                out.fail(i, -1, key, &format!("panic outside the open call: {p}"), json!({}))
            }
        }
    }
    out.finish();
}

fn fail(i: usize, step: i64, key: &str, msg: &str, obs: Value) -> Value {
    json!({"i": i, "ok": false, "step": step, "key": key, "msg": msg, "obs": obs})
}

fn one(seed: u64, i: usize, b: &Value) -> Value {
    let lens: Vec<usize> = b.a("lens").iter().map(|v| v.as_u64().unwrap() as usize).collect();
    let failat = b.i("failat");
    let t = b.u("t") as usize;
    let op = b.g("op");
    let call = b.g("call");
    let exp = b.g("expect");
    let (opname, a, bb) = (op.s("op"), op.i("a"), op.i("b"));
    let (iface, dst, opener) = (call.s("iface"), call.s("dst"), call.s("opener"));

    // Everything concrete is a function of (seed, lens) so that behaviours over the same
    // channel history see the same bytes, and of the op for the arbitrary bytes.
    let hist_hash = lens.iter().fold(0x1234_5678_u64, |h, &n| h.wrapping_mul(1_000_003).wrapping_add(n as u64 + 1));
    let krng = SeedRng::new(seed, hist_hash);
    let mut prng = vrt::Rng::new(seed ^ hist_hash.rotate_left(17));
    let mut w = World {
        msgs: Vec::new(),
        label_a: LabelId::random(&krng),
        label_b: LabelId::random(&krng),
        raw_a: RawSealKey::<CS>::random(&krng),
        raw_b: RawSealKey::<CS>::random(&krng),
    };
    let peer = DeviceId::random(&krng);

    // ---- sealer side
    let sealer = Client::new(State::<CS>::new());
    // the channel does not have to be fresh: start the seal context at sequence numbers around
    // byte-width boundaries as well (the spec's numbers are relative to this base)
    let base: u64 = [0, 0, 255, 65_535, 4_294_967_295, 1 << 40][(seed as usize + i) % 6];
    let seal_key = SealKey::<CS>::from_raw(&w.raw_a, Seq::new(base)).unwrap_or_else(|e| panic!("HONEST-FAIL SealKey::from_raw: {e}"));
    let sid = sealer
        .state()
        .add(Directed::SealOnly { seal: seal_key }, w.label_a, peer)
        .unwrap_or_else(|e| panic!("HONEST-FAIL add seal channel: {e}"));
    let mut sctx = sealer.setup_seal_ctx(sid).unwrap_or_else(|e| panic!("HONEST-FAIL setup_seal_ctx: {e}"));
    for (k, &n) in lens.iter().enumerate() {
        if failat == k as i64 {
            // SealSmallDst: one byte short
            let pt = plaintext(&mut prng, n);
            let mut small = vec![SENTINEL; n + OVERHEAD - 1];
            match vrt::catch_any(|| sealer.seal(&mut sctx, &mut small, &pt)) {
                Ok(Err(Error::BufferTooSmall)) => {}
                Ok(Ok(_)) => return fail(i, k as i64, "C39:seal-small-accepted", "seal into a too small destination succeeded", json!({"n": n})),
                Ok(Err(e)) => return fail(i, k as i64, "C39:seal-small-error", &format!("seal into a too small destination: unexpected error {e}"), json!({"n": n})),
                Err(p) => return fail(i, k as i64, "C39:seal-panic", &format!("seal panicked: {p}"), json!({"n": n})),
            }
            if n >= 4 && leak_run(&small, &pt) >= 4 {
                return fail(i, k as i64, "C39:seal-small-leak", "failed seal left plaintext in dst", json!({"n": n}));
            }
        }
        let pt = plaintext(&mut prng, n);
        let in_place = (k + seed as usize) % 2 == 1;
        let res = vrt::catch_any(|| {
            if in_place {
                let mut data = pt.clone();
                sealer.seal_in_place(&mut sctx, &mut data).map(|h| (h, data))
            } else {
                let mut dstb = vec![SENTINEL; n + OVERHEAD + 3];
                sealer.seal(&mut sctx, &mut dstb, &pt).map(|h| {
                    dstb.truncate(n + OVERHEAD);
                    (h, dstb)
                })
            }
        });
        let (hdr, wire) = match res {
            Ok(Ok(x)) => x,
            Ok(Err(e)) => return fail(i, k as i64, "C39:seal-error", &format!("seal failed: {e}"), json!({"n": n, "in_place": in_place})),
            Err(p) => return fail(i, k as i64, "C39:seal-panic", &format!("seal panicked: {p}"), json!({"n": n, "in_place": in_place})),
        };
        if hdr.version != Version::V1 || hdr.msg_type != MsgType::Data || wire.len() != n + OVERHEAD {
            return fail(i, k as i64, "C39:seal-shape", "seal returned a wrong header or length", json!({"n": n, "len": wire.len()}));
        }
        let seq = u64::from_le_bytes(wire[n + TAG..].try_into().unwrap());
        w.msgs.push(Sealed { pt, wire, seq });
    }
    // SeqDense (spec invariant; C40's subject — reported as drift here)
    let mut drift = 0u64;
    if w.msgs.iter().enumerate().any(|(k, m)| m.seq != base + k as u64) {
        drift += 1;
    }

    // ---- presented bytes (PByte)
    let m = &w.msgs[t - 1];
    let n = m.pt.len();
    let mut junkrng = vrt::Rng::new(seed ^ hist_hash ^ ((a as u64) << 20) ^ ((bb as u64) << 40) ^ 0xC39);
    let mut junk = |x: u8| -> u8 {
        loop {
            let v = junkrng.next_u64() as u8;
            if v != x {
                return v;
            }
        }
    };
    let mut pres: Vec<u8> = m.wire.clone();
    match opname {
        "intact" => {}
        "cut" => pres.truncate(a as usize),
        "flip" => {
            for p in [a, bb] {
                if p > 0 {
                    let p = p as usize - 1;
                    pres[p] = junk(pres[p]);
                }
            }
        }
        "hdrseq" => {
            let v = if a == 999 { u64::MAX } else { base + a as u64 }; // SeqLimit
            pres[n + TAG..].copy_from_slice(&v.to_le_bytes())
        }
        "splice" => {
            let o = &w.msgs[a as usize - 1];
            let on = o.pt.len();
            pres[n..n + TAG].copy_from_slice(&o.wire[on..on + TAG]);
        }
        "concat" => pres.extend_from_slice(&w.msgs[a as usize - 1].wire),
        "append" => pres.push(junk(0)),
        "prepend" => pres.insert(0, junk(0)),
        "midins" => pres.insert(n, junk(0)),
        "duphdr" => {
            let h = m.wire[n + TAG..].to_vec();
            pres.extend_from_slice(&h);
        }
        "junk" => {
            pres = match bb {
                0 => (0..a).map(|_| junk(0)).collect(),
                1 => vec![0u8; a as usize],
                _ => vec![0xFFu8; a as usize],
            }
        }
        o => vrt::die(&format!("unknown op {o}")),
    }

    // ---- opener side
    let (okey, olabel) = match opener {
        "same" => (open_key(&w.raw_a), w.label_a),
        "otherkey" => (open_key(&w.raw_b), w.label_a),
        "otherlabel" => (open_key(&w.raw_a), w.label_b),
        o => vrt::die(&format!("unknown opener {o}")),
    };
    let client = Client::new(State::<CS>::new());
    let oid: LocalChannelId = client
        .state()
        .add(Directed::OpenOnly { open: okey }, olabel, peer)
        .unwrap_or_else(|e| panic!("HONEST-FAIL add open channel: {e}"));
    let mut octx = client.setup_open_ctx(oid).unwrap_or_else(|e| panic!("HONEST-FAIL setup_open_ctx: {e}"));

    // the plaintext whose leak we look for: the target's (the presented bytes derive from it)
    let secret = m.pt.clone();
    let ctlen = pres.len().checked_sub(OVERHEAD);
    let rounds = if exp.b("ok") { 2 } else { 1 }; // authentic messages open any number of times
    let mut last = None;
    for round in 0..rounds {
        let oc = do_open(&client, &mut octx, iface, dst, &pres, ctlen);
        let obs = |extra: Value| {
            json!({"lens": lens, "t": t, "op": op, "call": call, "len": pres.len(), "round": round,
                   "presented": if pres.len() <= 96 { hex(&pres) } else { format!("{}..({} bytes)", hex(&pres[..32]), pres.len()) },
                   "got": extra})
        };
        // -- the property's predicate
        match &oc {
            Outcome::Panic(p) => {
                let key = if pres.len() >= HDR && pres.len() < OVERHEAD && iface.starts_with("inplace") {
                    "C39:open_in_place-panic-short"
                } else {
                    "C39:open-panic"
                };
                return fail(i, round, key, &format!("{iface} panicked on a {}-byte input: {p}", pres.len()), obs(json!({"panic": p})));
            }
            Outcome::Ok { pt, label, seq, out: buf } => {
                // which sealed message is this byte string? (authentic iff one of them, same context)
                let frame_bad = iface == "framed" && dst != "ok";
                let auth = w.msgs.iter().position(|x| x.wire == pres).filter(|_| !frame_bad);
                let got = json!({"ok": true, "pt": hex(&pt[..pt.len().min(48)]), "seq": seq});
                match auth {
                    Some(x) if opener == "same" => {
                        let s = &w.msgs[x];
                        if *pt != s.pt {
                            return fail(i, round, "C39:wrong-plaintext", "open succeeded with a plaintext different from the sealed one", obs(got));
                        }
                        if *label != w.label_a {
                            return fail(i, round, "C39:wrong-label", "open returned a label different from the channel's", obs(got));
                        }
                        if *seq != s.seq || *seq != base + x as u64 {
                            return fail(i, round, "C39:wrong-seq", "open returned a sequence number different from the one used when sealing", obs(got));
                        }
                        if iface == "open" && buf.len() > pt.len() && buf[pt.len()..].iter().any(|&c| c != SENTINEL) {
                            drift += 1; // bytes beyond the plaintext touched (not part of the property)
                        }
                    }
                    _ => {
                        return fail(i, round, &format!("C39:forgery-accepted:{opname}"),
                            &format!("open accepted a byte string that is not a message sealed for this context (op {opname}, opener {opener})"), obs(got));
                    }
                }
                if !exp.b("ok") {
                    // code accepted an authentic string the spec rejects: only possible if the
                    // concretisation coincides with an authentic message — count, do not alarm
                    drift += 1;
                }
            }
            Outcome::Err { class, text, out: buf } => {
                let got = json!({"ok": false, "class": class, "err": text});
                let frame_bad = iface == "framed" && dst != "ok";
                let auth = w.msgs.iter().position(|x| x.wire == pres).filter(|_| !frame_bad);
                let small = iface == "open" && dst == "minus" && ctlen.is_some_and(|c| c > 0);
                if auth.is_some() && opener == "same" && !small {
                    return fail(i, round, "C39:authentic-rejected", &format!("an authentic message was rejected: {text}"), obs(got));
                }
                // no plaintext may be left behind
                let run = leak_run(buf, &secret);
                if secret.len() >= 4 && run >= secret.len().min(8) {
                    return fail(i, round, "C39:plaintext-left", &format!("failed open left {run} plaintext bytes in the output buffer"), obs(got));
                }
                if exp.b("ok") {
                    return fail(i, round, "C39:authentic-rejected", &format!("spec accepts, code rejects: {text}"), obs(got));
                }
                if *class != exp.s("err") {
                    drift += 1;
                }
            }
        }
        last = Some(oc);
    }
    let got = match last {
        Some(Outcome::Ok { seq, .. }) => json!({"ok": true, "seq": seq}),
        Some(Outcome::Err { class, .. }) => json!({"ok": false, "class": class}),
        _ => json!(null),
    };
    json!({"i": i, "ok": true, "step": -1, "drift": drift, "obs": {"len": pres.len(), "got": got}})
}

fn do_open(
    client: &Client<State<CS>>,
    octx: &mut <State<CS> as AfcState>::OpenCtx,
    iface: &str,
    dst: &str,
    pres: &[u8],
    ctlen: Option<usize>,
) -> Outcome {
    match iface {
        "open" => {
            let base = ctlen.unwrap_or(0);
            let dlen = match dst {
                "exact" => base,
                "plus" => base + 7,
                "minus" => base.saturating_sub(1),
                d => vrt::die(&format!("unknown dst {d}")),
            };
            let mut buf = vec![SENTINEL; dlen];
            match vrt::catch_any(|| client.open(octx, &mut buf, pres)) {
                Ok(Ok((label, seq))) => Outcome::Ok { pt: buf[..base.min(dlen)].to_vec(), label, seq: seq.to_u64(), out: buf },
                Ok(Err(e)) => Outcome::Err { class: err_class(&e), text: e.to_string(), out: buf },
                Err(p) => Outcome::Panic(p),
            }
        }
        "framed" => {
            // frame = Header{V1, Data} || message, as an application sends it
            let mut frame = vec![0u8; Header::PACKED_SIZE];
            Header { version: Version::V1, msg_type: MsgType::Data }
                .encode((&mut frame[..]).try_into().expect("header size"))
                .unwrap_or_else(|e| vrt::die(&format!("Header::encode: {e}")));
            frame.extend_from_slice(pres);
            match dst {
                "ok" => {}
                "version" => frame[0] ^= 0x01,
                "type_control" => frame[2..4].copy_from_slice(&2u16.to_le_bytes()),
                "type_invalid" => frame[2..4].copy_from_slice(&7u16.to_le_bytes()),
                "short" => frame.truncate(3),
                d => vrt::die(&format!("unknown frame op {d}")),
            }
            let base = ctlen.unwrap_or(0);
            let mut buf = vec![SENTINEL; base];
            let r = vrt::catch_any(|| match Message::try_parse(&frame) {
                Err(e) => Err(("header", e.to_string())),
                Ok(Message { payload: Payload::Control(_), .. }) => Err(("header", "control message: not opened".to_string())),
                Ok(Message { payload: Payload::Data(p), .. }) => client.open(octx, &mut buf, p).map_err(|e| (err_class(&e), e.to_string())),
            });
            match r {
                Ok(Ok((label, seq))) => Outcome::Ok { pt: buf.clone(), label, seq: seq.to_u64(), out: buf },
                Ok(Err((class, text))) => Outcome::Err { class, text, out: buf },
                Err(p) => Outcome::Panic(p),
            }
        }
        "inplace_vec" => {
            let mut data = pres.to_vec();
            match vrt::catch_any(|| client.open_in_place(octx, &mut data)) {
                Ok(Ok((label, seq))) => Outcome::Ok { pt: data.clone(), label, seq: seq.to_u64(), out: data },
                Ok(Err(e)) => Outcome::Err { class: err_class(&e), text: e.to_string(), out: data },
                Err(p) => Outcome::Panic(p),
            }
        }
        "inplace_fixed" => {
            // backing store with slack behind the message; the slack must stay untouched
            let mut backing = vec![SENTINEL; pres.len() + 5];
            backing[..pres.len()].copy_from_slice(pres);
            let r = vrt::catch_any(|| {
                let mut fb = FixedBuf::from_slice_mut(&mut backing, pres.len()).expect("len <= capacity");
                let r = client.open_in_place(octx, &mut fb);
                let l = aranya_fast_channels::Buf::len(&fb);
                (r, l)
            });
            match r {
                Ok((Ok((label, seq)), l)) => Outcome::Ok { pt: backing[..l].to_vec(), label, seq: seq.to_u64(), out: backing },
                Ok((Err(e), _)) => Outcome::Err { class: err_class(&e), text: e.to_string(), out: backing },
                Err(p) => Outcome::Panic(p),
            }
        }
        "inplace_heapless" => {
            let mut hv: heapless::Vec<u8, 8400> = heapless::Vec::new();
            if hv.extend_from_slice(pres).is_err() {
                vrt::die("heapless buffer too small for the behaviour");
            }
            match vrt::catch_any(|| client.open_in_place(octx, &mut hv)) {
                Ok(Ok((label, seq))) => Outcome::Ok { pt: hv.to_vec(), label, seq: seq.to_u64(), out: hv.to_vec() },
                Ok(Err(e)) => Outcome::Err { class: err_class(&e), text: e.to_string(), out: hv.to_vec() },
                Err(p) => Outcome::Panic(p),
            }
        }
        x => vrt::die(&format!("unknown iface {x}")),
    }
}
