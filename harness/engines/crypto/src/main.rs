//! `vh-crypto` — decision tables of the crypto layer (DESIGN §3.6, §5 "Crypto"):
//! `AfcMessage.tla` cells into `aranya_fast_channels::Client` (C39), `CryptoBinding.tla` cells
//! into real `DefaultEngine` objects (C34, C36, C37, C38), `TamperReplica.tla` behaviours into two
//! real replicas running a signing policy (C35).
mod afckeys;
mod afcmsg;
mod enc;
mod ops;
mod sign;
mod tamper;
mod util;
mod wrap;

fn main() {
    let args = vrt::Args::parse();
    match args.sub.as_str() {
        "afcmsg" => afcmsg::run(&args),
        "cmdsig" => sign::run(&args),
        "wrap" => wrap::run(&args),
        "enc" => enc::run(&args),
        "afckeys" => afckeys::run(&args),
        "tamper" => tamper::run(&args),
        s => vrt::die(&format!("unknown subcommand {s}")),
    }
}
