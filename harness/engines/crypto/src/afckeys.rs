//! TABLE replay of `CryptoBinding.tla` (scheme afcuni) into the AFC unidirectional channel key
//! derivation (C38): `UniSecrets::new`, `UniSealKey::from_author_secret`,
//! `UniOpenKey::from_peer_encap` (path "api") and the policy FFI `afc::create_uni_channel` plus
//! `Handler::uni_channel_created` / `uni_channel_received` over real key stores (path "handler").
//!
//! Decides: the key the peer derives opens the author's message iff the spec says no parameter
//! changed; role cells: a device obtains a *working* end (one that interoperates with the true
//! other end) exactly when the spec's `CanDerive` says so — so no device obtains both ends.
use aranya_afc_util::{testing::MemStore, Ffi as AfcFfi, Handler, UniChannelCreated, UniChannelReceived, UniKey, UniKeyId};
use aranya_crypto::{
    afc::{AuthData, OpenKey, SealKey, UniChannel, UniOpenKey, UniPeerEncap, UniSealKey, UniSecrets},
    default::{DefaultCipherSuite as CS, DefaultEngine},
    id::IdExt as _,
    policy::{CmdId, LabelId},
    BaseId, DeviceId, EncryptionKey, EncryptionKeyId, EncryptionPublicKey, KeyStoreExt as _,
};
use aranya_policy_vm::{
    ffi::FfiModule, ident, ActionContext, CommandContext, MachineStack, Stack as _, Value as VmValue,
};
use vrt::{json, Args, Value};

use crate::{
    ops::{self, Cell, TOp},
    util::{hex, SeedRng},
};

type Eng = DefaultEngine<SeedRng, CS>;

const MSG: &[u8] = b"message sealed by the channel author";

pub fn run(args: &Args) {
    let mut out = args.out();
    let inst = args.opt_u64("inst", 2);
    for (i, b) in args.read_input().iter().enumerate() {
        let cell = ops::parse(b);
        match vrt::catch_any(|| one(args.seed, i, &cell, inst)) {
            Ok(v) => out.emit(v),
            Err(p) => {
                let key = if p.starts_with("HONEST-FAIL") { "C38:honest-operation-failed" } else { "C38:panic" };
                out.fail(i, -1, key, &format!("channel key derivation panicked: {p}"), json!({"ops": b.get("ops")}))
            }
        }
    }
    out.finish();
}

fn fail(i: usize, key: &str, msg: &str, obs: Value) -> Value {
    json!({"i": i, "ok": false, "step": -1, "key": key, "msg": msg, "obs": obs})
}

struct Dev {
    id: DeviceId,
    eng: Eng,
    store: MemStore,
    sk: EncryptionKey<CS>,
    pk: EncryptionPublicKey<CS>,
    sk_id: EncryptionKeyId,
}

fn dev(seed: u64, stream: u64) -> Dev {
    let krng = SeedRng::new(seed, stream);
    let (eng, _) = Eng::from_entropy(SeedRng::new(seed, stream ^ 0xE000));
    let mut store = MemStore::new();
    let sk = EncryptionKey::<CS>::new(&krng);
    let pk = sk.public().expect("pk");
    let sk_id = store.insert_key(&eng, sk.clone()).unwrap_or_else(|e| vrt::die(&format!("insert_key: {e}")));
    Dev { id: DeviceId::random(&krng), eng, store, sk, pk, sk_id }
}

fn enc_pk(pk: &EncryptionPublicKey<CS>) -> Vec<u8> {
    postcard::to_allocvec(pk).unwrap_or_else(|e| vrt::die(&format!("encode pk: {e}")))
}

/// Does `open` open what `seal` seals (same associated data on both sides)?
fn interop(seal: &mut SealKey<CS>, open: &OpenKey<CS>, label: LabelId) -> Result<(), String> {
    let ad = AuthData { version: 1, label_id: label };
    let mut ct = vec![0u8; MSG.len() + SealKey::<CS>::OVERHEAD];
    let seq = seal.seal(&mut ct, MSG, &ad).map_err(|e| format!("seal: {e}"))?;
    let mut pt = vec![0u8; MSG.len()];
    open.open(&mut pt, &ct, &ad, seq).map_err(|e| format!("open: {e}"))?;
    if pt == MSG { Ok(()) } else { Err("plaintext differs".into()) }
}

struct Params {
    parent: CmdId,
    label: LabelId,
    seal_id: DeviceId,
    open_id: DeviceId,
    author_alt: bool,
    peer_alt: bool,
    encap: Vec<u8>,
}


/// afc::create_uni_channel through the FFI module interface (as the policy VM calls it).
fn ffi_create(author: &Dev, their_pk: &[u8], parent: CmdId, seal_id: DeviceId, open_id: DeviceId, label: LabelId) -> Result<(Vec<u8>, BaseId), String> {
    let ffi = AfcFfi::new(author.store.clone());
    let idx = <AfcFfi<MemStore> as FfiModule>::SCHEMA
        .functions
        .iter()
        .position(|f| f.name.as_str() == "create_uni_channel")
        .unwrap_or_else(|| vrt::die("afc FFI has no create_uni_channel"));
    let mut stack = MachineStack::new();
    for v in [
        VmValue::Id(parent.as_base()),
        VmValue::Id(author.sk_id.as_base()),
        VmValue::Bytes(their_pk.to_vec()),
        VmValue::Id(seal_id.as_base()),
        VmValue::Id(open_id.as_base()),
        VmValue::Id(label.as_base()),
    ] {
        stack.push_value(v).unwrap_or_else(|e| vrt::die(&format!("push: {e}")));
    }
    let ctx = CommandContext::Action(ActionContext { name: ident!("create_channel"), head_id: parent });
    ffi.call(idx, &mut stack, &ctx, &author.eng).map_err(|e| e.to_string())?;
    let VmValue::Struct(s) = stack.pop_value().map_err(|e| e.to_string())? else {
        return Err("create_uni_channel did not return a struct".into());
    };
    let mut encap = None;
    let mut key_id = None;
    for (k, v) in &s.fields {
        match (k.as_str(), v) {
            ("peer_encap", VmValue::Bytes(b)) => encap = Some(b.clone()),
            ("key_id", VmValue::Id(id)) => key_id = Some(*id),
            _ => {}
        }
    }
    Ok((encap.ok_or("no peer_encap")?, key_id.ok_or("no key_id")?))
}

fn one(seed: u64, i: usize, cell: &Cell, inst: u64) -> Value {
    let mut evals = 0u64;
    let mut drift = 0u64;
    for k in 0..inst {
        let stream = ((i as u64) << 8 | k) << 4;
        let mut rng = vrt::Rng::new(seed ^ stream.wrapping_mul(0x9E37_79B9) ^ 0xC38);
        let author = dev(seed, stream + 1);
        let peer = dev(seed, stream + 2);
        let author2 = dev(seed, stream + 3);
        let mut peer_store_extra = peer.store.clone(); // shares the peer's store
        let peer2_sk = EncryptionKey::<CS>::new(&SeedRng::new(seed, stream + 4));
        let peer2_id = peer_store_extra.insert_key(&peer.eng, peer2_sk.clone()).unwrap_or_else(|e| vrt::die(&format!("insert_key: {e}")));
        let outsider = dev(seed, stream + 5);
        let idrng = SeedRng::new(seed, stream + 6);
        let parent = CmdId::random(&idrng);
        let label = LabelId::random(&idrng);

        // ---------------- author side (honest), both paths
        let ch_author = UniChannel { parent_cmd_id: parent, our_sk: &author.sk, their_pk: &peer.pk, seal_id: author.id, open_id: peer.id, label_id: label };
        let secrets = UniSecrets::new(&author.eng, &ch_author).unwrap_or_else(|e| panic!("HONEST-FAIL UniSecrets::new: {e}"));
        let api_encap = secrets.peer.as_bytes().to_vec();
        let mut api_seal = UniSealKey::from_author_secret(&ch_author, secrets.author)
            .and_then(|k| k.into_key())
            .unwrap_or_else(|e| panic!("HONEST-FAIL from_author_secret: {e}"));

        let (h_encap, h_key_id) = ffi_create(&author, &enc_pk(&peer.pk), parent, author.id, peer.id, label)
            .unwrap_or_else(|e| panic!("HONEST-FAIL afc::create_uni_channel: {e}"));
        let peer_pk_bytes = enc_pk(&peer.pk);
        let created = UniChannelCreated {
            parent_cmd_id: parent,
            open_id: peer.id,
            author_enc_key_id: author.sk_id,
            peer_enc_pk: &peer_pk_bytes,
            label_id: label,
            key_id: UniKeyId::from(h_key_id),
        };
        let author_pk_bytes = enc_pk(&author.pk);
        let received = UniChannelReceived {
            parent_cmd_id: parent,
            seal_id: author.id,
            author_enc_pk: &author_pk_bytes,
            peer_enc_key_id: peer.sk_id,
            label_id: label,
            encap: &h_encap,
        };
        let obs = |extra: Value| {
            json!({"inst": k, "ops": cell.ops.iter().map(|o| format!("{} {} {}", o.op, o.a, o.b)).collect::<Vec<_>>(), "got": extra})
        };

        // ---------------- role cells
        if let Some(TOp { a, b, .. }) = cell.ops.first().filter(|o| o.op == "role") {
            evals += 1;
            // the true ends
            let mut h_author = Handler::new(author.id, author.store.clone());
            let true_seal: Result<UniKey<SealKey<CS>, OpenKey<CS>>, _> = h_author.uni_channel_created(&author.eng, &created);
            let Ok(UniKey::SealOnly(mut true_seal)) = true_seal else {
                return fail(i, "C38:author-cannot-seal", "uni_channel_created failed for the honest author", obs(json!({})));
            };
            let mut h_peer = Handler::new(peer.id, peer.store.clone());
            let true_open: Result<UniKey<SealKey<CS>, OpenKey<CS>>, _> = h_peer.uni_channel_received(&peer.eng, &received);
            let Ok(UniKey::OpenOnly(true_open)) = true_open else {
                return fail(i, "C38:peer-cannot-open", "uni_channel_received failed for the honest peer", obs(json!({})));
            };
            if let Err(m) = interop(&mut true_seal, &true_open, label) {
                return fail(i, "C38:honest-keys-disagree", &format!("the honest peer cannot open the author's message: {m}"), obs(json!({})));
            }
            let obtained: Result<(), String> = match a.as_str() {
                // used = 0: the first (honest) derivation above; used = 1: a second attempt
                "author_seal" if *b == 0 => Ok(()),
                "author_seal" => {
                    let r: Result<UniKey<SealKey<CS>, OpenKey<CS>>, _> = h_author.uni_channel_created(&author.eng, &created);
                    match r {
                        Ok(UniKey::SealOnly(mut s)) => interop(&mut s, &true_open, label),
                        Ok(_) => Err("wrong end".into()),
                        Err(e) => Err(e.to_string()),
                    }
                }
                "peer_open" => Ok(()),
                "author_open" => {
                    // the author processes the `received` effect with its own key
                    let eff = UniChannelReceived { peer_enc_key_id: author.sk_id, ..received.clone() };
                    let r: Result<UniKey<SealKey<CS>, OpenKey<CS>>, _> = h_author.uni_channel_received(&author.eng, &eff);
                    match r {
                        Ok(UniKey::OpenOnly(o)) => interop(&mut true_seal, &o, label),
                        Ok(_) => Err("wrong end".into()),
                        Err(e) => Err(e.to_string()),
                    }
                }
                "peer_seal" => {
                    let eff = UniChannelCreated { author_enc_key_id: peer.sk_id, ..created.clone() };
                    let r: Result<UniKey<SealKey<CS>, OpenKey<CS>>, _> = h_peer.uni_channel_created(&peer.eng, &eff);
                    match r {
                        Ok(UniKey::SealOnly(mut s)) => interop(&mut s, &true_open, label),
                        Ok(_) => Err("wrong end".into()),
                        Err(e) => Err(e.to_string()),
                    }
                }
                "outsider_open" => {
                    let mut h = Handler::new(outsider.id, outsider.store.clone());
                    let eff = UniChannelReceived { peer_enc_key_id: outsider.sk_id, ..received.clone() };
                    let r: Result<UniKey<SealKey<CS>, OpenKey<CS>>, _> = h.uni_channel_received(&outsider.eng, &eff);
                    match r {
                        Ok(UniKey::OpenOnly(o)) => interop(&mut true_seal, &o, label),
                        Ok(_) => Err("wrong end".into()),
                        Err(e) => Err(e.to_string()),
                    }
                }
                "outsider_seal" => {
                    let mut h = Handler::new(outsider.id, outsider.store.clone());
                    let eff = UniChannelCreated { author_enc_key_id: outsider.sk_id, ..created.clone() };
                    let r: Result<UniKey<SealKey<CS>, OpenKey<CS>>, _> = h.uni_channel_created(&outsider.eng, &eff);
                    match r {
                        Ok(UniKey::SealOnly(mut s)) => interop(&mut s, &true_open, label),
                        Ok(_) => Err("wrong end".into()),
                        Err(e) => Err(e.to_string()),
                    }
                }
                x => vrt::die(&format!("unknown role {x}")),
            };
            match (&obtained, cell.accept) {
                (Ok(()), true) | (Err(_), false) => {}
                (Ok(()), false) => return fail(i, &format!("C38:role:{a}:{b}"), &format!("device obtained a working channel end it must not have ({a}, attempt {b})"), obs(json!({}))),
                (Err(m), true) => return fail(i, &format!("C38:role-denied:{a}"), &format!("rightful device could not obtain its end: {m}"), obs(json!({"err": m}))),
            }
            continue;
        }

        // ---------------- tamper cells: the peer's presented parameters
        for path in ["api", "handler"] {
            let mut p = Params {
                parent,
                label,
                seal_id: author.id,
                open_id: peer.id,
                author_alt: false,
                peer_alt: false,
                encap: if path == "api" { api_encap.clone() } else { h_encap.clone() },
            };
            let orig_encap = p.encap.clone();
            let mut applicable = true;
            let mut prng = vrt::Rng::new(rng.next_u64());
            for TOp { op, a, b } in &cell.ops {
                match (op.as_str(), a.as_str()) {
                    ("replace", "parent") => p.parent = CmdId::from_bytes(ops::near(parent.as_array(), *b, &mut prng)),
                    ("replace", "label") => p.label = LabelId::from_bytes(ops::near(label.as_array(), *b, &mut prng)),
                    ("replace", "seal_id") => p.seal_id = DeviceId::from_bytes(ops::near(author.id.as_array(), *b, &mut prng)),
                    ("replace", "open_id") => p.open_id = DeviceId::from_bytes(ops::near(peer.id.as_array(), *b, &mut prng)),
                    ("replace", "author") => p.author_alt = true,
                    ("replace", "peer") => p.peer_alt = true,
                    ("swap", "ids") => std::mem::swap(&mut p.seal_id, &mut p.open_id),
                    ("alias", "ids") => p.open_id = p.seal_id,
                    ("flip", "encap") => applicable &= ops::flip(&mut p.encap, *b, &mut prng),
                    ("trunc", "encap") => {
                        p.encap.pop();
                    }
                    ("ext", "encap") => p.encap.push(prng.next_u64() as u8),
                    (o, x) => vrt::die(&format!("afcuni: unknown op {o} {x}")),
                }
            }
            if !applicable {
                drift += 1;
                continue;
            }
            let unchanged = p.parent == parent && p.label == label && p.seal_id == author.id && p.open_id == peer.id && !p.author_alt && !p.peer_alt && p.encap == orig_encap;
            if unchanged != cell.unchanged {
                drift += 1;
                continue;
            }
            evals += 1;
            let their_pk = if p.author_alt { &author2.pk } else { &author.pk };
            let res: Result<(), String> = if path == "api" {
                (|| {
                    let our_sk = if p.peer_alt { &peer2_sk } else { &peer.sk };
                    let ch = UniChannel { parent_cmd_id: p.parent, our_sk, their_pk, seal_id: p.seal_id, open_id: p.open_id, label_id: p.label };
                    let enc = UniPeerEncap::<CS>::from_bytes(&p.encap).map_err(|e| format!("encap import: {e}"))?;
                    let open = UniOpenKey::from_peer_encap(&ch, enc).and_then(|k| k.into_key()).map_err(|e| e.to_string())?;
                    interop(&mut api_seal, &open, label)
                })()
            } else {
                (|| {
                    let mut h_author = Handler::new(author.id, author.store.clone());
                    let seal: UniKey<SealKey<CS>, OpenKey<CS>> = h_author.uni_channel_created(&author.eng, &created).map_err(|e| format!("honest uni_channel_created: {e}"))?;
                    let UniKey::SealOnly(mut seal) = seal else { return Err("honest author got the wrong end".into()) };
                    // the receiving device is whoever the presented open_id names
                    let mut h = Handler::new(p.open_id, peer.store.clone());
                    let their = enc_pk(their_pk);
                    let eff = UniChannelReceived {
                        parent_cmd_id: p.parent,
                        seal_id: p.seal_id,
                        author_enc_pk: &their,
                        peer_enc_key_id: if p.peer_alt { peer2_id } else { peer.sk_id },
                        label_id: p.label,
                        encap: &p.encap,
                    };
                    let open: UniKey<SealKey<CS>, OpenKey<CS>> = h.uni_channel_received(&peer.eng, &eff).map_err(|e| e.to_string())?;
                    let UniKey::OpenOnly(open) = open else { return Err("wrong end".into()) };
                    interop(&mut seal, &open, label)
                })()
            };
            if let (Err(m), true) = (&res, path == "handler") {
                if m.starts_with("honest") {
                    return fail(i, "C38:author-cannot-seal", m, obs(json!({})));
                }
            }
            match (&res, cell.accept) {
                (Ok(()), true) | (Err(_), false) => {}
                (Ok(()), false) => {
                    return fail(i, &format!("C38:{path}:keys-agree:{}", class(cell)),
                        "the peer's key opens the author's message although a channel parameter changed", obs(json!({"path": path, "encap": hex(&p.encap)})));
                }
                (Err(m), true) => return fail(i, &format!("C38:{path}:keys-disagree"), &format!("matching parameters, but the peer cannot open the author's message: {m}"), obs(json!({"path": path, "err": m}))),
            }
        }
    }
    json!({"i": i, "ok": true, "step": -1, "drift": drift, "evals": evals, "obs": {"accept": cell.accept}})
}

fn class(cell: &Cell) -> String {
    let mut v: Vec<String> = cell.ops.iter().map(|o| format!("{}-{}", o.op, o.a)).collect();
    v.sort();
    v.dedup();
    v.join("+")
}
