//! Shared helpers: a deterministic `Csprng` so every key/nonce/plaintext is a function of the seed.
use std::cell::Cell;

use aranya_crypto::Csprng;

/// splitmix64-based deterministic "CSPRNG" (test use only).
pub struct SeedRng(Cell<u64>);

impl SeedRng {
    pub fn new(seed: u64, stream: u64) -> Self {
        SeedRng(Cell::new(seed.wrapping_mul(0x9E37_79B9_7F4A_7C15) ^ stream.wrapping_mul(0xD1B5_4A32_D192_ED03) ^ 0x5EED))
    }
    fn next(&self) -> u64 {
        let s = self.0.get().wrapping_add(0x9E37_79B9_7F4A_7C15);
        self.0.set(s);
        let mut z = s;
        z = (z ^ (z >> 30)).wrapping_mul(0xBF58_476D_1CE4_E5B9);
        z = (z ^ (z >> 27)).wrapping_mul(0x94D0_49BB_1331_11EB);
        z ^ (z >> 31)
    }
}

impl Csprng for SeedRng {
    fn fill_bytes(&self, dst: &mut [u8]) {
        for c in dst.chunks_mut(8) {
            let v = self.next().to_le_bytes();
            c.copy_from_slice(&v[..c.len()]);
        }
    }
}

pub fn hex(b: &[u8]) -> String {
    b.iter().map(|x| format!("{x:02x}")).collect()
}
