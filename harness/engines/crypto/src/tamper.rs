//! S2I replay of `TamperReplica.tla` behaviours into two real replicas (C35).
//!
//! Replica A (honest): `ClientState<VmPolicy + crypto/envelope/device/idam/perspective FFIs>` over
//! memory linear storage; it creates the graph and publishes commands through real actions, so
//! every command is sealed by the policy's `seal` block with A's signing key.  The wire commands
//! are read back from A's storage.  The behaviour's tamper steps are applied to the wire form
//! (re-encoding `VmProtocolData` with postcard) and the result is delivered to replica B through
//! `ClientState::add_commands` + `commit`.
//!
//! Decides (C35): a delivery whose signed fields (payload, kind, parent id, author, id,
//! signature) were modified fails and leaves B's heads, facts, effects and stored commands
//! unchanged; the untampered command is accepted (also right after a forged copy was rejected).
//! Modifications of fields the property does not name (priority, parent max-cut, policy field,
//! trailing bytes) may go either way; what the code does is recorded as drift/observation.
use std::collections::BTreeMap;

use aranya_crypto::{
    default::{DefaultCipherSuite as CS, DefaultEngine},
    keystore::memstore::MemStore,
    DeviceId, IdentityKey, KeyStoreExt as _, SigningKey,
};
use aranya_crypto_ffi::Ffi as CryptoFfi;
use aranya_device_ffi::FfiDevice as DeviceFfi;
use aranya_envelope_ffi::Ffi as EnvelopeFfi;
use aranya_idam_ffi::Ffi as IdamFfi;
use aranya_perspective_ffi::FfiPerspective as PerspectiveFfi;
use aranya_policy_compiler::Compiler;
use aranya_policy_lang::lang::parse_policy_document;
use aranya_policy_vm::{ffi::FfiModule as _, ident, Identifier, Machine, Value as VmValue};
use aranya_runtime::{
    storage::linear::testing::MemStorageProvider, Address, ClientError, ClientState, CmdId,
    Command, FfiCallable, GraphId, MaxCut, MemSpill, PolicyError, PolicyId, PolicyStore,
    Prior, Priority, Query as _, RuntimeBuffers, Segment as _, Sink, Storage as _,
    StorageProvider, VmAction, VmEffect, VmPolicy, VmProtocolData,
};
use vrt::{json, Args, Value, J};

use crate::util::{hex, SeedRng};

const POLICY: &str = include_str!("signing-policy.md");

type Eng = DefaultEngine<SeedRng, CS>;
type SP = MemStorageProvider;

struct Store1 {
    policy: VmPolicy<Eng>,
}

impl PolicyStore for Store1 {
    type Policy = VmPolicy<Eng>;
    type Effect = VmEffect;
    fn add_policy(&mut self, _policy: &[u8]) -> Result<PolicyId, PolicyError> {
        Ok(PolicyId::new(0))
    }
    fn get_policy(&self, _id: PolicyId) -> Result<&Self::Policy, PolicyError> {
        Ok(&self.policy)
    }
}

#[derive(Default)]
struct RecSink {
    pending: Vec<String>,
    committed: Vec<String>,
}

impl Sink<VmEffect> for RecSink {
    fn begin(&mut self) {}
    fn consume(&mut self, e: VmEffect) {
        self.pending.push(format!("{}{:?}@{}", e.name, e.fields, e.command));
    }
    fn rollback(&mut self) {
        self.pending.clear();
    }
    fn commit(&mut self) {
        self.committed.append(&mut self.pending);
    }
}

/// Owned wire form of a command.
#[derive(Clone, Debug)]
struct Wire {
    id: CmdId,
    priority: Priority,
    parent: Prior<Address>,
    policy: Option<Vec<u8>>,
    data: Vec<u8>,
}

impl Command for Wire {
    fn priority(&self) -> Priority {
        self.priority.clone()
    }
    fn id(&self) -> CmdId {
        self.id
    }
    fn parent(&self) -> Prior<Address> {
        self.parent
    }
    fn policy(&self) -> Option<&[u8]> {
        self.policy.as_deref()
    }
    fn bytes(&self) -> &[u8] {
        &self.data
    }
}

struct Replica {
    client: ClientState<Store1, SP>,
    buffers: RuntimeBuffers<<SP as StorageProvider>::Segment>,
    device: DeviceId,
    ident_pk: Vec<u8>,
    sign_pk: Vec<u8>,
}

fn machine() -> Machine {
    let ast = parse_policy_document(POLICY).unwrap_or_else(|e| vrt::die(&format!("parse signing policy: {e}")));
    let module = Compiler::new(&ast)
        .ffi_modules(&[
            DeviceFfi::SCHEMA,
            EnvelopeFfi::SCHEMA,
            PerspectiveFfi::SCHEMA,
            CryptoFfi::<MemStore>::SCHEMA,
            IdamFfi::<MemStore>::SCHEMA,
        ])
        .debug(true)
        .compile()
        .unwrap_or_else(|e| vrt::die(&format!("compile signing policy: {e}")));
    Machine::from_module(module).unwrap_or_else(|e| vrt::die(&format!("machine: {e}")))
}

fn replica(m: &Machine, seed: u64, stream: u64) -> Replica {
    let (eng, _) = Eng::from_entropy(SeedRng::new(seed, stream));
    let mut store = MemStore::new();
    let ik = IdentityKey::<CS>::new(&eng);
    let sk = SigningKey::<CS>::new(&eng);
    let ident_pk = postcard::to_allocvec(&ik.public().expect("pk")).expect("encode");
    let sign_pk = postcard::to_allocvec(&sk.public().expect("pk")).expect("encode");
    let device = store.insert_key(&eng, ik).unwrap_or_else(|e| vrt::die(&format!("insert_key: {e}")));
    store.insert_key(&eng, sk).unwrap_or_else(|e| vrt::die(&format!("insert_key: {e}")));
    let ffis: Vec<Box<dyn FfiCallable<Eng> + Send + 'static>> = vec![
        Box::from(DeviceFfi::new(device)),
        Box::from(EnvelopeFfi),
        Box::from(PerspectiveFfi),
        Box::from(CryptoFfi::new(store.clone())),
        Box::from(IdamFfi::new(store)),
    ];
    let policy = VmPolicy::new(m.clone(), eng, ffis).unwrap_or_else(|e| vrt::die(&format!("VmPolicy::new: {e}")));
    Replica {
        client: ClientState::new(Store1 { policy }, SP::default()),
        buffers: RuntimeBuffers::new(),
        device,
        ident_pk,
        sign_pk,
    }
}

impl Replica {
    fn act(&mut self, graph: GraphId, name: Identifier, args: Vec<VmValue>) -> Result<(), ClientError> {
        let mut sink = RecSink::default();
        self.client.action(graph, &mut sink, VmAction { name, args: args.into() }, &mut self.buffers, MemSpill::new)
    }

    /// All commands reachable from the heads, oldest first (the graphs here are linear).
    fn commands(&mut self, graph: GraphId) -> Result<Vec<Wire>, String> {
        let s = self.client.provider().get_storage(graph).map_err(|e| e.to_string())?;
        let heads = s.get_heads().map_err(|e| e.to_string())?.clone();
        let mut out = Vec::new();
        let mut stack: Vec<_> = heads.iter().map(|h| h.location()).collect();
        let mut seen = std::collections::BTreeSet::new();
        while let Some(loc) = stack.pop() {
            let seg = s.get_segment(loc).map_err(|e| e.to_string())?;
            if !seen.insert(seg.index().get()) {
                continue;
            }
            for c in seg.get_from(seg.first_location()) {
                out.push(Wire {
                    id: c.id(),
                    priority: c.priority(),
                    parent: c.parent(),
                    policy: c.policy().map(|p| p.to_vec()),
                    data: c.bytes().to_vec(),
                });
            }
            match seg.prior() {
                Prior::None => {}
                Prior::Single(l) => stack.push(l),
                Prior::Merge(l, r) => {
                    stack.push(l);
                    stack.push(r);
                }
            }
        }
        out.sort_by_key(|w| match w.parent {
            Prior::None => 0u64,
            Prior::Single(a) => a.max_cut.get() as u64 + 1,
            Prior::Merge(a, b) => a.max_cut.get().max(b.max_cut.get()) as u64 + 1,
        });
        Ok(out)
    }

    /// Observable state of the property: heads, stored commands, facts.
    fn view(&mut self, graph: GraphId) -> Value {
        let cmds = match self.commands(graph) {
            Ok(c) => c,
            Err(_) => return json!({"exists": false}),
        };
        let s = self.client.provider().get_storage(graph).expect("storage");
        let heads: Vec<String> = s.get_heads().expect("heads").iter().map(|h| h.id.to_string()).collect();
        let fc = s.fact_cache().expect("fact cache");
        let mut facts = BTreeMap::new();
        for name in ["Stuff", "DeviceSignKey"] {
            let mut v = Vec::new();
            for f in fc.query_prefix(name, &[]).expect("query_prefix") {
                let f = f.expect("fact");
                v.push(format!("{}=>{}", f.key.iter().map(|k| hex(k)).collect::<Vec<_>>().join("/"), hex(&f.value)));
            }
            facts.insert(name, v);
        }
        let stored: Vec<String> = cmds
            .iter()
            .map(|w| format!("{}|{:?}|{:?}|{:?}|{}", w.id, w.priority, w.parent, w.policy, hex(&w.data)))
            .collect();
        json!({"exists": true, "heads": heads, "stored": stored, "facts": facts})
    }

    fn deliver(&mut self, graph: GraphId, w: &Wire) -> (Result<usize, String>, Vec<String>) {
        let mut sink = RecSink::default();
        let mut trx = self.client.transaction(graph);
        let r = self.client.add_commands(&mut trx, &mut sink, std::slice::from_ref(w), &mut self.buffers, MemSpill::new);
        let r = match r {
            Ok(n) => self.client.commit(trx, &mut sink, &mut self.buffers, MemSpill::new).map(|_| n),
            Err(e) => Err(e),
        };
        (r.map_err(|e| e.to_string()), sink.committed)
    }
}

pub fn run(args: &Args) {
    let m = machine();
    let mut out = args.out();
    for (i, b) in args.read_input().iter().enumerate() {
        match vrt::catch_any(|| one(&m, args.seed, i, b)) {
            Ok(v) => out.emit(v),
            Err(p) => out.fail(i, -1, "C35:panic", &format!("replica panicked: {p}"), json!({})),
        }
    }
    out.finish();
}

fn fail(i: usize, step: usize, key: &str, msg: &str, obs: Value) -> Value {
    json!({"i": i, "ok": false, "step": step, "key": key, "msg": msg, "obs": obs})
}

fn rand_id(rng: &mut vrt::Rng) -> [u8; 32] {
    let mut b = [0u8; 32];
    rng.fill(&mut b);
    b
}

fn one(m: &Machine, seed: u64, i: usize, b: &Value) -> Value {
    let n = b.u("n") as usize;
    let steps = b.a("steps");
    let stream = (i as u64) << 4;
    let mut rng = vrt::Rng::new(seed ^ (i as u64).wrapping_mul(0x9E37_79B9) ^ 0xC35);
    let mut a = replica(m, seed, stream + 1);
    let mut bb = replica(m, seed, stream + 2);
    let mut c = replica(m, seed, stream + 3);

    // ---- honest history on A: Init, AddDeviceKeys(A), [AddDeviceKeys(C) authored by C], Create, Increment...
    let mut sink = RecSink::default();
    let graph = a
        .client
        .new_graph(&[0u8], VmAction { name: ident!("init"), args: vec![VmValue::Int(1 + rng.below(1000) as i64), VmValue::Bytes(a.ident_pk.clone()), VmValue::Bytes(a.sign_pk.clone())].into() }, &mut sink)
        ;
    let graph = match graph {
        Ok(g) => g,
        Err(e) => return fail(i, 0, "C35:honest-action-rejected:init", &format!("the honest author's init action (sealed and opened by the signing policy) failed: {e}"), json!({})),
    };
    let (ipk, spk) = (a.ident_pk.clone(), a.sign_pk.clone());
    if let Err(e) = a.act(graph, ident!("add_device_keys"), vec![VmValue::Bytes(ipk), VmValue::Bytes(spk)]) {
        return fail(i, 1, "C35:honest-action-rejected:add_device_keys", &format!("the honest author's add_device_keys action failed: {e}"), json!({}));
    }
    // C joins: receives A's two commands, registers itself, A receives C's command
    for w in a.commands(graph).unwrap_or_else(|e| vrt::die(&e)) {
        let (r, _) = c.deliver(graph, &w);
        if let Err(e) = r {
            return fail(i, 1, "C35:honest-rejected", &format!("a third replica rejects A's untampered command: {e}"), json!({"kind": kind_of(&w)}));
        }
    }
    let (ipk, spk) = (c.ident_pk.clone(), c.sign_pk.clone());
    if let Err(e) = c.act(graph, ident!("add_device_keys"), vec![VmValue::Bytes(ipk), VmValue::Bytes(spk)]) {
        return fail(i, 1, "C35:honest-action-rejected:add_device_keys", &format!("a second device's add_device_keys action failed: {e}"), json!({}));
    }
    let c_cmd = c.commands(graph).unwrap_or_else(|e| vrt::die(&e)).pop().expect("C's command");
    let (r, _) = a.deliver(graph, &c_cmd);
    if let Err(e) = r {
        return fail(i, 1, "C35:honest-rejected", &format!("A rejects the second device's untampered command: {e}"), json!({}));
    }
    for k in 0..n {
        let v = 1 + rng.below(9) as i64;
        let name = if k == 0 { ident!("create_action") } else { ident!("increment") };
        if let Err(e) = a.act(graph, name.clone(), vec![VmValue::Int(v)]) {
            return fail(i, 2 + k, &format!("C35:honest-action-rejected:{name}"), &format!("the honest author's action failed: {e}"), json!({}));
        }
    }
    let hist = a.commands(graph).unwrap_or_else(|e| vrt::die(&e));
    if hist.len() != 3 + n {
        vrt::die(&format!("A's history has {} commands, expected {}", hist.len(), 3 + n));
    }
    // spec command index (1-based) -> wire commands delivered for it (2 also carries C's registration)
    let wires = |c: usize| -> Vec<Wire> {
        match c {
            1 => vec![hist[0].clone()],
            2 => vec![hist[1].clone(), hist[2].clone()],
            k => vec![hist[k].clone()],
        }
    };

    let mut in_flight: Option<(usize, Wire)> = None;
    let mut tampered: Vec<String> = Vec::new();
    let mut drift = 0u64;
    let mut notes: Vec<String> = Vec::new();
    for (si, st) in steps.iter().enumerate() {
        match st.s("act") {
            "act" => {}
            "send" => {
                let c = st.u("c") as usize;
                in_flight = Some((c, wires(c).remove(0)));
                tampered.clear();
            }
            "tamper" => {
                let (ci, w) = in_flight.as_mut().unwrap_or_else(|| vrt::die("tamper without send"));
                let (f, v) = (st.s("f"), st.s("v"));
                tampered.push(format!("{f}:{v}"));
                if let Err(e) = apply_tamper(m, w, *ci, f, v, &hist, c.device, &mut rng) {
                    vrt::die(&format!("cannot apply tamper {f}:{v} to command {ci}: {e}"));
                }
            }
            "deliver" => {
                let (ci, w) = in_flight.clone().unwrap_or_else(|| vrt::die("deliver without send"));
                let expect = st.s("expect");
                let before = bb.view(graph);
                let (res, effects) = match vrt::catch_any(|| bb.deliver(graph, &w)) {
                    Ok(x) => x,
                    Err(p) => {
                        return fail(i, si, &format!("C35:deliver-panic:{}", tampered.join("+")),
                            &format!("add_commands panicked on a tampered command instead of rejecting it: {p}"),
                            json!({"cmd": ci, "kind": kind_of(&w), "tampers": tampered, "panic": p}));
                    }
                };
                let after = bb.view(graph);
                let stored_after = after.get("stored").and_then(|s| s.as_array()).map(|s| s.iter().any(|x| x.as_str().is_some_and(|x| x.starts_with(&w.id.to_string())))).unwrap_or(false);
                let obs = || {
                    json!({"cmd": ci, "kind": kind_of(&w), "tampers": tampered, "result": res, "effects": effects,
                           "changed": before != after, "id": w.id.to_string()})
                };
                // the exact wire form delivered is stored now and was not before (a duplicate of a
                // command B already holds is skipped without being stored again)
                let exact = format!("{}|{:?}|{:?}|{:?}|{}", w.id, w.priority, w.parent, w.policy, hex(&w.data));
                let has = |v: &Value| v.get("stored").and_then(|s| s.as_array()).map(|s| s.iter().any(|x| x.as_str() == Some(exact.as_str()))).unwrap_or(false);
                let newly_stored = has(&after) && !has(&before);
                let forged_accepted = res.is_ok() && (before != after || !effects.is_empty());
                match expect {
                    "rejected" => {
                        if res.is_ok() && newly_stored {
                            return fail(i, si, &format!("C35:forged-accepted:{}", tampered.join("+")),
                                "a command whose signed wire fields were modified in transit was accepted and stored", obs());
                        }
                        if forged_accepted || before != after || !effects.is_empty() {
                            return fail(i, si, &format!("C35:reject-left-trace:{}", tampered.join("+")),
                                "a rejected command changed the replica's heads, facts, effects or stored commands", obs());
                        }
                        if res.is_ok() {
                            // Ok(0): silently skipped without any effect — not an acceptance
                            drift += 1;
                            notes.push(format!("{}: add_commands returned Ok without storing", tampered.join("+")));
                        }
                    }
                    "accepted" => {
                        if let Err(e) = &res {
                            let key = if notes.iter().any(|n| n.contains("accepted-unsigned")) { "C35:honest-rejected-after-unsigned-tamper" } else { "C35:honest-rejected" };
                            return fail(i, si, key, &format!("the untampered command was rejected: {e}"), obs());
                        }
                        if !stored_after {
                            return fail(i, si, "C35:honest-not-stored", "the untampered command was not stored", obs());
                        }
                        // the spec's command 2 also carries C's registration (setup, honest)
                        if ci == 2 {
                            let (r, _) = bb.deliver(graph, &wires(2)[1]);
                            if let Err(e) = r {
                                return fail(i, si, "C35:honest-rejected", &format!("C's honest registration was rejected: {e}"), obs());
                            }
                        }
                    }
                    _ => {
                        // "either": fields the property does not name
                        match &res {
                            Ok(_) if stored_after => {
                                drift += 1;
                                notes.push(format!("accepted-unsigned:{}", tampered.join("+")));
                                if ci == 2 {
                                    let (r, _) = bb.deliver(graph, &wires(2)[1]);
                                    if r.is_err() {
                                        notes.push("C's registration rejected after unsigned tamper".into());
                                    }
                                }
                            }
                            Ok(_) => {}
                            Err(_) => {
                                if before != after || !effects.is_empty() {
                                    return fail(i, si, &format!("C35:reject-left-trace:{}", tampered.join("+")),
                                        "a rejected command changed the replica's heads, facts, effects or stored commands", obs());
                                }
                            }
                        }
                    }
                }
            }
            x => vrt::die(&format!("unknown step {x}")),
        }
    }
    // end state: B holds exactly A's history and facts
    let (va, vb) = (a.view(graph), bb.view(graph));
    if va.get("facts") != vb.get("facts") || va.get("heads") != vb.get("heads") {
        let key = if notes.iter().any(|n| n.starts_with("accepted-unsigned")) { "C35:diverged-after-unsigned-tamper" } else { "C35:final-state-differs" };
        if key == "C35:final-state-differs" {
            return fail(i, steps.len(), key, "after all honest commands were delivered B's heads/facts differ from A's", json!({"a": va, "b": vb, "notes": notes}));
        }
        drift += 1;
        notes.push("final heads/facts differ from A after an accepted unsigned-field tamper".into());
    }
    json!({"i": i, "ok": true, "step": -1, "drift": drift, "obs": {"notes": notes}})
}

fn kind_of(w: &Wire) -> String {
    postcard::from_bytes::<VmProtocolData<'_>>(&w.data).map(|d| d.kind.to_string()).unwrap_or_else(|_| "?".into())
}

#[allow(clippy::too_many_arguments)]
fn apply_tamper(m: &Machine, w: &mut Wire, ci: usize, f: &str, v: &str, hist: &[Wire], other_dev: DeviceId, rng: &mut vrt::Rng) -> Result<(), String> {
    // decode the data blob into owned parts
    let (mut author, mut kind, mut fields, mut sig) = {
        let d: VmProtocolData<'_> = postcard::from_bytes(&w.data).map_err(|e| format!("decode data: {e}"))?;
        (d.author_id, d.kind.clone(), d.serialized_fields.to_vec(), d.signature.to_vec())
    };
    let mut trailing = false;
    match (f, v) {
        ("payload", "value") => {
            let mut s = m.deserialize_struct(kind.clone(), &fields).map_err(|e| format!("deserialize_struct: {e}"))?;
            let mut done = false;
            for (_, val) in s.fields.iter_mut() {
                match val {
                    VmValue::Int(x) => {
                        *x += 1;
                        done = true;
                        break;
                    }
                    _ => {}
                }
            }
            if !done {
                for (_, val) in s.fields.iter_mut() {
                    if let VmValue::Bytes(bs) = val {
                        let l = bs.len();
                        bs[l - 1] ^= 1;
                        done = true;
                        break;
                    }
                }
            }
            if !done {
                return Err("no field to modify".into());
            }
            fields = m.serialize_struct(&s).map_err(|e| format!("serialize_struct: {e}"))?;
        }
        ("payload", "noncanonical") => {
            // over-long varint: the first byte b < 0x80 (an int field or a length prefix) becomes
            // [b | 0x80, 0x00], which decodes to the same value
            match fields.first().copied() {
                Some(b0) if b0 < 0x80 => {
                    fields[0] = b0 | 0x80;
                    fields.insert(1, 0x00);
                }
                _ => fields.push(0x00),
            }
        }
        ("payload", "malformed") => {
            fields.truncate(fields.len().saturating_sub(3));
        }
        ("kind", "sibling") => {
            kind = if kind.as_str() == "Create" { ident!("Increment") } else { ident!("Create") };
        }
        ("kind", "unknown") => kind = ident!("NoSuchCommand"),
        ("parent", "known") => {
            // the grandparent: another command B holds
            let Prior::Single(p) = w.parent else { return Err("no single parent".into()) };
            let pw = hist.iter().find(|x| x.id == p.id).ok_or("parent not in history")?;
            let Prior::Single(gp) = pw.parent else { return Err("parent has no single parent".into()) };
            w.parent = Prior::Single(gp);
        }
        ("parent", "unknown") => {
            let Prior::Single(p) = w.parent else { return Err("no single parent".into()) };
            w.parent = Prior::Single(Address { id: CmdId::from_bytes(rand_id(rng)), max_cut: p.max_cut });
        }
        ("author", "registered") => author = other_dev,
        ("author", "unknown") => author = DeviceId::from_bytes(rand_id(rng)),
        ("id", "other") => w.id = CmdId::from_bytes(rand_id(rng)),
        ("sig", "flip") => {
            let k = rng.below(sig.len() as u64) as usize;
            sig[k] ^= 1 << rng.below(8);
        }
        ("sig", "trunc") => {
            sig.pop();
        }
        ("priority", "other") => {
            w.priority = match w.priority {
                Priority::Basic(p) => Priority::Basic(p + 1),
                _ => Priority::Basic(0),
            };
        }
        ("maxcut", "plus") | ("maxcut", "minus") => {
            let Prior::Single(p) = w.parent else { return Err("no single parent".into()) };
            let mc = if v == "plus" { p.max_cut.get() + 1 } else { p.max_cut.get().checked_sub(1).ok_or("max cut 0")? };
            w.parent = Prior::Single(Address { id: p.id, max_cut: MaxCut::new(mc) });
        }
        ("policyfield", "set") => {
            w.policy = match &w.policy {
                None => Some(vec![1u8; 8]),
                Some(_) => None,
            };
        }
        ("trailing", "byte") => trailing = true,
        _ => return Err(format!("unknown tamper {f}:{v} (command {ci})")),
    }
    let d = VmProtocolData { author_id: author, kind, serialized_fields: &fields, signature: &sig };
    w.data = postcard::to_allocvec(&d).map_err(|e| format!("encode data: {e}"))?;
    if trailing {
        w.data.push(0);
    }
    Ok(())
}
