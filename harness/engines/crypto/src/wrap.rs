//! TABLE replay of `CryptoBinding.tla` (Scheme = "wrap") into `DefaultEngine::wrap` / `unwrap`
//! for all six key kinds (C36).
//!
//! Key kinds and the types standing for them: AEAD (harness type over `CS::Aead::Key`), KEM
//! decapsulation (`EncryptionKey`), MAC (harness type over `CS::Mac::Key`), PRK (`PskSeed`), seed
//! (`GroupKey`), signing (`SigningKey`).  Each cell is run with every kind as the wrapped kind.
//! Modifications of id / nonce / variant / ciphertext / tag go through the serialized (postcard)
//! form of the `WrappedKey`, as an attacker on storage would do it.
//!
//! Decides: unwrap with the wrapping engine as the wrapped kind yields a key with the same id
//! that interoperates with the original iff the spec says nothing changed; everything else is Err.
use std::marker::PhantomData;

use aranya_crypto::{
    dangerous::spideroak_crypto::{
        aead::Aead,
        ctutils::CtEq as _,
        keys::SecretKey as _,
        mac::Mac,
    },
    default::{DefaultCipherSuite as CS, DefaultEngine, WrappedKey},
    engine::UnwrappedKey,
    id::{IdError, IdExt as _},
    policy::{CmdId, GroupId},
    tls::PskSeed,
    unwrapped, BaseId, CipherSuite, Context, EncryptionKey, Engine, GroupKey, Identified, Random,
    SigningKey,
};
use vrt::{json, Args, Value};

use crate::{
    ops::{self, Cell, TOp},
    util::{hex, SeedRng},
};

type Eng = DefaultEngine<SeedRng, CS>;

// ---- harness key types for the kinds the library has no public type for
pub struct AeadK<CS: CipherSuite> {
    key: <CS::Aead as Aead>::Key,
    _m: PhantomData<CS>,
}
pub struct MacK<CS: CipherSuite> {
    key: <CS::Mac as Mac>::Key,
    _m: PhantomData<CS>,
}

fn fold_id(bytes: &[u8]) -> BaseId {
    let mut id = [0x5Au8; 32];
    for (i, b) in bytes.iter().enumerate() {
        id[i % 32] ^= b.rotate_left((i / 32) as u32);
    }
    BaseId::from_bytes(id)
}

impl<CS: CipherSuite> Identified for AeadK<CS> {
    type Id = BaseId;
    fn id(&self) -> Result<BaseId, IdError> {
        match self.key.try_export_secret() {
            Ok(s) => Ok(fold_id(s.as_bytes())),
            Err(_) => vrt::die("cannot export the harness key"),
        }
    }
}
impl<CS: CipherSuite> Identified for MacK<CS> {
    type Id = BaseId;
    fn id(&self) -> Result<BaseId, IdError> {
        match self.key.try_export_secret() {
            Ok(s) => Ok(fold_id(s.as_bytes())),
            Err(_) => vrt::die("cannot export the harness key"),
        }
    }
}
unwrapped! {
    name: AeadK;
    type: Aead;
    into: |k: Self| { k.key };
    from: |key| { AeadK { key, _m: PhantomData } };
}
unwrapped! {
    name: MacK;
    type: Mac;
    into: |k: Self| { k.key };
    from: |key| { MacK { key, _m: PhantomData } };
}

const KINDS: [&str; 6] = ["aead", "decap", "mac", "prk", "seed", "signing"];

/// A freshly generated key of one kind: its wrapped form plus a closure checking that another
/// key (the unwrapped one) has the same id and interoperates with the original.
struct Wrapped {
    wk: WrappedKey<CS>,
    id: [u8; 32],
}

fn base(id: impl AsRef<BaseId>) -> [u8; 32] {
    *id.as_ref().as_array()
}

fn ctx<'a>(author: &'a aranya_crypto::VerifyingKey<CS>) -> Context<'a, CS> {
    Context { label: "wrap-interop", parent: CmdId::default(), author_sign_pk: author }
}

/// Generates a key of `kind`, wraps it with `eng`, and returns (wrapped, original kept for interop).
enum Orig {
    Aead(<<CS as CipherSuite>::Aead as Aead>::Key),
    Decap(EncryptionKey<CS>),
    Mac(<<CS as CipherSuite>::Mac as Mac>::Key),
    Prk(PskSeed<CS>),
    Seed(GroupKey<CS>),
    Signing(SigningKey<CS>),
}

fn make(kind: &str, eng: &Eng, krng: &SeedRng) -> (Wrapped, Orig) {
    fn w<T: UnwrappedKey<CS>>(eng: &Eng, k: T) -> Wrapped
    where
        T::Id: AsRef<BaseId>,
    {
        let id = base(k.id().unwrap_or_else(|e| vrt::die(&format!("id: {e}"))));
        let wk = eng.wrap(k).unwrap_or_else(|e| panic!("HONEST-FAIL wrap: {e}"));
        Wrapped { wk, id }
    }
    match kind {
        "aead" => {
            let key = <<CS as CipherSuite>::Aead as Aead>::Key::random(krng);
            (w(eng, AeadK::<CS> { key: key.clone(), _m: PhantomData }), Orig::Aead(key))
        }
        "decap" => {
            let k = EncryptionKey::<CS>::new(krng);
            (w(eng, k.clone()), Orig::Decap(k))
        }
        "mac" => {
            let key = <<CS as CipherSuite>::Mac as Mac>::Key::random(krng);
            (w(eng, MacK::<CS> { key: key.clone(), _m: PhantomData }), Orig::Mac(key))
        }
        "prk" => {
            let k = PskSeed::<CS>::new(krng, &GroupId::random(krng));
            (w(eng, k.clone()), Orig::Prk(k))
        }
        "seed" => {
            let k = GroupKey::<CS>::new(krng);
            (w(eng, k.clone()), Orig::Seed(k))
        }
        "signing" => {
            let k = SigningKey::<CS>::new(krng);
            (w(eng, k.clone()), Orig::Signing(k))
        }
        x => vrt::die(&format!("unknown kind {x}")),
    }
}

/// `eng.unwrap::<T>` for the type standing for `kind`; Ok((id, interop verdict against `orig`)).
fn unwrap_as(kind: &str, eng: &Eng, wk: &WrappedKey<CS>, orig: &Orig, krng: &SeedRng) -> Result<([u8; 32], Result<(), String>), String> {
    const MSG: &[u8] = b"interop message of the wrap check";
    match kind {
        "aead" => {
            let k: AeadK<CS> = eng.unwrap(wk).map_err(|e| e.to_string())?;
            let id = base(k.id().map_err(|e| e.to_string())?);
            let inter = match orig {
                Orig::Aead(o) => (|| {
                    let nonce = [7u8; 12];
                    let mut ct = vec![0u8; MSG.len() + 16];
                    <CS as CipherSuite>::Aead::new(o).seal(&mut ct, &nonce, MSG, b"ad").map_err(|e| e.to_string())?;
                    let mut pt = vec![0u8; MSG.len()];
                    <CS as CipherSuite>::Aead::new(&k.key).open(&mut pt, &nonce, &ct, b"ad").map_err(|e| format!("unwrapped AEAD key cannot open: {e}"))?;
                    if pt == MSG { Ok(()) } else { Err("plaintext differs".into()) }
                })(),
                _ => Err("unwrapped as a kind different from the original".into()),
            };
            Ok((id, inter))
        }
        "decap" => {
            let k: EncryptionKey<CS> = eng.unwrap(wk).map_err(|e| e.to_string())?;
            let id = base(k.id().map_err(|e| e.to_string())?);
            let inter = match orig {
                Orig::Decap(o) => (|| {
                    let gk = GroupKey::<CS>::new(krng);
                    let group = GroupId::random(krng);
                    let (enc, ct) = o.public().map_err(|e| e.to_string())?.seal_group_key(krng, &gk, group).map_err(|e| e.to_string())?;
                    let got = k.open_group_key(&enc, ct, group).map_err(|e| format!("unwrapped decap key cannot open: {e}"))?;
                    if got.id().map_err(|e| e.to_string())? == gk.id().map_err(|e| e.to_string())? { Ok(()) } else { Err("group key differs".into()) }
                })(),
                _ => Err("unwrapped as a kind different from the original".into()),
            };
            Ok((id, inter))
        }
        "mac" => {
            let k: MacK<CS> = eng.unwrap(wk).map_err(|e| e.to_string())?;
            let id = base(k.id().map_err(|e| e.to_string())?);
            let inter = match orig {
                Orig::Mac(o) => {
                    let mut a = <CS as CipherSuite>::Mac::new(o);
                    a.update(MSG);
                    let mut b = <CS as CipherSuite>::Mac::new(&k.key);
                    b.update(MSG);
                    if bool::from(a.tag().ct_eq(&b.tag())) { Ok(()) } else { Err("MAC tags differ".into()) }
                }
                _ => Err("unwrapped as a kind different from the original".into()),
            };
            Ok((id, inter))
        }
        "prk" => {
            let k: PskSeed<CS> = eng.unwrap(wk).map_err(|e| e.to_string())?;
            let id = base(k.id().map_err(|e| e.to_string())?);
            let inter = match orig {
                Orig::Prk(o) => if bool::from(o.ct_eq(&k)) { Ok(()) } else { Err("PRK differs".into()) },
                _ => Err("unwrapped as a kind different from the original".into()),
            };
            Ok((id, inter))
        }
        "seed" => {
            let k: GroupKey<CS> = eng.unwrap(wk).map_err(|e| e.to_string())?;
            let id = base(k.id().map_err(|e| e.to_string())?);
            let inter = match orig {
                Orig::Seed(o) => (|| {
                    let author = SigningKey::<CS>::new(krng).public().map_err(|e| e.to_string())?;
                    let mut ct = vec![0u8; MSG.len() + GroupKey::<CS>::OVERHEAD];
                    o.seal(krng, &mut ct, MSG, ctx(&author)).map_err(|e| e.to_string())?;
                    let mut pt = vec![0u8; MSG.len()];
                    k.open(&mut pt, &ct, ctx(&author)).map_err(|e| format!("unwrapped group key cannot open: {e}"))?;
                    if pt == MSG { Ok(()) } else { Err("plaintext differs".into()) }
                })(),
                _ => Err("unwrapped as a kind different from the original".into()),
            };
            Ok((id, inter))
        }
        "signing" => {
            let k: SigningKey<CS> = eng.unwrap(wk).map_err(|e| e.to_string())?;
            let id = base(k.id().map_err(|e| e.to_string())?);
            let inter = match orig {
                Orig::Signing(o) => (|| {
                    let sig = k.sign(MSG, b"ctx").map_err(|e| e.to_string())?;
                    o.public().map_err(|e| e.to_string())?.verify(MSG, b"ctx", &sig).map_err(|e| format!("original does not verify the unwrapped key's signature: {e}"))
                })(),
                _ => Err("unwrapped as a kind different from the original".into()),
            };
            Ok((id, inter))
        }
        x => vrt::die(&format!("unknown kind {x}")),
    }
}

pub fn run(args: &Args) {
    let mut out = args.out();
    let inst = args.opt_u64("inst", 2);
    for (i, b) in args.read_input().iter().enumerate() {
        let cell = ops::parse(b);
        match vrt::catch_any(|| one(args.seed, i, &cell, inst)) {
            Ok(v) => out.emit(v),
            Err(p) => {
                let key = if p.starts_with("HONEST-FAIL") { "C36:honest-operation-failed" } else { "C36:panic" };
                out.fail(i, -1, key, &format!("wrap/unwrap panicked: {p}"), json!({"ops": b.get("ops")}))
            }
        }
    }
    out.finish();
}

fn fail(i: usize, key: &str, msg: &str, obs: Value) -> Value {
    json!({"i": i, "ok": false, "step": -1, "key": key, "msg": msg, "obs": obs})
}

fn one(seed: u64, i: usize, cell: &Cell, inst: u64) -> Value {
    let mut evals = 0u64;
    let mut drift = 0u64;
    for (ki, kind) in KINDS.iter().enumerate() {
        for k in 0..inst {
            let stream = ((i as u64) << 12) | ((ki as u64) << 8) | k;
            let krng = SeedRng::new(seed, stream);
            let mut rng = vrt::Rng::new(seed ^ stream.wrapping_mul(0x9E37_79B9) ^ 0xC36);
            let (eng, _) = Eng::from_entropy(SeedRng::new(seed, stream ^ 0xE1));
            let (eng2, _) = Eng::from_entropy(SeedRng::new(seed, stream ^ 0xE2));
            let (w, orig) = make(kind, &eng, &krng);
            let ser = postcard::to_allocvec(&w.wk).unwrap_or_else(|e| vrt::die(&format!("serialize wrapped key: {e}")));
            // layout of the serialized form: len(1)=32 id(32) nonce(12) variant(1) ciphertext(L) tag(16)
            let l = ser.len().checked_sub(62).unwrap_or_else(|| vrt::die("wrapped key layout: too short"));
            if ser[0] != 32 || ser[1..33] != w.id || !(l == 32 || l == 64 || l == 128) || ser[45] as usize != variant_index(kind) {
                vrt::die(&format!("wrapped key layout changed (len {}, kind {kind}, id {}, ser {}); adapt wrap.rs", ser.len(), hex(&w.id), hex(&ser)));
            }
            let region = |r: &str| -> std::ops::Range<usize> {
                match r {
                    "wid" => 1..33,
                    "nonce" => 33..45,
                    "variant" => 45..46,
                    "body" => 46..46 + l,
                    "tag" => 46 + l..62 + l,
                    x => vrt::die(&format!("unknown region {x}")),
                }
            };
            let mut pser = ser.clone();
            let mut other_engine = false;
            let mut as_kind = *kind;
            let mut applicable = true;
            let mut variant_flips = 0;
            for TOp { op, a, b } in &cell.ops {
                match (op.as_str(), a.as_str()) {
                    ("replace", "engine") => other_engine = true,
                    ("replace", "kind") => as_kind = KINDS.iter().filter(|x| *x != kind).nth(*b as usize - 1).unwrap(),
                    ("replace", "id") => {
                        let n = ops::random_bytes(&mut rng, 32);
                        pser[1..33].copy_from_slice(&n);
                    }
                    // the variant tag is rewritten to another *valid* variant (a random mask would
                    // almost always just break deserialization); resolved after the loop
                    ("flip", "variant") => variant_flips += 1,
                    ("flip", r) => applicable &= ops::flip(&mut pser[region(r)], *b, &mut rng),
                    (o, x) => vrt::die(&format!("wrap: unknown op {o} {x}")),
                }
            }
            if variant_flips > 0 {
                // prefer the variant of the kind the key is unwrapped as (the attacker's best choice)
                let want = if as_kind != *kind { variant_index(as_kind) } else { (variant_index(kind) + 1 + rng.below(5) as usize) % 6 };
                pser[45] = want as u8;
            }
            if !applicable {
                drift += 1;
                continue;
            }
            let concrete_unchanged = pser == ser && !other_engine && as_kind == *kind;
            if concrete_unchanged != cell.unchanged {
                drift += 1;
                continue;
            }
            let obs = |extra: Value| {
                json!({"kind": kind, "as": as_kind, "other_engine": other_engine, "inst": k,
                       "ops": cell.ops.iter().map(|o| format!("{} {} {}", o.op, o.a, o.b)).collect::<Vec<_>>(),
                       "wrapped": hex(&pser), "got": extra})
            };
            evals += 1;
            let e = if other_engine { &eng2 } else { &eng };
            let res = match postcard::from_bytes::<WrappedKey<CS>>(&pser) {
                Err(e) => Err(format!("deserialize: {e}")),
                Ok(wk) => unwrap_as(as_kind, e, &wk, &orig, &krng),
            };
            match (&res, cell.accept) {
                (Ok((id, inter)), true) => {
                    if *id != w.id {
                        return fail(i, "C36:id-differs", "unwrapped key has a different id", obs(json!({"id": hex(id)})));
                    }
                    if let Err(m) = inter {
                        return fail(i, "C36:no-interop", &format!("unwrapped key does not interoperate with the original: {m}"), obs(json!({})));
                    }
                }
                (Err(m), true) => return fail(i, &format!("C36:unwrap-rejects-authentic:{kind}"), &format!("unwrap of the untouched wrapped key failed: {m}"), obs(json!({"err": m}))),
                (Ok((id, _)), false) => {
                    return fail(i, &format!("C36:unwrap-accepts:{}", class(cell)),
                        "unwrap succeeded on a modified wrapped key / foreign engine / other kind", obs(json!({"id": hex(id)})));
                }
                (Err(_), false) => {}
            }
        }
    }
    json!({"i": i, "ok": true, "step": -1, "drift": drift, "evals": evals, "obs": {"accept": cell.accept}})
}

fn variant_index(kind: &str) -> usize {
    KINDS.iter().position(|k| *k == kind).unwrap()
}

fn class(cell: &Cell) -> String {
    let mut v: Vec<String> = cell.ops.iter().map(|o| format!("{}-{}", o.op, o.a)).collect();
    v.sort();
    v.dedup();
    v.join("+")
}
