//! Tamper operations of `CryptoBinding.tla` behaviours (`Hist.ops`), shared by the C34/C36/C37/C38
//! sub-engines.
use vrt::{Value, J};

#[derive(Clone, Debug)]
pub struct TOp {
    pub op: String,
    pub a: String,
    pub b: i64,
}

pub struct Cell {
    pub scheme: String,
    pub plen: usize,
    pub ops: Vec<TOp>,
    pub accept: bool,
    pub unchanged: bool,
}

pub fn parse(b: &Value) -> Cell {
    Cell {
        scheme: b.s("scheme").to_string(),
        plen: b.u("plen") as usize,
        ops: b
            .a("ops")
            .iter()
            .map(|o| TOp { op: o.s("op").to_string(), a: o.s("a").to_string(), b: o.i("b") })
            .collect(),
        accept: b.b("accept"),
        unchanged: b.b("unchanged"),
    }
}

/// An artifact region as concrete bytes; `flip` positions: 1 first, 2 middle, 3 last.
/// Returns false when the op cannot be applied (region too short): the cell is then skipped.
pub fn flip(bytes: &mut [u8], pos: i64, rng: &mut vrt::Rng) -> bool {
    if bytes.is_empty() {
        return false;
    }
    let i = match pos {
        1 => 0,
        2 => bytes.len() / 2,
        _ => bytes.len() - 1,
    };
    let mask = match rng.below(3) {
        0 => 0x01,
        1 => 0x80,
        _ => (rng.below(255) + 1) as u8,
    };
    bytes[i] ^= mask;
    true
}

pub fn random_bytes(rng: &mut vrt::Rng, n: usize) -> Vec<u8> {
    let mut v = vec![0u8; n];
    rng.fill(&mut v);
    v
}

pub fn random_alpha(rng: &mut vrt::Rng, n: usize) -> Vec<u8> {
    (0..n).map(|_| b'a' + rng.below(26) as u8).collect()
}

/// Replacement alternative `alt` of a fixed-size id-like value: 1 unrelated (random), 2 differs
/// only in the last byte, 3 differs only in the first byte.
pub fn near<const N: usize>(orig: &[u8; N], alt: i64, rng: &mut vrt::Rng) -> [u8; N] {
    let mut b = *orig;
    match alt {
        2 => b[N - 1] ^= 0x01,
        3 => b[0] ^= 0x80,
        _ => loop {
            rng.fill(&mut b);
            if &b != orig {
                break;
            }
        },
    }
    b
}
