//! TABLE replay of `CryptoBinding.tla` (schemes groupkey, sealedgk, pskseed, topicmsg,
//! sealedtopic) into the real sealing/opening primitives of aranya-crypto (C37):
//!
//! * groupkey     `GroupKey::seal` / `open` with `Context {label, parent, author_sign_pk}`
//! * sealedgk     `EncryptionPublicKey::seal_group_key` / `EncryptionKey::open_group_key`
//! * pskseed      `EncryptionKey::seal_psk_seed` / `open_psk_seed`
//! * topicmsg     `TopicKey::seal_message` / `open_message`
//! * sealedtopic  `ReceiverPublicKey::seal_topic_key` / `ReceiverSecretKey::open_topic_key`
//!
//! Decides: open(seal(p, ctx), ctx') returns p (resp. the same key) iff the spec says nothing
//! changed; every changed context component or ciphertext/encapsulation byte class is an Err —
//! never a different plaintext.
use aranya_crypto::{
    apq::{
        EncryptedTopicKey, ReceiverSecretKey, Sender, SenderSecretKey, SenderSigningKey, Topic,
        TopicKey, Version,
    },
    default::DefaultCipherSuite as CS,
    id::IdExt as _,
    policy::{CmdId, GroupId},
    tls::{EncryptedPskSeed, PskSeed},
    Context, Encap, EncryptedGroupKey, EncryptionKey, GroupKey, SigningKey,
};
use aranya_crypto::dangerous::spideroak_crypto::ctutils::CtEq as _;
use vrt::{json, Args, Value};

use crate::{
    ops::{self, Cell, TOp},
    util::{hex, SeedRng},
};

pub fn run(args: &Args) {
    let mut out = args.out();
    let inst = args.opt_u64("inst", 2);
    for (i, b) in args.read_input().iter().enumerate() {
        let cell = ops::parse(b);
        match vrt::catch_any(|| one(args.seed, i, &cell, inst)) {
            Ok(v) => out.emit(v),
            Err(p) => {
                let key = if p.starts_with("HONEST-FAIL") { "C37:honest-operation-failed" } else { "C37:panic" };
                out.fail(i, -1, key, &format!("seal/open panicked: {p}"), json!({"scheme": cell.scheme, "ops": b.get("ops")}))
            }
        }
    }
    out.finish();
}

fn fail(i: usize, key: &str, msg: &str, obs: Value) -> Value {
    json!({"i": i, "ok": false, "step": -1, "key": key, "msg": msg, "obs": obs})
}

/// Artifact = named byte regions, concatenated in order when presented.
struct Art {
    regions: Vec<(&'static str, Vec<u8>)>,
}

impl Art {
    fn get(&mut self, n: &str) -> &mut Vec<u8> {
        self.regions
            .iter_mut()
            .find(|(k, _)| *k == n)
            .map(|(_, v)| v)
            .unwrap_or_else(|| vrt::die(&format!("unknown region {n}")))
    }
    fn cat(&self, names: &[&str]) -> Vec<u8> {
        let mut v = Vec::new();
        for n in names {
            v.extend_from_slice(&self.regions.iter().find(|(k, _)| k == n).unwrap().1);
        }
        v
    }
    fn all(&self) -> Vec<u8> {
        self.regions.iter().flat_map(|(_, v)| v.iter().copied()).collect()
    }
}

/// Applies the artifact ops; returns false if some op is not applicable (empty region).
fn apply_art(art: &mut Art, ops: &[TOp], rng: &mut vrt::Rng) -> bool {
    let mut ok = true;
    for TOp { op, a, b } in ops {
        match op.as_str() {
            "flip" => ok &= ops::flip(art.get(a), *b, rng),
            "trunc" => {
                ok &= art.get(a).pop().is_some();
            }
            "ext" => art.get(a).push(rng.next_u64() as u8),
            _ => {}
        }
    }
    ok
}

fn replaced(ops: &[TOp], comp: &str) -> Option<i64> {
    ops.iter().filter(|o| o.op == "replace" && o.a == comp).map(|o| o.b).last()
}

/// postcard form of a struct of two fixed-size byte arrays (`ciphertext`, `tag`): the lengths
/// must add up, otherwise the layout assumption is wrong.
fn split2(ser: &[u8], a: usize, b: usize, what: &str) -> (Vec<u8>, Vec<u8>) {
    if ser.len() != a + b {
        vrt::die(&format!("{what}: serialized length {} != {a}+{b}; adapt enc.rs", ser.len()));
    }
    (ser[..a].to_vec(), ser[a..].to_vec())
}

fn one(seed: u64, i: usize, cell: &Cell, inst: u64) -> Value {
    let mut evals = 0u64;
    let mut drift = 0u64;
    for k in 0..inst {
        let stream = ((i as u64) << 8) | k;
        let krng = SeedRng::new(seed, stream ^ 0xC37_0000);
        let mut rng = vrt::Rng::new(seed ^ stream.wrapping_mul(0x9E37_79B9) ^ 0xC37);
        // plaintext length class -> concrete length (0, 1, 16, 17, 48 are block boundaries of the AEAD)
        let pt = ops::random_bytes(&mut rng, cell.plen);
        let r = match cell.scheme.as_str() {
            "groupkey" => groupkey(cell, &krng, &mut rng, &pt),
            "sealedgk" => sealedgk(cell, &krng, &mut rng),
            "pskseed" => pskseed(cell, &krng, &mut rng),
            "topicmsg" => topicmsg(cell, &krng, &mut rng, &pt),
            "sealedtopic" => sealedtopic(cell, &krng, &mut rng),
            s => vrt::die(&format!("enc: unknown scheme {s}")),
        };
        let Some((unchanged, res, presented)) = r else {
            drift += 1;
            continue;
        };
        if unchanged != cell.unchanged {
            drift += 1;
            continue;
        }
        evals += 1;
        let obs = |extra: Value| {
            json!({"scheme": cell.scheme, "plen": cell.plen, "inst": k,
                   "ops": cell.ops.iter().map(|o| format!("{} {} {}", o.op, o.a, o.b)).collect::<Vec<_>>(),
                   "presented": hex(&presented[..presented.len().min(160)]), "got": extra})
        };
        match (res, cell.accept) {
            (Ok(true), true) | (Err(_), false) => {}
            (Ok(false), true) => return fail(i, &format!("C37:{}:wrong-plaintext", cell.scheme), "open succeeded but returned something different from what was sealed", obs(json!({}))),
            (Err(e), true) => {
                let key = if cell.ops.is_empty() { format!("C37:roundtrip-failed:{}:len{}", cell.scheme, cell.plen) } else { format!("C37:{}:authentic-rejected", cell.scheme) };
                return fail(i, &key, &format!("open of the untouched ciphertext in its own context failed (seal/open does not round-trip): {e}"), obs(json!({"err": e})));
            }
            (Ok(same), false) => {
                return fail(i, &format!("C37:{}:open-accepts:{}", cell.scheme, class(cell)),
                    "open succeeded although the ciphertext or a context component changed", obs(json!({"same_plaintext": same})));
            }
        }
    }
    json!({"i": i, "ok": true, "step": -1, "drift": drift, "evals": evals, "obs": {"accept": cell.accept}})
}

type Outcome = Option<(bool, Result<bool, String>, Vec<u8>)>;


fn groupkey(cell: &Cell, krng: &SeedRng, rng: &mut vrt::Rng, pt: &[u8]) -> Outcome {
    let key = GroupKey::<CS>::new(krng);
    let key2 = GroupKey::<CS>::new(krng);
    let author = SigningKey::<CS>::new(krng).public().expect("pk");
    let author2 = SigningKey::<CS>::new(krng).public().expect("pk");
    // unusual labels too: empty, one character, long
    let llen = [6usize, 0, 1, 300][rng.below(4) as usize];
    let label = String::from_utf8(ops::random_alpha(rng, llen)).unwrap();
    let parent = CmdId::random(krng);
    let mut ct = vec![0u8; pt.len() + GroupKey::<CS>::OVERHEAD];
    key.seal(krng, &mut ct, pt, Context { label: &label, parent, author_sign_pk: &author })
        .unwrap_or_else(|e| panic!("HONEST-FAIL GroupKey::seal: {e}"));
    let mut art = Art { regions: vec![("nonce", ct[..12].to_vec()), ("body", ct[12..12 + pt.len()].to_vec()), ("tag", ct[12 + pt.len()..].to_vec())] };
    if !apply_art(&mut art, &cell.ops, rng) {
        return None;
    }
    let pct = art.all();
    let plabel = match replaced(&cell.ops, "label") {
        None => label.clone(),
        Some(1) => loop {
            let l = String::from_utf8(ops::random_alpha(rng, llen.max(1))).unwrap();
            if l != label {
                break l;
            }
        },
        Some(_) => format!("{label}x"),
    };
    let pparent = match replaced(&cell.ops, "parent") { Some(a) => CmdId::from_bytes(ops::near(parent.as_array(), a, rng)), None => parent };
    let pkey = if replaced(&cell.ops, "key").is_some() { &key2 } else { &key };
    let pauthor = if replaced(&cell.ops, "author").is_some() { &author2 } else { &author };
    let unchanged = pct == ct && plabel == label && pparent == parent && std::ptr::eq(pkey, &key) && std::ptr::eq(pauthor, &author);
    let mut dst = vec![0xAAu8; pct.len().saturating_sub(GroupKey::<CS>::OVERHEAD)];
    let res = pkey
        .open(&mut dst, &pct, Context { label: &plabel, parent: pparent, author_sign_pk: pauthor })
        .map(|()| dst == pt)
        .map_err(|e| e.to_string());
    Some((unchanged, res, pct))
}

fn sealedgk(cell: &Cell, krng: &SeedRng, rng: &mut vrt::Rng) -> Outcome {
    let recipient = EncryptionKey::<CS>::new(krng);
    let recipient2 = EncryptionKey::<CS>::new(krng);
    let gk = GroupKey::<CS>::new(krng);
    let group = GroupId::random(krng);
    let (enc, egk) = recipient
        .public()
        .expect("pk")
        .seal_group_key(krng, &gk, group)
        .unwrap_or_else(|e| panic!("HONEST-FAIL seal_group_key: {e}"));
    let ser = postcard::to_allocvec(&egk).unwrap_or_else(|e| vrt::die(&format!("serialize EncryptedGroupKey: {e}")));
    let (body, tag) = split2(&ser, 64, 16, "EncryptedGroupKey");
    let mut art = Art { regions: vec![("encap", enc.as_bytes().to_vec()), ("body", body), ("tag", tag)] };
    let orig_all = art.all();
    if !apply_art(&mut art, &cell.ops, rng) {
        return None;
    }
    let pgroup = match replaced(&cell.ops, "group") { Some(a) => GroupId::from_bytes(ops::near(group.as_array(), a, rng)), None => group };
    let psk = if replaced(&cell.ops, "recipient").is_some() { &recipient2 } else { &recipient };
    let unchanged = art.all() == orig_all && pgroup == group && std::ptr::eq(psk, &recipient);
    let res = (|| {
        let penc = Encap::<CS>::from_bytes(&art.cat(&["encap"])).map_err(|e| format!("encap import: {e}"))?;
        let pegk: EncryptedGroupKey<CS> = postcard::from_bytes(&art.cat(&["body", "tag"])).map_err(|e| format!("deserialize: {e}"))?;
        let got = psk.open_group_key(&penc, pegk, pgroup).map_err(|e| e.to_string())?;
        Ok(bool::from(got.ct_eq(&gk)))
    })();
    Some((unchanged, res, art.all()))
}

fn pskseed(cell: &Cell, krng: &SeedRng, rng: &mut vrt::Rng) -> Outcome {
    let sender = EncryptionKey::<CS>::new(krng);
    let sender2 = EncryptionKey::<CS>::new(krng);
    let recipient = EncryptionKey::<CS>::new(krng);
    let recipient2 = EncryptionKey::<CS>::new(krng);
    let group = GroupId::random(krng);
    let seed = PskSeed::<CS>::new(krng, &group);
    let (enc, eps) = sender
        .seal_psk_seed(krng, &seed, &recipient.public().expect("pk"), &group)
        .unwrap_or_else(|e| panic!("HONEST-FAIL seal_psk_seed: {e}"));
    let ser = postcard::to_allocvec(&eps).unwrap_or_else(|e| vrt::die(&format!("serialize EncryptedPskSeed: {e}")));
    let (body, tag) = split2(&ser, 64, 16, "EncryptedPskSeed");
    let mut art = Art { regions: vec![("encap", enc.as_bytes().to_vec()), ("body", body), ("tag", tag)] };
    let orig_all = art.all();
    if !apply_art(&mut art, &cell.ops, rng) {
        return None;
    }
    let pgroup = match replaced(&cell.ops, "group") { Some(a) => GroupId::from_bytes(ops::near(group.as_array(), a, rng)), None => group };
    let psender = if replaced(&cell.ops, "sender").is_some() { &sender2 } else { &sender };
    let precipient = if replaced(&cell.ops, "recipient").is_some() { &recipient2 } else { &recipient };
    let unchanged = art.all() == orig_all && pgroup == group && std::ptr::eq(psender, &sender) && std::ptr::eq(precipient, &recipient);
    let res = (|| {
        let penc = Encap::<CS>::from_bytes(&art.cat(&["encap"])).map_err(|e| format!("encap import: {e}"))?;
        let peps: EncryptedPskSeed<CS> = postcard::from_bytes(&art.cat(&["body", "tag"])).map_err(|e| format!("deserialize: {e}"))?;
        let got = precipient
            .open_psk_seed(&penc, peps, &psender.public().map_err(|e| e.to_string())?, &pgroup)
            .map_err(|e| e.to_string())?;
        Ok(bool::from(got.ct_eq(&seed)))
    })();
    Some((unchanged, res, art.all()))
}

fn topicmsg(cell: &Cell, krng: &SeedRng, rng: &mut vrt::Rng, pt: &[u8]) -> Outcome {
    let version = Version::new(rng.below(1000) as u32 + 1);
    let topic = Topic::new(ops::random_alpha(rng, 9));
    let key = TopicKey::<CS>::new(krng, version, &topic).unwrap_or_else(|e| panic!("HONEST-FAIL TopicKey::new: {e}"));
    let key2 = TopicKey::<CS>::new(krng, version, &topic).unwrap_or_else(|e| panic!("HONEST-FAIL TopicKey::new: {e}"));
    let senc = SenderSecretKey::<CS>::new(krng).public().expect("pk");
    let senc2 = SenderSecretKey::<CS>::new(krng).public().expect("pk");
    let ssign = SenderSigningKey::<CS>::new(krng).public().expect("pk");
    let ssign2 = SenderSigningKey::<CS>::new(krng).public().expect("pk");
    let mut ct = vec![0u8; pt.len() + TopicKey::<CS>::OVERHEAD];
    key.seal_message(krng, &mut ct, pt, version, &topic, &Sender { enc_key: &senc, sign_key: &ssign })
        .unwrap_or_else(|e| panic!("HONEST-FAIL seal_message: {e}"));
    let mut art = Art { regions: vec![("nonce", ct[..12].to_vec()), ("body", ct[12..12 + pt.len()].to_vec()), ("tag", ct[12 + pt.len()..].to_vec())] };
    if !apply_art(&mut art, &cell.ops, rng) {
        return None;
    }
    let pct = art.all();
    let pversion = match replaced(&cell.ops, "version") { Some(1) => Version::new(version.as_u32() + 1), Some(_) => Version::new(version.as_u32() ^ 0x0100_0000), None => version };
    let ptopic = match replaced(&cell.ops, "topic") { Some(a) => Topic::from(ops::near(topic.as_bytes(), a, rng)), None => topic };
    let pkey = if replaced(&cell.ops, "key").is_some() { &key2 } else { &key };
    let penc = if replaced(&cell.ops, "senc").is_some() { &senc2 } else { &senc };
    let psign = if replaced(&cell.ops, "ssign").is_some() { &ssign2 } else { &ssign };
    let unchanged = pct == ct && pversion.as_u32() == version.as_u32() && ptopic == topic && std::ptr::eq(pkey, &key) && std::ptr::eq(penc, &senc) && std::ptr::eq(psign, &ssign);
    let mut dst = vec![0xAAu8; pct.len().saturating_sub(TopicKey::<CS>::OVERHEAD)];
    let res = pkey
        .open_message(&mut dst, &pct, pversion, &ptopic, &Sender { enc_key: penc, sign_key: psign })
        .map(|()| dst == pt)
        .map_err(|e| e.to_string());
    Some((unchanged, res, pct))
}

fn sealedtopic(cell: &Cell, krng: &SeedRng, rng: &mut vrt::Rng) -> Outcome {
    let version = Version::new(rng.below(1000) as u32 + 1);
    let topic = Topic::new(ops::random_alpha(rng, 9));
    let sender = SenderSecretKey::<CS>::new(krng);
    let sender2 = SenderSecretKey::<CS>::new(krng);
    let receiver = ReceiverSecretKey::<CS>::new(krng);
    let receiver2 = ReceiverSecretKey::<CS>::new(krng);
    let tk = TopicKey::<CS>::new(krng, version, &topic).unwrap_or_else(|e| panic!("HONEST-FAIL TopicKey::new: {e}"));
    let (enc, etk) = receiver
        .public()
        .expect("pk")
        .seal_topic_key(krng, version, &topic, &sender, &tk)
        .unwrap_or_else(|e| panic!("HONEST-FAIL seal_topic_key: {e}"));
    let raw = etk.as_bytes().to_vec();
    let (body, tag) = split2(&raw, 64, 16, "EncryptedTopicKey");
    let mut art = Art { regions: vec![("encap", enc.as_bytes().to_vec()), ("body", body), ("tag", tag)] };
    let orig_all = art.all();
    if !apply_art(&mut art, &cell.ops, rng) {
        return None;
    }
    let pversion = match replaced(&cell.ops, "version") { Some(1) => Version::new(version.as_u32() + 1), Some(_) => Version::new(version.as_u32() ^ 0x0100_0000), None => version };
    let ptopic = match replaced(&cell.ops, "topic") { Some(a) => Topic::from(ops::near(topic.as_bytes(), a, rng)), None => topic };
    let psender = if replaced(&cell.ops, "sender").is_some() { &sender2 } else { &sender };
    let preceiver = if replaced(&cell.ops, "receiver").is_some() { &receiver2 } else { &receiver };
    let unchanged = art.all() == orig_all && pversion.as_u32() == version.as_u32() && ptopic == topic && std::ptr::eq(psender, &sender) && std::ptr::eq(preceiver, &receiver);
    let res = (|| {
        let penc = Encap::<CS>::from_bytes(&art.cat(&["encap"])).map_err(|e| format!("encap import: {e}"))?;
        let petk = EncryptedTopicKey::<CS>::from_bytes(&art.cat(&["body", "tag"])).map_err(|e| format!("ciphertext import: {e}"))?;
        let got = preceiver
            .open_topic_key(pversion, &ptopic, &psender.public().map_err(|e| e.to_string())?, &penc, &petk)
            .map_err(|e| e.to_string())?;
        Ok(got.id().map_err(|e| e.to_string())? == tk.id().map_err(|e| e.to_string())?)
    })();
    Some((unchanged, res, art.all()))
}

fn class(cell: &Cell) -> String {
    let mut v: Vec<String> = cell.ops.iter().map(|o| format!("{}-{}", o.op, o.a)).collect();
    v.sort();
    v.dedup();
    v.join("+")
}
