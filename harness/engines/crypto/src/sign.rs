//! TABLE replay of `CryptoBinding.tla` (Scheme = "cmdsig") into `SigningKey::sign_cmd`,
//! `VerifyingKey::verify_cmd` and the policy FFI `crypto::verify` (C34).
//!
//! Each cell (a tamper sequence chosen by TLC) is applied to `inst` concrete instances: seeded
//! signing keys, names, parent ids and command bytes; one symbolic byte of the spec corresponds
//! to `w` concrete bytes (w varies per instance), so boundary shifts move `w` bytes.
//!
//! Decides: verification succeeds (and derives the claimed id, equal to the signer's) iff the
//! spec says the presentation is unchanged.
use aranya_crypto::{
    dangerous::spideroak_crypto::{
        hash::Hash as _,
        rust::{Sha256, Sha512},
    },
    default::{DefaultCipherSuite as CS, DefaultEngine},
    keystore::memstore::MemStore,
    policy::CmdId,
    Cmd, Signature, SigningKey,
};
use aranya_crypto_ffi::Ffi;
use aranya_policy_vm::{
    ffi::FfiModule, CommandContext, Identifier, MachineStack, OpenContext, Stack as _, Value as VmValue,
};
use vrt::{json, Args, Value};

use crate::{
    ops::{self, Cell, TOp},
    util::{hex, SeedRng},
};

struct Pres {
    other_key: bool,
    name: Vec<u8>,
    parent: Vec<u8>,
    data: Vec<u8>,
}

fn take(v: &mut Vec<u8>, end: &str, w: usize) -> Option<Vec<u8>> {
    if v.len() < w {
        return None;
    }
    Some(if end == "h" { v.drain(..w).collect() } else { v.split_off(v.len() - w) })
}

fn put(v: &mut Vec<u8>, end: &str, mut b: Vec<u8>) {
    if end == "h" {
        b.extend_from_slice(v);
        *v = b;
    } else {
        v.extend_from_slice(&b);
    }
}

fn field<'a>(p: &'a mut Pres, n: &str) -> &'a mut Vec<u8> {
    match n {
        "name" => &mut p.name,
        "parent" => &mut p.parent,
        "data" => &mut p.data,
        x => vrt::die(&format!("unknown field {x}")),
    }
}

fn moves(name: &str) -> &'static [(&'static str, &'static str, &'static str, &'static str)] {
    match name {
        "data_to_name" => &[("data", "t", "name", "h")],
        "name_to_data" => &[("name", "h", "data", "t")],
        "name_thru_parent" => &[("name", "t", "parent", "h"), ("parent", "t", "data", "h")],
        "data_thru_parent" => &[("data", "h", "parent", "t"), ("parent", "h", "name", "t")],
        x => vrt::die(&format!("unknown move {x}")),
    }
}

pub fn run(args: &Args) {
    let mut out = args.out();
    let inst = args.opt_u64("inst", 3);
    for (i, b) in args.read_input().iter().enumerate() {
        let cell = ops::parse(b);
        match vrt::catch_any(|| one(args.seed, i, &cell, inst)) {
            Ok(v) => out.emit(v),
            Err(p) => {
                let key = if p.starts_with("HONEST-FAIL") { "C34:honest-operation-failed" } else { "C34:panic" };
                out.fail(i, -1, key, &format!("sign/verify panicked: {p}"), json!({"ops": b.get("ops")}))
            }
        }
    }
    out.finish();
}

fn fail(i: usize, key: &str, msg: &str, obs: Value) -> Value {
    json!({"i": i, "ok": false, "step": -1, "key": key, "msg": msg, "obs": obs})
}

fn one(seed: u64, i: usize, cell: &Cell, inst: u64) -> Value {
    let mut evals = 0u64;
    let mut drift = 0u64;
    for k in 0..inst {
        let w = [1usize, 5, 16][(k % 3) as usize];
        let stream = (i as u64) << 8 | k;
        let krng = SeedRng::new(seed, stream);
        let mut rng = vrt::Rng::new(seed ^ stream.wrapping_mul(0x9E37_79B9));
        let sk = SigningKey::<CS>::new(&krng);
        let sk2 = SigningKey::<CS>::new(&krng);
        let pk = sk.public().expect("public key");
        let pk2 = sk2.public().expect("public key");

        // original context: 2 symbolic units per variable field, all bytes alphabetic so that every
        // shifted name is still a valid identifier / UTF-8 string
        let o_name = ops::random_alpha(&mut rng, 2 * w);
        let o_parent = ops::random_alpha(&mut rng, 32);
        // data length class: 0 = two units of w bytes, else exactly that many bytes (lengths
        // straddling size thresholds of the implementation)
        let o_data = ops::random_alpha(&mut rng, if cell.plen == 0 { 2 * w } else { cell.plen });
        let parent_id = CmdId::from_bytes(o_parent.clone().try_into().unwrap());
        let (sig, signer_id) = sk
            .sign_cmd(Cmd { data: &o_data, name: std::str::from_utf8(&o_name).unwrap(), parent_id: &parent_id })
            .unwrap_or_else(|e| panic!("HONEST-FAIL sign_cmd: {e}"));
        let mut a_sig: Vec<u8> = std::borrow::Borrow::<[u8]>::borrow(&sig.to_bytes()).to_vec();
        let mut a_id: Vec<u8> = signer_id.as_bytes().to_vec();
        let (o_sig, o_id) = (a_sig.clone(), a_id.clone());

        let mut p = Pres { other_key: false, name: o_name.clone(), parent: o_parent.clone(), data: o_data.clone() };
        let mut applicable = true;
        for TOp { op, a, b } in &cell.ops {
            match (op.as_str(), a.as_str()) {
                ("replace", "key") => p.other_key = true,
                ("replace", "name") => {
                    if *b == 1 {
                        let l = p.name.len().max(1);
                        p.name = loop {
                            let n = ops::random_alpha(&mut rng, l);
                            if n != o_name {
                                break n;
                            }
                        }
                    } else {
                        p.name = o_name.clone();
                        p.name.push(b'a' + rng.below(26) as u8);
                    }
                }
                ("replace", "parent") => {
                    let o: [u8; 32] = o_parent.clone().try_into().unwrap();
                    p.parent = if *b == 1 {
                        loop {
                            let n = ops::random_alpha(&mut rng, 32);
                            if n != o_parent {
                                break n;
                            }
                        }
                    } else {
                        // near miss; keep it alphabetic so that shifted names stay valid text
                        let mut n = ops::near(&o, *b, &mut rng).to_vec();
                        let i = if *b == 2 { 31 } else { 0 };
                        n[i] = if o[i] == b'a' { b'b' } else { b'a' };
                        n
                    };
                }
                ("replace", "data") => {
                    if *b == 1 {
                        let l = p.data.len().max(1);
                        p.data = loop {
                            let n = ops::random_alpha(&mut rng, l);
                            if n != o_data {
                                break n;
                            }
                        }
                    } else {
                        // values related to the signed data
                        p.data = match *b {
                            2 => o_data[..o_data.len() - 1].to_vec(),
                            3 => Sha256::hash(&o_data).as_bytes().to_vec(),
                            4 => Sha512::hash(&o_data).as_bytes().to_vec(),
                            _ => o_data[..o_data.len().min(32)].to_vec(),
                        };
                        if p.data == o_data {
                            applicable = false; // (data not longer than 32 bytes: prefix = data)
                        }
                    }
                }
                ("move", m) => {
                    for (from, fe, to, te) in moves(m) {
                        match take(field(&mut p, from), fe, w) {
                            Some(bytes) => put(field(&mut p, to), te, bytes),
                            None => applicable = false,
                        }
                    }
                }
                ("flip", "sig") => applicable &= ops::flip(&mut a_sig, *b, &mut rng),
                ("flip", "id") => applicable &= ops::flip(&mut a_id, *b, &mut rng),
                ("trunc", "sig") => {
                    a_sig.pop();
                }
                ("ext", "sig") => a_sig.push(rng.next_u64() as u8),
                (o, x) => vrt::die(&format!("cmdsig: unknown op {o} {x}")),
            }
        }
        if !applicable {
            drift += 1;
            continue;
        }
        // concrete ground truth must agree with the spec's notion of "unchanged"
        let concrete_unchanged = !p.other_key && p.name == o_name && p.parent == o_parent && p.data == o_data && a_sig == o_sig && a_id == o_id;
        if concrete_unchanged != cell.unchanged {
            drift += 1; // concretisation coincidence; not a statement about the code
            continue;
        }
        let obs = |extra: Value| {
            json!({"ops": cell.ops.iter().map(|o| format!("{} {} {}", o.op, o.a, o.b)).collect::<Vec<_>>(),
                   "w": w, "inst": k, "name": String::from_utf8_lossy(&p.name), "parent": hex(&p.parent),
                   "data": hex(&p.data), "sig": hex(&a_sig), "claimed_id": hex(&a_id), "got": extra})
        };
        let vk = if p.other_key { &pk2 } else { &pk };
        let claimed = CmdId::from_bytes(a_id.clone().try_into().unwrap());
        let pparent = CmdId::from_bytes(p.parent.clone().try_into().unwrap());
        let Ok(name_str) = std::str::from_utf8(&p.name) else {
            drift += 1;
            continue;
        };

        // ---- path 1: VerifyingKey::verify_cmd + id comparison
        let direct: Result<CmdId, String> = match Signature::<CS>::from_bytes(&a_sig) {
            Err(e) => Err(format!("import: {e}")),
            Ok(s) => vk
                .verify_cmd(Cmd { data: &p.data, name: name_str, parent_id: &pparent }, &s)
                .map_err(|e| e.to_string()),
        };
        evals += 1;
        let direct_accept = matches!(&direct, Ok(id) if *id == claimed);
        if direct_accept != cell.accept {
            let (key, msg) = if direct_accept {
                (format!("C34:verify_cmd-accepts:{}", class(cell)), "verify_cmd accepted a modified command/signature/id")
            } else {
                ("C34:verify_cmd-rejects-authentic".to_string(), "verify_cmd rejected the untouched command")
            };
            return fail(i, &key, msg, obs(json!({"verify_cmd": format!("{:?}", direct.as_ref().map(|x| x.to_string()))})));
        }
        if let Ok(id) = &direct {
            // a signature that verifies derives the signer's id exactly when nothing but the claimed id changed
            if cell.accept && *id != signer_id {
                return fail(i, "C34:id-disagree", "sign_cmd and verify_cmd derive different command ids", obs(json!({"verify_id": id.to_string(), "sign_id": signer_id.to_string()})));
            }
        }

        // ---- path 2: policy FFI crypto::verify in an open context
        if let Ok(ident) = name_str.parse::<Identifier>() {
            let ffi = Ffi::new(MemStore::new());
            let (eng, _) = DefaultEngine::<_, CS>::from_entropy(SeedRng::new(seed, stream ^ 0xFF1));
            let ctx = CommandContext::Open(OpenContext { name: ident });
            let mut stack = MachineStack::new();
            let pkb = postcard::to_allocvec(vk).unwrap_or_else(|e| vrt::die(&format!("postcard pk: {e}")));
            let push = |s: &mut MachineStack, v: VmValue| s.push_value(v).unwrap_or_else(|e| vrt::die(&format!("push: {e}")));
            push(&mut stack, VmValue::Option(Some(Box::new(VmValue::Bytes(pkb)))));
            push(&mut stack, VmValue::Id(pparent.as_base()));
            push(&mut stack, VmValue::Bytes(p.data.clone()));
            push(&mut stack, VmValue::Id(claimed.as_base()));
            push(&mut stack, VmValue::Bytes(a_sig.clone()));
            let idx = <Ffi<MemStore> as FfiModule>::SCHEMA
                .functions
                .iter()
                .position(|f| f.name.as_str() == "verify")
                .unwrap_or_else(|| vrt::die("crypto FFI has no `verify`"));
            let r = ffi.call(idx, &mut stack, &ctx, &eng);
            evals += 1;
            let ffi_accept = r.is_ok();
            if ffi_accept != cell.accept {
                let (key, msg) = if ffi_accept {
                    (format!("C34:ffi-verify-accepts:{}", class(cell)), "crypto::verify accepted a modified command/signature/id")
                } else {
                    ("C34:ffi-verify-rejects-authentic".to_string(), "crypto::verify rejected the untouched command")
                };
                return fail(i, &key, msg, obs(json!({"ffi": r.map_err(|e| e.to_string()).err()})));
            }
        }
    }
    json!({"i": i, "ok": true, "step": -1, "drift": drift, "evals": evals, "obs": {"accept": cell.accept}})
}

/// failing-class fingerprint: which kinds of tamper the accepted cell contained
fn class(cell: &Cell) -> String {
    let mut v: Vec<String> = cell.ops.iter().map(|o| if o.op == "move" { "move".to_string() } else { format!("{}-{}", o.op, o.a) }).collect();
    v.sort();
    v.dedup();
    v.join("+")
}
