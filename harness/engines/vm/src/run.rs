//! S2I replay of `PolicyLang.tla` programs into the real parser -> compiler -> VM (C22, C23, C24, C28).
//!
//! input item: `{"rt": type, "params": [[name,type]..], "body": [stmt..],
//!               "envs": [{"args": [value..], "exp": {"k": "val"|"panic"|"stuck", "v": value, "log": [[f,[args]]..]}}..],
//!               "prelude": {...}?}`  (the prelude may also come as a first item `{"prelude": ...}`).
//! Programs are batched into one policy document (`--opt batch=N`); a document the real front end
//! rejects is split so that every program gets its own verdict (rejected programs are counted,
//! never an alarm: the properties speak about accepted programs).
//!
//! `--opt prop=C22|C23|C24|C28` selects the predicate that decides `ok`:
//!   C22/C23  exit reason, returned value and foreign-call log equal the spec's Eval outcome;
//!   C24      no run ends in a machine error other than I/O, FFI or stack exhaustion;
//!   C28      compile twice => equal Module; CBOR (serde, as the CLI writes it) and rkyv round
//!            trips => equal Module and Machine; the decoded machine gives the predicted outcomes.
use std::{cell::RefCell, time::Instant};

use aranya_policy_ast::Version;
use aranya_policy_compiler::Compiler;
use aranya_policy_lang::lang::parse_policy_str;
use aranya_policy_module::Module;
use aranya_policy_vm::{
    ActionContext, CommandContext, ExitReason, FactKey, FactKeyList, FactValue, FactValueList,
    Identifier, KVPair, Label, LabelType, Machine, MachineError, MachineErrorType, MachineIO,
    MachineIOError, MachineStack, Stack, Value, ffi, ident,
};
use vrt::{die, json, Args, Value as Json};

use crate::render::{self, Prelude};

/// Harness I/O: no facts, no effects; foreign functions of module `vt` log their arguments and
/// return the first one.
pub struct Io {
    pub arity: Vec<usize>,
    pub log: RefCell<Vec<(usize, Vec<Value>)>>,
}

impl MachineIO<MachineStack> for Io {
    type QueryIterator = std::vec::IntoIter<Result<(FactKeyList, FactValueList), MachineIOError>>;
    fn fact_insert(
        &mut self,
        _: Identifier,
        _: impl IntoIterator<Item = FactKey>,
        _: impl IntoIterator<Item = FactValue>,
    ) -> Result<(), MachineIOError> {
        Err(MachineIOError::Internal)
    }
    fn fact_delete(&mut self, _: Identifier, _: impl IntoIterator<Item = FactKey>) -> Result<(), MachineIOError> {
        Err(MachineIOError::Internal)
    }
    fn fact_query(&self, _: Identifier, _: impl IntoIterator<Item = FactKey>) -> Result<Self::QueryIterator, MachineIOError> {
        Ok(vec![].into_iter())
    }
    fn effect(&mut self, _: Identifier, _: impl IntoIterator<Item = KVPair>, _: aranya_crypto::policy::CmdId, _: bool) {}
    fn call(&self, module: usize, procedure: usize, stack: &mut MachineStack, _ctx: &CommandContext) -> Result<(), MachineError> {
        if module != 0 {
            return Err(MachineError::new(MachineErrorType::FfiModuleNotDefined(module)));
        }
        let Some(&n) = self.arity.get(procedure) else {
            return Err(MachineError::new(MachineErrorType::FfiProcedureNotDefined(ident!("vt"), procedure)));
        };
        let mut args = Vec::new();
        for _ in 0..n {
            args.push(stack.pop_value().map_err(MachineError::new)?);
        }
        args.reverse();
        let ret = args[0].clone();
        self.log.borrow_mut().push((procedure, args));
        stack.push_value(ret).map_err(MachineError::new)?;
        Ok(())
    }
}

fn leak<T>(v: T) -> &'static T {
    Box::leak(Box::new(v))
}

fn ffi_type(t: &Json) -> ffi::Type<'static> {
    let a = t.as_array().unwrap_or_else(|| die("bad type"));
    match a[0].as_str().unwrap_or("") {
        "int" => ffi::Type::Int,
        "bool" => ffi::Type::Bool,
        "string" => ffi::Type::String,
        "id" => ffi::Type::Id,
        "enum" => ffi::Type::Enum(render::ident(a[1].as_str().unwrap_or(""))),
        "struct" => ffi::Type::Struct(render::ident(a[1].as_str().unwrap_or(""))),
        "opt" => ffi::Type::Optional(leak(ffi_type(&a[1]))),
        "res" => ffi::Type::Result(leak(ffi_type(&a[1])), leak(ffi_type(&a[2]))),
        x => die(&format!("bad ffi type {x}")),
    }
}

/// The FFI schema of module `vt` as the spec's prelude declares it.
fn ffi_schema(pre: &Prelude) -> (ffi::ModuleSchema<'static>, Vec<usize>) {
    let mut funcs = Vec::new();
    let mut arity = Vec::new();
    for name in pre.ffi_names() {
        let def = &pre.json["ffis"][&name];
        let args: Vec<ffi::Arg<'static>> = def["args"]
            .as_array()
            .unwrap_or_else(|| die("bad ffi args"))
            .iter()
            .enumerate()
            .map(|(i, t)| ffi::Arg { name: render::ident(&format!("a{i}")), vtype: ffi_type(t) })
            .collect();
        arity.push(args.len());
        funcs.push(ffi::Func {
            name: render::ident(&name),
            args: Box::leak(args.into_boxed_slice()),
            return_type: ffi_type(&def["ret"]),
        });
    }
    (
        ffi::ModuleSchema {
            name: ident!("vt"),
            functions: Box::leak(funcs.into_boxed_slice()),
            structs: &[],
            enums: &[],
        },
        arity,
    )
}

pub enum Front {
    Ok(Module),
    Parse(String),
    Compile(String),
    Panic(String),
}

fn first_line(s: &str) -> String {
    let l = s.lines().find(|l| !l.trim().is_empty()).unwrap_or("").trim();
    l.chars().take(160).collect()
}

/// parse + compile one document; panics of the front end are data.
pub fn front_end(text: &str, schemas: &[ffi::ModuleSchema<'static>]) -> Front {
    let r = vrt::catch_any(|| {
        let policy = match parse_policy_str(text, Version::V2) {
            Ok(p) => p,
            Err(e) => {
                let m = vrt::catch_any(|| e.to_string()).unwrap_or_else(|_| format!("{:?}", e.kind));
                return Front::Parse(first_line(&m));
            }
        };
        match Compiler::new(&policy).ffi_modules(schemas).debug(true).compile() {
            Ok(m) => Front::Ok(m),
            Err(e) => {
                let m = vrt::catch_any(|| e.to_string()).unwrap_or_else(|_| "unprintable".into());
                Front::Compile(first_line(&m))
            }
        }
    });
    match r {
        Ok(f) => f,
        Err(p) => Front::Panic(p),
    }
}

#[derive(Debug)]
pub enum Outcome {
    Val(Value),
    Exit(ExitReason),
    Error(MachineErrorType),
    HostPanic(String),
}

pub struct RunResult {
    pub outcome: Outcome,
    pub log: Vec<(usize, Vec<Value>)>,
    pub stack_left: usize,
}

/// Enter `fname` at its Function label with `args` on the stack and run to completion.
pub fn call_function(machine: &Machine, arity: &[usize], fname: &Identifier, args: &[Value]) -> RunResult {
    let mut io = Io { arity: arity.to_vec(), log: RefCell::new(vec![]) };
    let r = vrt::catch_any(|| {
        let ctx = CommandContext::Action(ActionContext { name: ident!("vh"), head_id: Default::default() });
        let mut rs = machine.create_run_state(&mut io, ctx);
        if let Err(e) = rs.set_pc_by_label(&Label::new(fname.clone(), LabelType::Function)) {
            return (Outcome::Error(e.err_type), 0);
        }
        for a in args {
            if let Err(e) = rs.stack.push_value(a.clone()) {
                return (Outcome::Error(e), 0);
            }
        }
        match rs.run() {
            Ok(ExitReason::Normal) => {
                let left = rs.stack.len();
                match rs.consume_return() {
                    Ok(v) => (Outcome::Val(v), left.saturating_sub(1)),
                    Err(e) => (Outcome::Error(e.err_type), 0),
                }
            }
            Ok(r) => (Outcome::Exit(r), rs.stack.len()),
            Err(e) => (Outcome::Error(e.err_type), rs.stack.len()),
        }
    });
    let log = io.log.into_inner();
    match r {
        Ok((outcome, stack_left)) => RunResult { outcome, log, stack_left },
        Err(p) => RunResult { outcome: Outcome::HostPanic(p), log, stack_left: 0 },
    }
}

fn err_variant(e: &MachineErrorType) -> String {
    let d = format!("{e:?}");
    d.split(|c: char| !c.is_alphanumeric()).next().unwrap_or("").to_string()
}

/// C24: which machine errors an accepted policy may end with.
fn error_allowed(e: &MachineErrorType) -> bool {
    matches!(
        e,
        MachineErrorType::StackOverflow
            | MachineErrorType::IO(_)
            | MachineErrorType::FfiModuleNotDefined(_)
            | MachineErrorType::FfiProcedureNotDefined(..)
    )
}

struct Prog<'a> {
    i: usize,
    item: &'a Json,
    name: String,
}

struct Ctxt {
    prop: String,
    pre: Prelude,
    pre_text: String,
    schemas: Vec<ffi::ModuleSchema<'static>>,
    arity: Vec<usize>,
    ffi_names: Vec<String>,
}

/// The function under test; with a `caller` (PolicyLang Focus = "ret") the derived function is
/// rendered as `<name>_c` and `<name>` is the caller that invokes it as `callee(..)`.
fn function_text(p: &Prog) -> String {
    match p.item.get("caller") {
        None => render::render_function(&p.name, &p.item["params"], &p.item["rt"], &p.item["body"]),
        Some(caller) => {
            let callee_name = format!("{}_c", p.name);
            let callee = render::render_function(&callee_name, &p.item["params"], &p.item["rt"], &p.item["body"]);
            let outer = render::render_function(&p.name, &p.item["params"], &p.item["crt"], caller);
            format!("{callee}{}", render::rename_ident(&outer, "callee", &callee_name))
        }
    }
}

fn document(cx: &Ctxt, progs: &[Prog]) -> String {
    let mut s = cx.pre_text.clone();
    for p in progs {
        s.push_str(&function_text(p));
    }
    s
}

fn show(v: &Value) -> String {
    format!("{v}")
}

/// Compare all environments of one program on `machine`; returns (ok, key, msg, obs).
fn judge(cx: &Ctxt, machine: &Machine, p: &Prog, tag: &str) -> (bool, String, String, Json) {
    let root = render::root_op(&p.item["body"]);
    let fname = render::ident(&p.name);
    let envs = p.item["envs"].as_array().unwrap_or_else(|| die("envs not an array"));
    let mut n_val = 0usize;
    let mut n_panic = 0usize;
    let mut n_log = 0usize;
    let mut leaks = 0usize;
    let mut fail: Option<(String, String, Json)> = None;
    for (ei, env) in envs.iter().enumerate() {
        let args: Vec<Value> = env["args"]
            .as_array()
            .unwrap_or_else(|| die("args not an array"))
            .iter()
            .map(|a| cx.pre.value(a))
            .collect();
        let r = call_function(machine, &cx.arity, &fname, &args);
        leaks += r.stack_left;
        let exp = &env["exp"];
        let ek = exp["k"].as_str().unwrap_or("");
        let got_desc = match &r.outcome {
            Outcome::Val(v) => format!("value {}", show(v)),
            Outcome::Exit(x) => format!("exit {x}"),
            Outcome::Error(e) => format!("machine error {e}"),
            Outcome::HostPanic(m) => format!("host panic {m}"),
        };
        let got_log: Vec<Json> = r
            .log
            .iter()
            .map(|(pidx, a)| json!([cx.ffi_names.get(*pidx).cloned().unwrap_or_default(), a.iter().map(show).collect::<Vec<_>>()]))
            .collect();
        let mk = |key: String, msg: String| {
            Some((
                key,
                msg,
                json!({"env": ei, "args": env["args"], "expected": exp, "got": got_desc, "got_log": got_log, "function": function_text(p)}),
            ))
        };
        // C24 predicate (also a C22 mismatch, reported under the property asked for)
        if let Outcome::Error(e) = &r.outcome {
            if !error_allowed(e) {
                let key = if cx.prop == "C24" {
                    format!("C24:{}:{root}", err_variant(e))
                } else {
                    format!("{}:{tag}machine-error:{}:{root}", cx.prop, err_variant(e))
                };
                if fail.is_none() {
                    fail = mk(key, format!("accepted program ended in machine error `{e}`"));
                }
                continue;
            }
        }
        if let Outcome::HostPanic(m) = &r.outcome {
            if fail.is_none() {
                fail = mk(format!("{}:{tag}vm-panicked:{root}", cx.prop), format!("the VM panicked: {m}"));
            }
            continue;
        }
        if cx.prop == "C24" || ek == "stuck" {
            continue;
        }
        // C22 / C23 / C28: the spec's outcome is the oracle
        let exp_log: Vec<(String, Vec<Value>)> = exp["log"]
            .as_array()
            .map(|l| {
                l.iter()
                    .map(|c| {
                        (
                            c[0].as_str().unwrap_or("").to_string(),
                            c[1].as_array().map(|a| a.iter().map(|v| cx.pre.value(v)).collect()).unwrap_or_default(),
                        )
                    })
                    .collect()
            })
            .unwrap_or_default();
        let log_equal = exp_log.len() == r.log.len()
            && exp_log.iter().zip(&r.log).all(|((f, a), (pidx, b))| cx.ffi_names.get(*pidx) == Some(f) && a == b);
        n_log += r.log.len();
        let verdict = match (ek, &r.outcome) {
            ("val", Outcome::Val(v)) => {
                n_val += 1;
                if *v == cx.pre.value(&exp["v"]) { None } else { Some("value") }
            }
            ("panic", Outcome::Exit(ExitReason::Panic)) => {
                n_panic += 1;
                None
            }
            ("val", Outcome::Exit(ExitReason::Panic)) => Some("spurious-panic"),
            ("panic", Outcome::Val(_)) => Some("missed-panic"),
            _ => Some("exit"),
        };
        if let Some(kind) = verdict {
            if fail.is_none() {
                fail = mk(
                    format!("{}:{tag}{kind}:{root}", cx.prop),
                    format!("VM outcome differs from the language semantics: expected {}, got {got_desc}", exp["k"]),
                );
            }
        } else if !log_equal && fail.is_none() {
            fail = mk(
                format!("{}:{tag}foreign-calls:{root}", cx.prop),
                "foreign-call log differs from the semantics (an untaken operand/branch ran, or a taken one did not)".into(),
            );
        }
    }
    match fail {
        Some((key, msg, obs)) => (false, key, msg, obs),
        None => (
            true,
            String::new(),
            String::new(),
            json!({"status": "ran", "envs": envs.len(), "vals": n_val, "panics": n_panic, "calls": n_log, "stack_left": leaks}),
        ),
    }
}

fn cbor_roundtrip(m: &Module) -> Result<Module, String> {
    let mut buf = Vec::new();
    ciborium::into_writer(m, &mut buf).map_err(|e| format!("encode: {e}"))?;
    ciborium::from_reader(&buf[..]).map_err(|e| format!("decode: {e}"))
}

fn rkyv_roundtrip(m: &Module) -> Result<Module, String> {
    let bytes = rkyv::to_bytes::<rkyv::rancor::Error>(m).map_err(|e| format!("encode: {e}"))?;
    rkyv::from_bytes::<Module, rkyv::rancor::Error>(&bytes).map_err(|e| format!("decode: {e}"))
}

fn postcard_roundtrip(m: &Module) -> Result<Module, String> {
    let bytes = postcard::to_allocvec(m).map_err(|e| format!("encode: {e}"))?;
    postcard::from_bytes(&bytes).map_err(|e| format!("decode: {e}"))
}

/// First differing instruction of two modules, for the failure report.
fn module_diff(a: &Module, b: &Module) -> String {
    let aranya_policy_module::ModuleData::V0(x) = &a.data;
    let aranya_policy_module::ModuleData::V0(y) = &b.data;
    for (i, (p, q)) in x.progmem.iter().zip(y.progmem.iter()).enumerate() {
        if p != q {
            return format!("progmem[{i}]: `{p}` vs `{q}`");
        }
    }
    "outside progmem".into()
}

/// C28 at document level; returns a failure (key, msg, obs) or the machines to re-run on.
fn c28_document(cx: &Ctxt, text: &str, module: &Module) -> Result<Vec<(&'static str, Machine)>, (String, String, Json)> {
    // Determinism: the same text is compiled several more times (hash-map iteration order is
    // random per map instance, so one repetition could agree by chance).
    for round in 0..5 {
        let again = match front_end(text, &cx.schemas) {
            Front::Ok(m) => m,
            _ => {
                return Err((
                    "C28:second-compile-rejected".into(),
                    "the same text compiled the first time and was rejected later".into(),
                    json!({"round": round}),
                ));
            }
        };
        if again != *module {
            let diff = module_diff(module, &again);
            return Err((
                "C28:compile-nondeterministic".into(),
                "compiling the same text twice gave different modules".into(),
                json!({"round": round, "first_difference": diff}),
            ));
        }
    }
    let base = Machine::from_module(module.clone()).map_err(|e| ("C28:from-module".to_string(), format!("{e}"), json!({})))?;
    let mut out = Vec::new();
    type Rt = fn(&Module) -> Result<Module, String>;
    let forms: [(&'static str, Rt, bool); 3] =
        [("cbor", cbor_roundtrip, true), ("rkyv", rkyv_roundtrip, true), ("postcard", postcard_roundtrip, false)];
    for (name, f, required) in forms {
        match vrt::catch_any(|| f(module)) {
            Ok(Ok(m2)) => {
                if m2 != *module {
                    return Err((format!("C28:{name}:module-differs"), format!("module decoded from {name} differs from the original"), json!({})));
                }
                let mach = Machine::from_module(m2).map_err(|e| (format!("C28:{name}:from-module"), format!("{e}"), json!({})))?;
                if mach != base {
                    return Err((format!("C28:{name}:machine-differs"), format!("machine loaded from the {name} form differs"), json!({})));
                }
                out.push((name, mach));
            }
            Ok(Err(e)) => {
                if required {
                    return Err((format!("C28:{name}:roundtrip-failed"), format!("{name} round trip failed: {e}"), json!({})));
                }
            }
            Err(p) => {
                return Err((format!("C28:{name}:panicked"), format!("{name} round trip panicked: {p}"), json!({})));
            }
        }
    }
    Ok(out)
}

fn run_batch(cx: &Ctxt, progs: &[Prog], out: &mut vrt::Out, stats: &mut Stats) {
    if progs.is_empty() {
        return;
    }
    let text = document(cx, progs);
    let t = Instant::now();
    let fe = front_end(&text, &cx.schemas);
    stats.front_ms += t.elapsed().as_millis() as u64;
    match fe {
        Front::Ok(module) => {
            let machine = match Machine::from_module(module.clone()) {
                Ok(m) => m,
                Err(e) => {
                    for p in progs {
                        out.fail(p.i, -1, &format!("{}:from-module", cx.prop), &format!("{e}"), json!({}));
                    }
                    return;
                }
            };
            let mut extra: Vec<(&'static str, Machine)> = Vec::new();
            let mut doc_fail = None;
            if cx.prop == "C28" {
                match c28_document(cx, &text, &module) {
                    Ok(ms) => extra = ms,
                    Err(f) => doc_fail = Some(f),
                }
            }
            let t = Instant::now();
            for (k, p) in progs.iter().enumerate() {
                if let Some((key, msg, obs)) = &doc_fail {
                    if progs.len() == 1 || k == 0 {
                        let mut o = obs.clone();
                        o["document_functions"] = json!(progs.len());
                        o["function"] = json!(function_text(p));
                        out.fail(p.i, -1, key, msg, o);
                        continue;
                    }
                }
                let (mut ok, mut key, mut msg, mut obs) = judge(cx, &machine, p, "");
                if ok {
                    for (name, m2) in &extra {
                        let (ok2, key2, msg2, obs2) = judge(cx, m2, p, &format!("{name}:"));
                        if !ok2 {
                            (ok, key, msg, obs) = (false, key2, msg2, obs2);
                            break;
                        }
                    }
                }
                stats.ran += 1;
                if ok {
                    obs["forms"] = json!(extra.iter().map(|x| x.0).collect::<Vec<_>>());
                    out.ok(p.i, obs);
                } else {
                    out.fail(p.i, -1, &key, &msg, obs);
                }
            }
            stats.run_ms += t.elapsed().as_millis() as u64;
        }
        Front::Parse(m) | Front::Compile(m) | Front::Panic(m) if progs.len() == 1 => {
            let kind = match front_end(&text, &cx.schemas) {
                Front::Parse(_) => "rejected_parse",
                Front::Compile(_) => "rejected_compile",
                Front::Panic(_) => "front_end_panic",
                Front::Ok(_) => "flaky",
            };
            stats.rejected += 1;
            // a rejected program is never an alarm for these properties (C27 owns front-end panics)
            out.emit(json!({"i": progs[0].i, "ok": true, "step": -1,
                            "obs": {"status": kind, "err": m, "function": function_text(&progs[0])}}));
        }
        _ => {
            // some program of the batch is rejected: split
            let mid = progs.len() / 2;
            run_batch(cx, &progs[..mid], out, stats);
            run_batch(cx, &progs[mid..], out, stats);
        }
    }
}

#[derive(Default)]
struct Stats {
    ran: usize,
    rejected: usize,
    front_ms: u64,
    run_ms: u64,
}

pub fn run(args: &Args) {
    let items = args.read_input();
    let prop = args.opt_str("prop", "C22");
    let batch = args.opt_u64("batch", 200) as usize;
    if args.opt_str("parens", "full") == "min" {
        render::MIN_PARENS.store(true, std::sync::atomic::Ordering::Relaxed);
    }
    let mut out = args.out();
    let mut pre_json: Option<Json> = None;
    for it in &items {
        if let Some(p) = it.get("prelude") {
            pre_json = Some(p.clone());
            break;
        }
    }
    let pre = Prelude::new(pre_json.unwrap_or_else(|| die("no prelude in the input")));
    let (schema, arity) = ffi_schema(&pre);
    let pre_text = pre.render();
    let ffi_names = pre.ffi_names();
    let cx = Ctxt { prop, pre, pre_text, schemas: vec![schema], arity, ffi_names };
    if args.opt_bool("print") {
        let progs: Vec<Prog> = items
            .iter()
            .enumerate()
            .filter(|(_, it)| it.get("body").is_some())
            .map(|(i, item)| Prog { i, item, name: format!("f{i}") })
            .collect();
        println!("{}", document(&cx, &progs));
        return;
    }
    let mut stats = Stats::default();
    let mut pending: Vec<Prog> = Vec::new();
    for (i, item) in items.iter().enumerate() {
        if item.get("body").is_none() {
            // header item carrying only the prelude
            out.emit(json!({"i": i, "ok": true, "step": -1, "obs": {"status": "prelude"}}));
            continue;
        }
        pending.push(Prog { i, item, name: format!("f{i}") });
        if pending.len() >= batch {
            run_batch(&cx, &pending, &mut out, &mut stats);
            pending.clear();
        }
    }
    run_batch(&cx, &pending, &mut out, &mut stats);
    eprintln!(
        "vh-vm run: {} ran, {} rejected, front end {} ms, vm {} ms",
        stats.ran, stats.rejected, stats.front_ms, stats.run_ms
    );
    out.finish();
}
