//! Rendering of `PolicyLang.tla` syntax trees (JSON) to policy source text, and conversion of the
//! spec's value encoding to VM values.
//!
//! A node is `[op, payload, [kids...]]` (see PolicyLang.tla section 4).  Every non-atomic
//! sub-expression is parenthesised, so the concrete text fixes the tree shape the spec meant.
use std::{collections::BTreeMap, fmt::Write as _, str::FromStr as _};

use aranya_policy_vm::{Identifier, Struct, Text, Value};
use vrt::{die, Value as Json};

pub fn ident(s: &str) -> Identifier {
    Identifier::from_str(s).unwrap_or_else(|_| die(&format!("bad identifier {s:?}")))
}

fn arr(j: &Json) -> &Vec<Json> {
    j.as_array().unwrap_or_else(|| die(&format!("expected array: {j}")))
}
fn st(j: &Json) -> &str {
    j.as_str().unwrap_or_else(|| die(&format!("expected string: {j}")))
}

/// The prelude the spec emitted (enum/struct definitions, helper functions, foreign functions).
pub struct Prelude {
    pub json: Json,
    pub enums: BTreeMap<String, Vec<String>>,
}

impl Prelude {
    pub fn new(json: Json) -> Self {
        let mut enums = BTreeMap::new();
        if let Some(o) = json.get("enums").and_then(Json::as_object) {
            for (k, v) in o {
                enums.insert(k.clone(), arr(v).iter().map(|x| st(x).to_string()).collect());
            }
        }
        Prelude { json, enums }
    }

    pub fn ffi_names(&self) -> Vec<String> {
        self.json
            .get("ffi_order")
            .map(|a| arr(a).iter().map(|x| st(x).to_string()).collect())
            .unwrap_or_default()
    }

    /// Source text of the definitions every document starts with.
    pub fn render(&self) -> String {
        let mut s = String::new();
        if !self.ffi_names().is_empty() {
            s.push_str("use vt\n");
        }
        for (name, vars) in &self.enums {
            let _ = writeln!(s, "enum {name} {{ {} }}", vars.join(", "));
        }
        let structs = &self.json["structs"];
        for sn in arr(&self.json["struct_order"]) {
            let sn = st(sn);
            let fields: Vec<String> = arr(&structs[sn])
                .iter()
                .map(|f| format!("{} {}", st(&arr(f)[0]), render_type(&arr(f)[1])))
                .collect();
            let _ = writeln!(s, "struct {sn} {{ {} }}", fields.join(", "));
        }
        let funcs = &self.json["funcs"];
        for f in arr(&self.json["func_order"]) {
            let f = st(f);
            let def = &funcs[f];
            s.push_str(&render_function(f, &def["params"], &def["ret"], &def["body"]));
        }
        s
    }

    /// Spec value -> VM value.
    pub fn value(&self, v: &Json) -> Value {
        let a = arr(v);
        match st(&a[0]) {
            "int" => Value::Int(int_of(a)),
            "bool" => Value::Bool(a[1].as_bool().unwrap_or_else(|| die("bad bool"))),
            "str" => Value::String(
                Text::from_str(st(&a[1])).unwrap_or_else(|_| die("bad text")),
            ),
            "id" => {
                let mut b = [0u8; 32];
                b[0] = a[1].as_u64().unwrap_or_else(|| die("bad id")) as u8;
                b[31] = 0x5a;
                Value::Id(b.into())
            }
            "enum" => {
                let e = st(&a[1]);
                let idx = self
                    .enums
                    .get(e)
                    .and_then(|vs| vs.iter().position(|x| x == st(&a[2])))
                    .unwrap_or_else(|| die(&format!("unknown enum value {v}")));
                Value::Enum(ident(e), idx as i64)
            }
            "none" => Value::Option(None),
            "some" => Value::Option(Some(Box::new(self.value(&a[1])))),
            "ok" => Value::Result(Ok(Box::new(self.value(&a[1])))),
            "err" => Value::Result(Err(Box::new(self.value(&a[1])))),
            "struct" => {
                let mut fields = BTreeMap::new();
                if let Some(o) = a[2].as_object() {
                    for (k, x) in o {
                        fields.insert(ident(k), self.value(x));
                    }
                } else if !arr(&a[2]).is_empty() {
                    die(&format!("bad struct fields {v}"));
                }
                Value::Struct(Struct { name: ident(st(&a[1])), fields })
            }
            t => die(&format!("unknown value tag {t}")),
        }
    }
}

/// `["int", a, b]` = a * 2^63 + b
pub fn int_of(a: &[Json]) -> i64 {
    let hi = a[1].as_i64().unwrap_or_else(|| die("bad int")) as i128;
    let lo = a[2].as_i64().unwrap_or_else(|| die("bad int")) as i128;
    let n = hi * (1i128 << 63) + lo;
    i64::try_from(n).unwrap_or_else(|_| die(&format!("int out of range: {n}")))
}

pub fn render_type(t: &Json) -> String {
    let a = arr(t);
    match st(&a[0]) {
        "int" => "int".into(),
        "bool" => "bool".into(),
        "string" => "string".into(),
        "id" => "id".into(),
        "enum" => format!("enum {}", st(&a[1])),
        "struct" => format!("struct {}", st(&a[1])),
        "opt" => format!("option[{}]", render_type(&a[1])),
        "res" => format!("result[{}, {}]", render_type(&a[1]), render_type(&a[2])),
        x => die(&format!("unknown type {x}")),
    }
}

/// A literal value as an expression (also used for match patterns).
pub fn render_value(v: &Json) -> String {
    let a = arr(v);
    match st(&a[0]) {
        "int" => int_of(a).to_string(),
        "bool" => a[1].as_bool().unwrap_or(false).to_string(),
        "str" => format!("{:?}", st(&a[1])),
        "enum" => format!("{}::{}", st(&a[1]), st(&a[2])),
        "none" => "None".into(),
        "some" => format!("Some({})", render_value(&a[1])),
        "ok" => format!("Ok({})", render_value(&a[1])),
        "err" => format!("Err({})", render_value(&a[1])),
        "struct" => {
            let mut fs = Vec::new();
            if let Some(o) = a[2].as_object() {
                for (k, x) in o {
                    fs.push(format!("{k}: {}", render_value(x)));
                }
            }
            format!("{} {{ {} }}", st(&a[1]), fs.join(", "))
        }
        x => die(&format!("value {x} has no literal syntax")),
    }
}

fn render_pattern(p: &Json) -> String {
    let a = arr(p);
    match st(&a[0]) {
        "pv" => render_value(&a[1]),
        "pb" => {
            let k = match st(&a[1]) {
                "some" => "Some",
                "ok" => "Ok",
                "err" => "Err",
                x => die(&format!("bad binding kind {x}")),
            };
            format!("{k}({})", st(&a[2]))
        }
        x => die(&format!("bad pattern {x}")),
    }
}

fn render_arm_pattern(ap: &Json) -> String {
    let a = arr(ap);
    match st(&a[0]) {
        "default" => "_".into(),
        "pats" => arr(&a[1]).iter().map(render_pattern).collect::<Vec<_>>().join(" | "),
        x => die(&format!("bad arm pattern {x}")),
    }
}

use std::sync::atomic::{AtomicBool, Ordering};

/// `true`: write only the parentheses the documented operator precedence requires
/// (`--opt parens=min`), so that the parser's precedence/associativity table is part of the
/// conformance; `false`: parenthesise every non-atomic operand.
pub static MIN_PARENS: AtomicBool = AtomicBool::new(false);

fn atomic(op: &str) -> bool {
    matches!(op, "lit" | "var" | "call" | "ffi" | "todo" | "fail" | "struct" | "some" | "ok" | "err")
}

/// Binding strength as the language documents it (loosest first): `or` (right associative);
/// `&&` `||`; `==` `!=`; `<` `>` `<=` `>=` and postfix `is`; prefix `!`; postfix `substruct`/`as`;
/// postfix `.field`; atoms (literals, calls, `if`, `match`, blocks).
fn prec(op: &str) -> u8 {
    match op {
        "return" => 0,
        "coalesce" => 1,
        "and" | "or" => 2,
        "eq" | "ne" => 3,
        "lt" | "gt" | "le" | "ge" | "is" => 4,
        "not" => 6,
        "substruct" | "cast" => 7,
        "dot" => 8,
        _ => 9,
    }
}

/// An operand that must bind at least as tightly as `min`.
fn operand(e: &Json, min: u8) -> String {
    let op = st(&arr(e)[0]);
    if MIN_PARENS.load(Ordering::Relaxed) {
        if prec(op) >= min { render_expr(e) } else { format!("({})", render_expr(e)) }
    } else if atomic(op) {
        render_expr(e)
    } else {
        format!("({})", render_expr(e))
    }
}

/// An expression in a position delimited by the grammar (parenthesised unless atomic, or in
/// minimal mode unless it is a `return`, which swallows everything to its right).
fn sub(e: &Json) -> String {
    operand(e, 1)
}

pub fn render_expr(e: &Json) -> String {
    let n = arr(e);
    let (op, a, ks) = (st(&n[0]), &n[1], arr(&n[2]));
    // left associative: the right operand must bind tighter
    let bin = |sym: &str| {
        let p = prec(op);
        format!("{} {sym} {}", operand(&ks[0], p), operand(&ks[1], p + 1))
    };
    match op {
        "lit" => render_value(a),
        "var" => st(a).to_string(),
        "some" => format!("Some({})", render_expr(&ks[0])),
        "ok" => format!("Ok({})", render_expr(&ks[0])),
        "err" => format!("Err({})", render_expr(&ks[0])),
        "not" => format!("!{}", operand(&ks[0], 6)),
        "is" => format!("{} is {}", operand(&ks[0], 5), if a.as_bool() == Some(true) { "Some" } else { "None" }),
        "and" => bin("&&"),
        "or" => bin("||"),
        "eq" => bin("=="),
        "ne" => bin("!="),
        "lt" => bin("<"),
        "gt" => bin(">"),
        "le" => bin("<="),
        "ge" => bin(">="),
        // right associative
        "coalesce" => format!("{} or {}", operand(&ks[0], 2), operand(&ks[1], 1)),
        "call" => format!("{}({})", st(a), ks.iter().map(render_expr).collect::<Vec<_>>().join(", ")),
        "ffi" => format!("vt::{}({})", st(a), ks.iter().map(render_expr).collect::<Vec<_>>().join(", ")),
        "if" => format!(
            "if {} {{ : {} }} else {{ : {} }}",
            sub(&ks[0]),
            render_expr(&ks[1]),
            render_expr(&ks[2])
        ),
        "block" => format!("{{ {} : {} }}", render_stmts(arr(&arr(&ks[0])[2]), 0), render_expr(&ks[1])),
        "match" => {
            let pats = arr(a);
            let mut s = format!("match {} {{ ", sub(&ks[0]));
            for (i, ap) in pats.iter().enumerate() {
                let _ = write!(s, "{} => {} ", render_arm_pattern(ap), sub(&ks[i + 1]));
            }
            s.push('}');
            s
        }
        "dot" => format!("{}.{}", operand(&ks[0], 8), st(a)),
        "substruct" => format!("{} substruct {}", operand(&ks[0], 7), st(a)),
        "cast" => format!("{} as {}", operand(&ks[0], 7), st(a)),
        "struct" => {
            let p = arr(a);
            let names = arr(&p[1]);
            let mut items: Vec<String> =
                names.iter().zip(ks).map(|(f, e)| format!("{}: {}", st(f), render_expr(e))).collect();
            for src in arr(&p[2]) {
                items.push(format!("...{}", st(src)));
            }
            format!("{} {{ {} }}", st(&p[0]), items.join(", "))
        }
        "todo" => "todo()".into(),
        "fail" => "test_fail(\"t\")".into(),
        "return" => format!("return {}", render_expr(&ks[0])),
        x => die(&format!("unknown expression op {x}")),
    }
}

fn pad(n: usize) -> String {
    "    ".repeat(n)
}

/// A statement list, one statement per line (`ind` > 0) or on one line (`ind` = 0).
pub fn render_stmts(ss: &[Json], ind: usize) -> String {
    let sep = if ind == 0 { " ".to_string() } else { format!("\n{}", pad(ind)) };
    ss.iter().map(|s| render_stmt(s, ind)).collect::<Vec<_>>().join(&sep)
}

fn block(ss: &Json, ind: usize) -> String {
    let inner = arr(&arr(ss)[2]);
    if inner.is_empty() {
        "{ }".into()
    } else if ind == 0 {
        format!("{{ {} }}", render_stmts(inner, 0))
    } else {
        format!("{{\n{}{}\n{}}}", pad(ind + 1), render_stmts(inner, ind + 1), pad(ind))
    }
}

fn render_stmt(s: &Json, ind: usize) -> String {
    let n = arr(s);
    let (op, a, ks) = (st(&n[0]), &n[1], arr(&n[2]));
    match op {
        "let" => format!("let {} = {}", st(a), render_expr(&ks[0])),
        "check" => format!("check {} else {}", sub(&ks[0]), render_expr(&ks[1])),
        "ret" => format!("return {}", render_expr(&ks[0])),
        "dassert" => format!("debug_assert({})", render_expr(&ks[0])),
        "ifs" => {
            let has_else = a.as_bool() == Some(true);
            let mut out = String::new();
            let mut j = 0;
            while j < ks.len() {
                if j + 1 == ks.len() && has_else {
                    let _ = write!(out, " else {}", block(&ks[j], ind));
                    j += 1;
                } else {
                    let kw = if j == 0 { "if" } else { " else if" };
                    // `if q { }` would be read as the struct literal `q { }`: parenthesise a bare
                    // identifier (also at the end of an unparenthesised condition) before an empty block
                    let empty = arr(&arr(&ks[j + 1])[2]).is_empty();
                    let cond = if empty && st(&arr(&ks[j])[0]) != "lit" {
                        format!("({})", render_expr(&ks[j]))
                    } else {
                        sub(&ks[j])
                    };
                    let _ = write!(out, "{kw} {cond} {}", block(&ks[j + 1], ind));
                    j += 2;
                }
            }
            out
        }
        "matchs" => {
            let pats = arr(a);
            let mut out = format!("match {} {{", sub(&ks[0]));
            for (i, ap) in pats.iter().enumerate() {
                if ind == 0 {
                    let _ = write!(out, " {} => {}", render_arm_pattern(ap), block(&ks[i + 1], 0));
                } else {
                    let _ = write!(
                        out,
                        "\n{}{} => {}",
                        pad(ind + 1),
                        render_arm_pattern(ap),
                        block(&ks[i + 1], ind + 1)
                    );
                }
            }
            if ind == 0 {
                out.push_str(" }");
            } else {
                let _ = write!(out, "\n{}}}", pad(ind));
            }
            out
        }
        x => die(&format!("unknown statement op {x}")),
    }
}

/// Replace the identifier `from` (whole words only) by `to`.
pub fn rename_ident(text: &str, from: &str, to: &str) -> String {
    let is_id = |c: char| c.is_ascii_alphanumeric() || c == '_';
    let mut out = String::new();
    let mut rest = text;
    while let Some(pos) = rest.find(from) {
        let before_ok = rest[..pos].chars().next_back().is_none_or(|c| !is_id(c));
        let after_ok = rest[pos + from.len()..].chars().next().is_none_or(|c| !is_id(c));
        out.push_str(&rest[..pos]);
        out.push_str(if before_ok && after_ok { to } else { from });
        rest = &rest[pos + from.len()..];
    }
    out.push_str(rest);
    out
}

/// A function definition; leading `glet` statements become global `let`s in front of it, their
/// names made unique per function (`g0` -> `g0_<function>`).
pub fn render_function(name: &str, params: &Json, ret: &Json, body: &Json) -> String {
    let ps: Vec<String> = arr(params)
        .iter()
        .map(|p| format!("{} {}", st(&arr(p)[0]), render_type(&arr(p)[1])))
        .collect();
    let stmts = arr(body);
    let nglob = stmts.iter().take_while(|s| st(&arr(s)[0]) == "glet").count();
    let mut text = String::new();
    let mut globals = Vec::new();
    for g in &stmts[..nglob] {
        let n = arr(g);
        let gname = st(&n[1]).to_string();
        let _ = writeln!(text, "let {gname} = {}", render_expr(&arr(&n[2])[0]));
        globals.push(gname);
    }
    let _ = write!(
        text,
        "function {name}({}) {} {{\n    {}\n}}\n",
        ps.join(", "),
        render_type(ret),
        render_stmts(&stmts[nglob..], 1)
    );
    for g in globals {
        text = rename_ident(&text, &g, &format!("{g}_{name}"));
    }
    text
}

/// The outermost operator of a function body, for failure fingerprints.
pub fn root_op(body: &Json) -> String {
    let ss = arr(body);
    match ss.first() {
        None => "empty".into(),
        Some(s) => {
            let n = arr(s);
            let op = st(&n[0]);
            if op == "ret" && ss.len() == 1 {
                let e = arr(&arr(&n[2])[0]);
                let eop = st(&e[0]);
                if eop == "call" || eop == "ffi" {
                    format!("{eop}:{}", st(&e[1]))
                } else {
                    eop.to_string()
                }
            } else {
                format!("stmt:{op}")
            }
        }
    }
}
