use std::cell::RefCell;

use aranya_policy_ast::Version;
use aranya_policy_compiler::Compiler;
use aranya_policy_lang::lang::parse_policy_str;
use aranya_policy_vm::{
    ActionContext, CommandContext, FactKey, FactKeyList, FactValue, FactValueList, Identifier,
    KVPair, Label, LabelType, Machine, MachineError, MachineErrorType, MachineIO, MachineIOError,
    MachineStack, Stack, Value, ffi, ident,
};

pub struct Io {
    pub log: RefCell<Vec<(usize, Value)>>,
}

pub const SCHEMA: ffi::ModuleSchema<'static> = ffi::ModuleSchema {
    name: ident!("vt"),
    functions: &[ffi::Func {
        name: ident!("li"),
        args: &[ffi::Arg { name: ident!("n"), vtype: ffi::Type::Int }],
        return_type: ffi::Type::Int,
    }],
    structs: &[],
    enums: &[],
};

impl MachineIO<MachineStack> for Io {
    type QueryIterator = std::vec::IntoIter<Result<(FactKeyList, FactValueList), MachineIOError>>;
    fn fact_insert(&mut self, _: Identifier, _: impl IntoIterator<Item = FactKey>, _: impl IntoIterator<Item = FactValue>) -> Result<(), MachineIOError> { Err(MachineIOError::Internal) }
    fn fact_delete(&mut self, _: Identifier, _: impl IntoIterator<Item = FactKey>) -> Result<(), MachineIOError> { Err(MachineIOError::Internal) }
    fn fact_query(&self, _: Identifier, _: impl IntoIterator<Item = FactKey>) -> Result<Self::QueryIterator, MachineIOError> { Ok(vec![].into_iter()) }
    fn effect(&mut self, _: Identifier, _: impl IntoIterator<Item = KVPair>, _: aranya_crypto::policy::CmdId, _: bool) {}
    fn call(&self, module: usize, procedure: usize, stack: &mut MachineStack, _ctx: &CommandContext) -> Result<(), MachineError> {
        if module != 0 { return Err(MachineError::new(MachineErrorType::FfiModuleNotDefined(module))); }
        let v = stack.pop_value().map_err(MachineError::new)?;
        self.log.borrow_mut().push((procedure, v.clone()));
        stack.push_value(v).map_err(MachineError::new)?;
        Ok(())
    }
}

pub fn run(_args: &vrt::Args) {
    let text = std::fs::read_to_string(_args.input.as_deref().unwrap()).unwrap();
    let t0 = std::time::Instant::now();
    let policy = match parse_policy_str(&text, Version::V2) { Ok(p) => p, Err(e) => { println!("PARSE ERR: {e}"); return; } };
    let t1 = std::time::Instant::now();
    let schemas = [SCHEMA];
    let module = match Compiler::new(&policy).ffi_modules(&schemas).debug(true).compile() { Ok(m) => m, Err(e) => { println!("COMPILE ERR: {e}"); return; } };
    let t2 = std::time::Instant::now();
    let machine = Machine::from_module(module).unwrap();
    println!("parse {:?} compile {:?}", t1 - t0, t2 - t1);
    if _args.opt_bool("dump") { println!("{machine}"); }
    for (label, _) in machine.labels.iter().filter(|(l, _)| l.ltype == LabelType::Function) {
        let mut io = Io { log: RefCell::new(vec![]) };
        let ctx = CommandContext::Action(ActionContext { name: ident!("f"), head_id: Default::default() });
        let mut rs = machine.create_run_state(&mut io, ctx);
        rs.set_pc_by_label(&Label::new(label.name.clone(), LabelType::Function)).unwrap();
        rs.stack.push_value(Value::Int(i64::MAX)).unwrap();
        rs.stack.push_value(Value::Int(-1)).unwrap();
        let r = rs.run();
        let depth = rs.stack.len();
        let v = rs.consume_return();
        println!("{}: {:?} stack={} top={:?} log={:?}", label.name, r.map_err(|e| e.err_type), depth, v, io.log.borrow());
    }
}
