//! `vh-vmpolicy` — S2I replay of PolicyFacts / PolicyStmts behaviours through the real
//! parser -> compiler -> VM -> `VmPolicy` + `VmPolicyIO` on a runtime perspective (C29, C30).
mod facts;
mod probe;
mod rt;
mod stmts;

fn main() {
    let args = vrt::Args::parse();
    match args.sub.as_str() {
        "probe" => probe::run(&args),
        "facts" => facts::run(&args),
        "stmts" => stmts::run(&args),
        s => vrt::die(&format!("unknown subcommand {s}")),
    }
}
