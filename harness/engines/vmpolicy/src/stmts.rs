//! S2I replay of `PolicyStmts.tla` programs (C30).
//!
//! case: `{"policy": [stmt..], "recall": [stmt..], "exit": "Normal|Check|Panic", "rec": bool,
//!         "io": [{"io": "insert|delete|effect", ..}], "facts": [[k, v]..]}`
//! statements as in the spec: `{"t": "let"}`, `{"t": "call", "c": b}`, `{"t": "check", "c": b,
//! "e": "panic|recall"}`, `{"t": "recall"}`, `{"t": "dassert", "c": b}`, `{"t": "finish", "ops": [..]}`,
//! `{"t": "if3", "c": b, "c2": b, "arms": [[..],[..],[..]]}`, `{"t": "stray", "op": {..}, "via": "inline|function"}`,
//! finish ops: emit/create/delete/update/ff and `{"o": "emitx|createx|ffx", "x": {"k": kind, "c": b}}`
//! (a field expression of the given ExprKind behind an earlier write; see FinishExprKinds in the spec).
//! `{"t": "if", "c": b, "a": [..], "b": [..], "els": b}`, `{"t": "match", "n": k, "arms": [[..],[..],[..]]}`.
//!
//! Every case becomes one command `P<i>` (policy block + `recall r()` block) plus an action that
//! publishes it; the run-time value of every condition is a command field of its own
//! (`this.c<j>`, `this.n<j>`).  Cases are batched into policy documents and compiled by the real
//! compiler; a document that is rejected is bisected so that rejected programs are skipped and
//! counted individually.  Every case then runs `VmPolicy::call_action` on a fresh perspective on
//! top of a committed segment holding `F[1]=>{1}`; the perspective is wrapped in a spy that
//! logs every `insert` / `delete` (the storage side of `MachineIO::fact_insert/fact_delete`),
//! the sink logs every effect with its `recalled` flag.
use aranya_policy_vm::Value;
use aranya_runtime::{
    storage::{Keys, Query, QueryMut},
    Address, CmdId, Command, FactPerspective, Perspective, PolicyId, Prior, StorageError,
};
use vrt::{json, Args, Value as Jv, J};

use crate::rt::{self, Outcome, Persp, RecSink, Rt};

// ------------------------------------------------------------------------------------------
// Spy perspective

pub struct Spy<'a> {
    inner: &'a mut Persp,
    pub log: Vec<(String, Vec<Box<[u8]>>, Option<Box<[u8]>>)>,
}

impl Query for Spy<'_> {
    fn query(&self, name: &str, keys: &[Box<[u8]>]) -> Result<Option<Box<[u8]>>, StorageError> {
        self.inner.query(name, keys)
    }
    type QueryIterator = <Persp as Query>::QueryIterator;
    fn query_prefix(&self, name: &str, prefix: &[Box<[u8]>]) -> Result<Self::QueryIterator, StorageError> {
        self.inner.query_prefix(name, prefix)
    }
}

impl QueryMut for Spy<'_> {
    fn insert(&mut self, name: String, keys: Keys, value: Box<[u8]>) -> Result<(), StorageError> {
        self.log.push((name.clone(), keys.iter().cloned().collect(), Some(value.clone())));
        self.inner.insert(name, keys, value)
    }
    fn delete(&mut self, name: String, keys: Keys) -> Result<(), StorageError> {
        self.log.push((name.clone(), keys.iter().cloned().collect(), None));
        self.inner.delete(name, keys)
    }
}

impl FactPerspective for Spy<'_> {}

impl Perspective for Spy<'_> {
    fn policy(&self) -> PolicyId {
        self.inner.policy()
    }
    fn add_command(&mut self, command: &impl Command) -> Result<usize, StorageError> {
        self.inner.add_command(command)
    }
    fn includes(&self, id: CmdId) -> bool {
        self.inner.includes(id)
    }
    fn head_address(&self) -> Result<Prior<Address>, buggy::Bug> {
        self.inner.head_address()
    }
}

// ------------------------------------------------------------------------------------------
// Rendering

struct Ren {
    fields: Vec<(String, String, Value)>, // name, type, run-time value
    lets: usize,
    extra: String, // helper functions of this case (misplaced statements inside a pure function)
    idx: usize,
    /// control rendering: finish-field expressions are hoisted into a `let` in front of the
    /// finish block (where every expression kind is legal) and the field uses the variable
    hoist: bool,
    pre: Vec<String>,
}

impl Ren {
    fn cond(&mut self, v: bool) -> String {
        let n = format!("c{}", self.fields.len() + 1);
        self.fields.push((n.clone(), "bool".into(), Value::Bool(v)));
        format!("this.{n}")
    }
    fn sel(&mut self, v: i64) -> String {
        let n = format!("n{}", self.fields.len() + 1);
        self.fields.push((n.clone(), "int".into(), Value::Int(v)));
        format!("this.{n}")
    }
    /// Text of a finish-field expression of the given kind (PolicyStmts.tla FinishExprKinds);
    /// `c` / `one` are the names of a bool holding the condition value and of an int holding 1.
    fn xexpr(kind: &str, c: &str, one: &str) -> (String, bool) {
        let (e, is_bool) = match kind {
            "int" => ("6".to_string(), false),
            "dot" => (one.to_string(), false),
            "bool" => ("true".to_string(), true),
            "call" => (format!("pos({c})"), false),
            "builtin" => ("saturating_add(5, 1)".to_string(), false),
            "todo" => ("todo()".to_string(), false),
            "ifexpr" => (format!("if {c} {{ : 6 }} else {{ : 7 }}"), false),
            "match" => (format!("match {c} {{ true => 6 false => 7 }}"), false),
            "coalesce" => ("add(5, 1) or 0".to_string(), false),
            "count" => ("count_up_to 1 F[k: 1]".to_string(), false),
            "block" => ("{ let z = 6 : z }".to_string(), false),
            "and" => (format!("{c} && true"), true),
            "not" => (format!("!{c}"), true),
            "eq" => (format!("{one} == 1"), true),
            "gt" => (format!("{one} > 0"), true),
            "is" => ("Some(1) is Some".to_string(), true),
            k => vrt::die(&format!("unknown finish expression kind {k}")),
        };
        (e, is_bool)
    }
    fn emit_of(e: &str, is_bool: bool) -> String {
        if is_bool { format!("emit EB {{ b: {e} }} ") } else { format!("emit E {{ n: {e} }} ") }
    }
    fn ops(&mut self, ops: &[Jv]) -> String {
        let mut s = String::new();
        for o in ops {
            s += &match o.s("o") {
                "emit" => format!("emit E {{ n: {} }} ", o.i("n")),
                "create" => format!("create F[k: {}]=>{{v: {}}} ", o.i("k"), o.i("v")),
                "delete" => format!("delete F[k: {}] ", o.i("k")),
                "update" => format!("update F[k: {}]=>{{v: {}}} to {{v: {}}} ", o.i("k"), o.i("from"), o.i("to")),
                "ff" => "ff() ".to_string(),
                "emitx" | "createx" | "ffx" => {
                    let x = o.g("x");
                    let c = self.cond(x.b("c"));
                    let (mut e, is_bool) = Self::xexpr(x.s("k"), &c, "this.one");
                    if self.hoist {
                        self.lets += 1;
                        let v = format!("xv{}", self.lets);
                        self.pre.push(format!("let {v} = {e}"));
                        e = v;
                    }
                    if o.s("o") == "ffx" {
                        // a finish function of this case: an earlier write, then the expression
                        self.lets += 1;
                        let f = format!("fx{}_{}", self.idx, self.lets);
                        if self.hoist {
                            self.extra += &format!(
                                "finish function {f}(v {}) {{\n    create F[k: 3]=>{{v: 3}}\n    {}\n}}\n",
                                if is_bool { "bool" } else { "int" },
                                Self::emit_of("v", is_bool)
                            );
                            format!("{f}({e}) ")
                        } else {
                            let (fe, _) = Self::xexpr(x.s("k"), "b", "one");
                            self.extra += &format!(
                                "finish function {f}(b bool, one int) {{\n    create F[k: 3]=>{{v: 3}}\n    {}\n}}\n",
                                Self::emit_of(&fe, is_bool)
                            );
                            format!("{f}({c}, this.one) ")
                        }
                    } else if o.s("o") == "emitx" {
                        Self::emit_of(&e, is_bool)
                    } else {
                        format!("create F[k: 4]=>{{v: {e}}} ")
                    }
                }
                x => vrt::die(&format!("unknown op {x}")),
            };
        }
        s
    }
    fn block(&mut self, b: &[Jv], ind: usize) -> String {
        let pad = " ".repeat(ind);
        let mut s = String::new();
        for st in b {
            match st.s("t") {
                "let" => {
                    self.lets += 1;
                    s += &format!("{pad}let x{} = 7\n", self.lets);
                }
                "call" => {
                    self.lets += 1;
                    let c = self.cond(st.b("c"));
                    s += &format!("{pad}let x{} = chk({c})\n", self.lets);
                }
                "check" => {
                    let c = self.cond(st.b("c"));
                    let e = if st.s("e") == "panic" { "test_fail(\"check\")".to_string() } else { "recall r(7, this.tag)".to_string() };
                    s += &format!("{pad}check {c} else {e}\n");
                }
                "recall" => s += &format!("{pad}recall r(7, this.tag)\n"),
                "stray" => {
                    // a finish-only statement outside a finish block (expected: rejected)
                    let op = self.ops(std::slice::from_ref(st.g("op")));
                    if st.s("via") == "inline" {
                        s += &format!("{pad}{op}\n");
                    } else {
                        self.lets += 1;
                        let f = format!("sf{}_{}", self.idx, self.lets);
                        self.extra += &format!("function {f}() int {{\n    {op}\n    return 1\n}}\n");
                        s += &format!("{pad}let x{} = {f}()\n", self.lets);
                    }
                }
                "finish" => {
                    let o = self.ops(st.a("ops"));
                    for l in self.pre.drain(..) {
                        s += &format!("{pad}{l}\n");
                    }
                    s += &format!("{pad}finish {{ {o}}}\n");
                }
                "if" => {
                    let c = self.cond(st.b("c"));
                    s += &format!("{pad}if {c} {{\n{}{pad}}}", self.block(st.a("a"), ind + 4));
                    if st.b("els") {
                        s += &format!(" else {{\n{}{pad}}}", self.block(st.a("b"), ind + 4));
                    }
                    s += "\n";
                }
                "dassert" => {
                    let c = self.cond(st.b("c"));
                    s += &format!("{pad}debug_assert({c})\n");
                }
                "if3" => {
                    let c = self.cond(st.b("c"));
                    let arms = st.a("arms");
                    s += &format!("{pad}if {c} {{\n{}{pad}}}", self.block(arms[0].as_array().unwrap(), ind + 4));
                    let c2 = self.cond(st.b("c2"));
                    s += &format!(" else if {c2} {{\n{}{pad}}}", self.block(arms[1].as_array().unwrap(), ind + 4));
                    s += &format!(" else {{\n{}{pad}}}\n", self.block(arms[2].as_array().unwrap(), ind + 4));
                }
                "match" => {
                    let n = self.sel(st.i("n"));
                    let arms = st.a("arms");
                    s += &format!("{pad}match {n} {{\n");
                    for (i, lab) in ["0", "1", "_"].iter().enumerate() {
                        s += &format!("{pad}    {lab} => {{\n{}{pad}    }}\n", self.block(arms[i].as_array().unwrap(), ind + 8));
                    }
                    s += &format!("{pad}}}\n");
                }
                x => vrt::die(&format!("unknown statement {x}")),
            }
        }
        s
    }
}

const SEAL_OPEN: &str = "    seal { return envelope::do_seal(payload) }\n    open { return envelope::do_open(payload, envelope) }\n";

const PRELUDE: &str = r#"---
policy-version: 2
---

```policy
use envelope

fact F[k int]=>{v int}
effect E { n int }
effect EB { b bool }

// 6 for true; for false no return statement is reached: the VM panics
function pos(b bool) int {
    if b {
        return 6
    }
}

function chk(b bool) bool {
    check b else test_fail("chk")
    return true
}

finish function ff() {
    create F[k: 3]=>{v: 3}
    emit E { n: 4 }
}

command Init {
    attributes { init: true }
    fields { nonce int }
    seal { return envelope::do_seal(payload) }
    open { return envelope::do_open(payload, envelope) }
    policy { finish {} }
}
action init() { publish Init { nonce: 0 } }

command Seed {
    attributes { priority: 0 }
    fields { }
    seal { return envelope::do_seal(payload) }
    open { return envelope::do_open(payload, envelope) }
    policy { finish { create F[k: 1]=>{v: 1} } }
}
action seed() { publish Seed { } }

"#;

struct Rendered {
    text: String,
    args: Vec<Value>,
    names: Vec<String>,
}

fn render_case(idx: usize, case: &Jv) -> Rendered {
    render_case_with(idx, case, false)
}

fn render_case_with(idx: usize, case: &Jv, hoist: bool) -> Rendered {
    let mut r = Ren { fields: Vec::new(), lets: 0, extra: String::new(), idx, hoist, pre: Vec::new() };
    let pol = r.block(case.a("policy"), 8);
    let rec = r.block(case.a("recall"), 8);
    // `tag` travels policy -> recall argument; the recall block checks both arguments, so a
    // recall that passes the wrong values (or enters the decoy block `z`) is noticed
    r.fields.push(("tag".into(), "int".into(), Value::Int(40 + (idx % 7) as i64)));
    r.fields.push(("one".into(), "int".into(), Value::Int(1)));
    let tagv = 40 + (idx % 7) as i64;
    let fdef: Vec<String> = r.fields.iter().map(|(n, t, _)| format!("{n} {t}")).collect();
    let fpass: Vec<String> = r.fields.iter().map(|(n, _, _)| format!("{n}: {n}")).collect();
    let text = format!(
        "{}command P{idx} {{\n    attributes {{ priority: 0 }}\n    fields {{ {} }}\n{SEAL_OPEN}    policy {{\n{pol}    }}\n    recall z() {{\n        finish {{ emit E {{ n: 99 }} }}\n    }}\n    recall r(m int, t int) {{\n        check m == 7 else test_fail(\"recall arg 1\")\n        check t == {tagv} else test_fail(\"recall arg 2\")\n        check t == this.tag else test_fail(\"this in recall\")\n{rec}    }}\n}}\naction a{idx}({}) {{ publish P{idx} {{ {} }} }}\n\n",
        r.extra,
        fdef.join(", "),
        fdef.join(", "),
        fpass.join(", ")
    );
    Rendered {
        text,
        names: r.fields.iter().map(|(n, _, _)| n.clone()).collect(),
        args: r.fields.into_iter().map(|(_, _, v)| v).collect(),
    }
}

fn document(parts: &[(usize, &Rendered)]) -> String {
    let mut d = String::from(PRELUDE);
    for (_, r) in parts {
        d += &r.text;
    }
    d += "```\n";
    d
}

// ------------------------------------------------------------------------------------------

fn io_json(name: &str, keys: &[Box<[u8]>], val: &Option<Box<[u8]>>) -> Jv {
    json!({"io": if val.is_some() { "insert" } else { "delete" }, "fact": name,
           "key": keys.iter().map(|k| rt::hex(k)).collect::<Vec<_>>(),
           "value": val.as_ref().map(|v| rt::hex(v))})
}

#[derive(Default)]
struct Stats {
    setup_failed: u64,
    vm_level: u64,
    docs: u64,
    rejected: u64,
    ran: u64,
    recompiles: u64,
}

/// Runs the cases `idxs` (already rendered); recursion = bisection on compile errors.
#[allow(clippy::too_many_arguments)]
fn run_batch(
    force_vm: bool,
    cases: &[Jv],
    rendered: &[Rendered],
    idxs: &[usize],
    out: &mut Vec<(usize, Jv)>,
    stats: &mut Stats,
    rejects: &mut Vec<(usize, String)>,
) {
    if idxs.is_empty() {
        return;
    }
    let parts: Vec<(usize, &Rendered)> = idxs.iter().map(|&i| (i, &rendered[i])).collect();
    let doc = document(&parts);
    stats.docs += 1;
    let module = match rt::compile(&doc) {
        Ok(m) => m,
        Err(e) => {
            if idxs.len() == 1 {
                stats.rejected += 1;
                rejects.push((idxs[0], e.lines().take(6).collect::<Vec<_>>().join(" | ")));
                out.push((idxs[0], json!({"i": idxs[0], "ok": true, "step": -1, "rejected": true})));
                return;
            }
            stats.recompiles += 1;
            let (a, b) = idxs.split_at(idxs.len() / 2);
            run_batch(force_vm, cases, rendered, a, out, stats, rejects);
            run_batch(force_vm, cases, rendered, b, out, stats, rejects);
            return;
        }
    };
    if force_vm {
        run_vm_level(&module, cases, rendered, idxs, out, stats);
        return;
    }
    // Setup through VmPolicy: graph with an Init command, then a committed segment with
    // F[1]=>{1}.  Both are themselves `policy { finish {..} }` commands; if the tree under test
    // cannot even evaluate those (e.g. finish no longer exits), fall back to entering the
    // command policies directly in the VM (same VmPolicyIO, perspective and sink).
    let mut rt_ = match Rt::new(module.clone()) {
        Ok(r) => r,
        Err(e) if e.starts_with("init action") => {
            stats.setup_failed += 1;
            run_vm_level(&module, cases, rendered, idxs, out, stats);
            return;
        }
        Err(e) => vrt::die(&e),
    };
    {
        let mut p = rt_.perspective().unwrap_or_else(|e| vrt::die(&e));
        let mut sink = RecSink::default();
        if rt_.action(&mut p, "seed", vec![], &mut sink) != Outcome::Ok {
            stats.setup_failed += 1;
            run_vm_level(&module, cases, rendered, idxs, out, stats);
            return;
        }
        rt_.commit(p).unwrap_or_else(|e| vrt::die(&e));
    }
    for &i in idxs {
        let case = &cases[i];
        let mut p = rt_.perspective().unwrap_or_else(|e| vrt::die(&e));
        let before = rt::dump_facts(&p, "F").unwrap_or_else(|e| vrt::die(&e));
        let mut sink = RecSink::default();
        let (outcome, log) = {
            let mut spy = Spy { inner: &mut p, log: Vec::new() };
            let act = aranya_runtime::VmAction { name: rt::ident(&format!("a{i}")), args: rendered[i].args.clone().into() };
            let r = vrt::catch_any(|| {
                use aranya_runtime::Policy as _;
                rt_.policy.call_action(act, &mut spy, &mut sink, aranya_runtime::ActionPlacement::OnGraph)
            });
            let o = match r {
                Err(m) => Outcome::RustPanic(m),
                Ok(Ok(())) => Outcome::Ok,
                Ok(Err(aranya_runtime::PolicyError::Rejected)) => Outcome::Rejected,
                Ok(Err(aranya_runtime::PolicyError::Panic)) => Outcome::Panic,
                Ok(Err(aranya_runtime::PolicyError::InternalError)) => Outcome::Internal,
                Ok(Err(e)) => Outcome::Other(format!("{e}")),
            };
            (o, spy.log)
        };
        stats.ran += 1;
        let after = rt::dump_facts(&p, "F").unwrap_or_else(|e| vrt::die(&e));
        out.push((i, decide(i, case, &outcome, &log, &sink, &before, &after)));
    }
}

/// Enters command policies directly in the VM: `Machine::create_run_state` +
/// `RunState::call_command_policy` on the real `VmPolicyIO` over an unrooted linear-storage
/// perspective (what `VmPolicy::evaluate_rule` does, without seal/open/serialisation).
fn run_vm_level(module: &aranya_policy_vm::Module, cases: &[Jv], rendered: &[Rendered], idxs: &[usize], out: &mut Vec<(usize, Jv)>, stats: &mut Stats) {
    use aranya_crypto::{default::DefaultEngine, Rng};
    use aranya_runtime::{storage::linear::testing::MemStorageProvider, vm_policy::testing::TestFfiEnvelope, FfiCallable, StorageProvider};
    let machine = aranya_policy_vm::Machine::from_module(module.clone()).unwrap_or_else(|e| vrt::die(&format!("machine: {e}")));
    let (eng, _) = DefaultEngine::from_entropy(Rng);
    let ffis: Vec<Box<dyn FfiCallable<DefaultEngine<Rng>> + Send + 'static>> =
        vec![Box::from(TestFfiEnvelope { device: aranya_crypto::DeviceId::default() })];
    for &i in idxs {
        let mut provider = MemStorageProvider::default();
        let mut p = provider.new_perspective(PolicyId::new(0));
        {
            let mut sink = RecSink::default();
            let _ = enter_policy(&machine, &eng, &ffis, "Seed", Vec::new(), &mut p, &mut sink);
        }
        let before = rt::dump_facts(&p, "F").unwrap_or_else(|e| vrt::die(&e));
        if fact_pairs(&before) != vec![(1, 1)] {
            vrt::die("VM-level seeding did not produce F[1]=>{1}");
        }
        let mut sink = RecSink::default();
        let fields: Vec<(aranya_policy_vm::Identifier, Value)> =
            rendered[i].names.iter().zip(&rendered[i].args).map(|(n, v)| (rt::ident(n), v.clone())).collect();
        let (outcome, log) = {
            let mut spy = Spy { inner: &mut p, log: Vec::new() };
            let o = enter_policy(&machine, &eng, &ffis, &format!("P{i}"), fields, &mut spy, &mut sink);
            (o, spy.log)
        };
        stats.ran += 1;
        stats.vm_level += 1;
        let after = rt::dump_facts(&p, "F").unwrap_or_else(|e| vrt::die(&e));
        let mut r = decide(i, &cases[i], &outcome, &log, &sink, &before, &after);
        r["vm_level"] = json!(true);
        out.push((i, r));
    }
}

fn enter_policy<P: FactPerspective>(
    machine: &aranya_policy_vm::Machine,
    eng: &aranya_crypto::default::DefaultEngine<aranya_crypto::Rng>,
    ffis: &[Box<dyn aranya_runtime::FfiCallable<aranya_crypto::default::DefaultEngine<aranya_crypto::Rng>> + Send + 'static>],
    name: &str,
    fields: Vec<(aranya_policy_vm::Identifier, Value)>,
    facts: &mut P,
    sink: &mut RecSink,
) -> Outcome {
    use aranya_policy_vm::{CommandContext, ExitReason, PolicyContext, Struct};
    let name = rt::ident(name);
    let mut io = aranya_runtime::VmPolicyIO::new(facts, sink, eng, ffis);
    let ctx = CommandContext::Policy(PolicyContext {
        name: name.clone(),
        id: CmdId::default(),
        author: aranya_crypto::DeviceId::default(),
        version: aranya_crypto::BaseId::default(),
    });
    let mut rs = machine.create_run_state(&mut io, ctx);
    let this = Struct::new(name, fields);
    let env: Struct = aranya_runtime::Envelope {
        parent_id: CmdId::default(),
        author_id: aranya_crypto::DeviceId::default(),
        command_id: CmdId::default(),
        signature: std::borrow::Cow::Borrowed(&[]),
    }
    .into();
    match vrt::catch_any(|| rs.call_command_policy(this, env)) {
        Err(m) => Outcome::RustPanic(m),
        Ok(Ok(ExitReason::Normal)) => Outcome::Ok,
        Ok(Ok(ExitReason::Check)) => Outcome::Rejected,
        Ok(Ok(ExitReason::Panic)) => Outcome::Panic,
        Ok(Ok(ExitReason::Yield)) => Outcome::Other("yield".into()),
        Ok(Err(_)) => Outcome::Internal,
    }
}

fn fact_pairs(fs: &[rt::StoredFact]) -> Vec<(i64, i64)> {
    fs.iter()
        .map(|f| {
            let g = |v: &Value| if let Value::Int(i) = v { *i } else { i64::MIN };
            (g(&f.keys[0].1), g(&f.values[0].1))
        })
        .collect()
}

/// Real io in the spec's vocabulary: ("insert",k,v) / ("delete",k) from the spy (keys decoded
/// by re-reading nothing: the spy sees encoded bytes, so decode with the harness' decoder),
/// effects from the sink.  Fact calls and effects are two separate sequences in reality; the
/// spec's single `io` sequence is projected onto each.
fn decide(
    i: usize,
    case: &Jv,
    outcome: &Outcome,
    log: &[(String, Vec<Box<[u8]>>, Option<Box<[u8]>>)],
    sink: &RecSink,
    before: &[rt::StoredFact],
    after: &[rt::StoredFact],
) -> Jv {
    let exit_real = match outcome {
        Outcome::Ok => "Normal",
        Outcome::Rejected => "Check",
        Outcome::Panic => "Panic",
        Outcome::Internal => "MachineError",
        Outcome::Other(_) => "Other",
        Outcome::RustPanic(_) => "RustPanic",
    };
    let exit_spec = case.s("exit");
    let rec_spec = case.b("rec");
    // project spec io
    let mut want_facts: Vec<(bool, i64, i64)> = Vec::new(); // (is_insert, k, v)
    let mut want_eff: Vec<(i64, bool)> = Vec::new();
    for x in case.a("io") {
        match x.s("io") {
            "insert" => want_facts.push((true, x.i("k"), x.i("v"))),
            "delete" => want_facts.push((false, x.i("k"), 0)),
            "effect" => want_eff.push((x.i("n"), x.b("recalled"))),
            o => vrt::die(&format!("unknown io {o}")),
        }
    }
    // real io
    let mut got_facts: Vec<(bool, i64, i64)> = Vec::new();
    let mut undecodable = false;
    for (name, keys, val) in log {
        if name != "F" || keys.len() != 1 {
            undecodable = true;
            continue;
        }
        let k = match rt::dec_key_pub(&keys[0]) {
            Ok((_, Value::Int(k))) => k,
            _ => {
                undecodable = true;
                continue;
            }
        };
        match val {
            None => got_facts.push((false, k, 0)),
            Some(v) => match rt::dec_values_pub(v) {
                Ok(vs) if vs.len() == 1 => {
                    if let Value::Int(x) = vs[0].1 {
                        got_facts.push((true, k, x))
                    } else {
                        undecodable = true
                    }
                }
                _ => undecodable = true,
            },
        }
    }
    let got_eff: Vec<(i64, bool)> = sink
        .effects
        .iter()
        .map(|e| {
            let n = match (rt::field(e, "n"), rt::field(e, "b")) {
                (Some(Value::Int(n)), _) => *n,
                (_, Some(Value::Bool(b))) => 100 + i64::from(*b), // effect EB {b}: 100 + b, as in the spec
                _ => i64::MIN,
            };
            (n, e.recalled)
        })
        .collect();
    let obs = json!({
        "exit_real": exit_real, "exit_spec": exit_spec, "outcome": outcome.name(),
        "io_real": log.iter().map(|(n, k, v)| io_json(n, k, v)).collect::<Vec<_>>(),
        "facts_io_real": got_facts.iter().map(|(a, k, v)| json!([if *a {"insert"} else {"delete"}, k, v])).collect::<Vec<_>>(),
        "effects_real": sink.effects.iter().map(rt::effect_json).collect::<Vec<_>>(),
        "facts_before": fact_pairs(before), "facts_after": fact_pairs(after),
    });
    let fail = |key: &str, msg: &str| json!({"i": i, "ok": false, "step": 0, "key": key, "msg": msg, "obs": obs});
    let touched = !log.is_empty() || !sink.effects.is_empty() || before != after;
    // (1) the property's first clause, decided on the *real* exit
    if exit_real == "Panic" && touched {
        return fail("C30:panic-with-side-effects", "policy evaluation ended in Panic but wrote facts / emitted effects");
    }
    if exit_real == "Check" && !rec_spec && touched {
        return fail("C30:check-without-recall-with-side-effects", "policy evaluation ended in Check without a recall but wrote facts / emitted effects");
    }
    if matches!(outcome, Outcome::RustPanic(_)) {
        return fail("C30:rust-panic", "the VM / VmPolicy panicked");
    }
    if case.get("stray").and_then(|x| x.as_bool()) == Some(true) {
        // a misplaced finish-only statement that the compiler accepted: the spec has no
        // reference outcome for it; only the property's own predicate (above) decides
        return json!({"i": i, "ok": true, "step": -1, "drift": 1, "accepted_stray": true, "obs": obs});
    }
    // (2) effects emitted while handling a recall are marked
    if rec_spec && got_eff.iter().any(|(_, r)| !*r) {
        return fail("C30:recall-effect-not-marked", "an effect emitted while handling a recall has recalled = false");
    }
    if !rec_spec && got_eff.iter().any(|(_, r)| *r) {
        return fail("C30:effect-marked-recalled-outside-recall", "an effect emitted by the policy block's finish has recalled = true");
    }
    // (3) otherwise facts / effects equal the spec's
    if undecodable {
        return fail("C30:io-undecodable", "a fact write to an unexpected fact / with undecodable key or value");
    }
    if got_eff != want_eff {
        return fail("C30:effects-differ", "the emitted effects differ from the reference semantics");
    }
    if got_facts != want_facts {
        return fail("C30:fact-writes-differ", "the fact_insert / fact_delete calls differ from the reference semantics");
    }
    let want_after: Vec<(i64, i64)> = case.a("facts").iter().map(|p| (p[0].as_i64().unwrap(), p[1].as_i64().unwrap())).collect();
    if fact_pairs(after) != want_after {
        return fail("C30:facts-after-differ", "the stored facts after the evaluation differ from the reference semantics");
    }
    // exit class: with equal side effects a different exit class does not touch the property's
    // predicate (except Normal vs not-Normal, which decides whether the writes are kept)
    if exit_real != exit_spec {
        if (exit_real == "Normal") != (exit_spec == "Normal") {
            return fail("C30:exit-differs", "the evaluation's exit (Normal vs Check/Panic) differs from the reference semantics");
        }
        return json!({"i": i, "ok": true, "step": -1, "drift": 1, "obs": obs});
    }
    json!({"i": i, "ok": true, "step": -1})
}

pub fn run(args: &Args) {
    let cases = args.read_input();
    let batch = args.opt_u64("batch", 64) as usize;
    let force_vm = args.opt_bool("vmlevel");
    let rendered: Vec<Rendered> = cases.iter().enumerate().map(|(i, c)| render_case(i, c)).collect();
    if let Some(p) = args.opts.get("dump-policy") {
        let parts: Vec<(usize, &Rendered)> = rendered.iter().enumerate().take(batch).collect();
        std::fs::write(p, document(&parts)).unwrap_or_else(|e| vrt::die(&format!("{e}")));
    }
    let mut results: Vec<(usize, Jv)> = Vec::new();
    let mut stats = Stats::default();
    let mut rejects = Vec::new();
    let is_stray = |i: &usize| cases[*i].get("stray").and_then(|x| x.as_bool()) == Some(true);
    let all: Vec<usize> = (0..cases.len()).filter(|i| !is_stray(i)).collect();
    for chunk in all.chunks(batch) {
        run_batch(force_vm, &cases, &rendered, chunk, &mut results, &mut stats, &mut rejects);
    }
    // programs with a misplaced statement are expected to be rejected: one document each
    let stray: Vec<usize> = (0..cases.len()).filter(is_stray).collect();
    let mut stray_rejects = Vec::new();
    let before = stats.rejected;
    for i in &stray {
        run_batch(force_vm, &cases, &rendered, &[*i], &mut results, &mut stats, &mut stray_rejects);
    }
    let stray_rejected = stats.rejected - before;
    stats.rejected = before;
    for (i, r) in results.iter_mut() {
        if is_stray(i) && r.get("rejected").is_some() {
            r["stray_rejected"] = json!(true);
        }
    }
    eprintln!("stmts: {} programs with a misplaced finish-only statement, {} rejected by the compiler", stray.len(), stray_rejected);
    // Controls for the finish-field expression programs: the same program with the expression
    // hoisted into a `let` in front of the finish block is legal, so it must compile (else the
    // rendering of that kind is wrong and its rejection above means nothing) and run to the
    // spec's outcome — with no side effects when the expression panics.
    let mut ctl_cases: Vec<Jv> = Vec::new();
    let mut ctl_of: Vec<usize> = Vec::new();
    for &i in &stray {
        let txt = cases[i].to_string();
        if !(txt.contains("\"emitx\"") || txt.contains("\"createx\"") || txt.contains("\"ffx\"")) || txt.contains("\"todo\"") {
            continue;
        }
        let mut c = cases[i].clone();
        c["stray"] = json!(false);
        if c.s("exit") == "Panic" {
            c["io"] = json!([]);
            c["facts"] = json!([[1, 1]]);
        }
        ctl_cases.push(c);
        ctl_of.push(i);
    }
    if !ctl_cases.is_empty() {
        let ctl_rendered: Vec<Rendered> = ctl_cases.iter().enumerate().map(|(j, c)| render_case_with(j, c, true)).collect();
        let mut ctl_results: Vec<(usize, Jv)> = Vec::new();
        let mut ctl_rejects = Vec::new();
        let saved = (stats.rejected, stats.ran);
        let idx: Vec<usize> = (0..ctl_cases.len()).collect();
        for chunk in idx.chunks(batch) {
            run_batch(force_vm, &ctl_cases, &ctl_rendered, chunk, &mut ctl_results, &mut stats, &mut ctl_rejects);
        }
        stats.rejected = saved.0;
        stats.ran = saved.1;
        let (mut c_ok, mut c_rej, mut c_bad) = (0, 0, 0);
        for (j, r) in ctl_results {
            let i = ctl_of[j];
            let slot = results.iter_mut().find(|(k, _)| *k == i).map(|(_, v)| v).unwrap_or_else(|| vrt::die("control without case"));
            if r.get("rejected").is_some() {
                c_rej += 1;
                slot["control"] = json!("rejected");
            } else if r.get("ok").and_then(|x| x.as_bool()) == Some(true) {
                c_ok += 1;
                slot["control"] = json!("ok");
            } else {
                c_bad += 1;
                let mut r = r;
                r["i"] = json!(i);
                r["control"] = json!("failed");
                r["msg"] = json!(format!("(control program: expression hoisted into a let) {}", r.s("msg")));
                *slot = r;
            }
        }
        eprintln!("stmts: {} control programs (expression hoisted in front of finish): {c_ok} ok, {c_rej} rejected, {c_bad} failing", ctl_cases.len());
        for (j, e) in ctl_rejects.iter().take(3) {
            eprintln!("  control {j} rejected: {e}");
        }
    }
    results.sort_by_key(|(i, _)| *i);
    let mut out = args.out();
    for (_, r) in results {
        out.emit(r);
    }
    out.finish();
    eprintln!(
        "stmts: {} cases, {} documents compiled ({} bisections), {} programs rejected by the compiler, {} run ({} at VM level, {} batches with failed VmPolicy setup)",
        cases.len(), stats.docs, stats.recompiles, stats.rejected, stats.ran, stats.vm_level, stats.setup_failed
    );
    for (i, e) in rejects.iter().take(5) {
        eprintln!("  rejected {i}: {e}");
    }
}
