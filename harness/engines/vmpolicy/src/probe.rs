//! Debug aid: run a hand-written policy document and a script of actions, print outcome,
//! effects and the stored facts after every action.  Not used by any check.
//! `vh-vmpolicy probe --opt policy=<file.md> --opt facts=F,G --in script.ndjson`
//! script line: {"action": "name", "args": [{"int":1},{"str":"a"},{"bool":true},{"id":3},{"enum":["E",1]}], "commit": false}
use aranya_policy_vm::Value;
use vrt::{json, Args, J};

use crate::rt::{self, RecSink, Rt};

pub fn arg(v: &vrt::Value) -> Value {
    if let Some(i) = v.get("int") {
        Value::Int(i.as_i64().unwrap())
    } else if let Some(b) = v.get("bool") {
        Value::Bool(b.as_bool().unwrap())
    } else if let Some(s) = v.get("str") {
        Value::String(rt::text(s.as_str().unwrap()))
    } else if let Some(n) = v.get("id") {
        let mut b = [0u8; 32];
        b[0] = n.as_u64().unwrap() as u8;
        Value::Id(aranya_crypto::BaseId::from_bytes(b))
    } else if let Some(e) = v.get("enum") {
        Value::Enum(rt::ident(e[0].as_str().unwrap()), e[1].as_i64().unwrap())
    } else {
        vrt::die(&format!("bad arg {v}"))
    }
}

pub fn run(args: &Args) {
    let doc = std::fs::read_to_string(args.opt_str("policy", "")).unwrap_or_else(|e| vrt::die(&format!("policy: {e}")));
    let facts: Vec<String> = args.opt_str("facts", "F").split(',').map(str::to_string).collect();
    let t0 = std::time::Instant::now();
    let module = match rt::compile(&doc) {
        Ok(m) => m,
        Err(e) => {
            println!("COMPILE ERROR\n{e}");
            return;
        }
    };
    println!("compiled in {:?}", t0.elapsed());
    let mut r = Rt::new(module).unwrap_or_else(|e| vrt::die(&e));
    let mut p = r.perspective().unwrap_or_else(|e| vrt::die(&e));
    for s in args.read_input() {
        let mut sink = RecSink::default();
        let a: Vec<Value> = s.a("args").iter().map(arg).collect();
        let t = std::time::Instant::now();
        let out = r.action(&mut p, s.s("action"), a, &mut sink);
        let el = t.elapsed();
        println!("{} -> {} ({:?})", s, out.name(), el);
        for e in &sink.effects {
            println!("   effect {}", rt::effect_json(e));
        }
        for f in &facts {
            match rt::dump_facts(&p, f) {
                Ok(fs) => println!("   {f}: {}", json!(fs.iter().map(rt::fact_json).collect::<Vec<_>>())),
                Err(e) => println!("   {f}: dump error {e}"),
            }
        }
        if s.get("commit").and_then(|c| c.as_bool()) == Some(true) {
            r.commit(p).unwrap_or_else(|e| vrt::die(&e));
            p = r.perspective().unwrap_or_else(|e| vrt::die(&e));
            println!("   committed");
        }
    }
}
