//! Thin wrapper that runs policy documents through the *real* stack:
//! `parse_policy_document` -> `Compiler` -> `Machine` -> `VmPolicy` (+ `VmPolicyIO`) on a
//! perspective of the runtime's linear storage (in-memory I/O manager).
//!
//! The harness deliberately drives `VmPolicy::call_action` on a perspective it owns instead
//! of `ClientState::action`: the client reverts the perspective when a command is rejected,
//! which would hide exactly the writes C30 is about.  Storage, perspective, fact index, key
//! encoding (`ser_key`), prefix scan and the VM are all the real ones.
use aranya_crypto::{default::DefaultEngine, DeviceId, Rng};
use aranya_policy_compiler::Compiler;
use aranya_policy_lang::lang::parse_policy_document;
use aranya_policy_vm::{
    ffi::FfiModule as _, FactValue, Identifier, KVPair, Machine, Module, Text, Value,
};
use aranya_runtime::{
    storage::linear::testing::MemStorageProvider,
    vm_policy::testing::TestFfiEnvelope,
    ActionPlacement, GraphId, HeadSet, LocatedAddress, Perspective as _, Policy as _, PolicyError,
    PolicyId, Prior, Query as _, Segment as _, Sink, Storage as _, StorageProvider, VmAction, VmEffect, VmPolicy,
};
use vrt::{json, Value as J};

pub type Persp = <MemStorageProvider as StorageProvider>::Perspective;

/// Recording sink: every `consume` is kept (begin/rollback/commit are only counted).
#[derive(Default)]
pub struct RecSink {
    pub effects: Vec<VmEffect>,
}

impl Sink<VmEffect> for RecSink {
    fn begin(&mut self) {}
    fn consume(&mut self, e: VmEffect) {
        self.effects.push(e);
    }
    fn rollback(&mut self) {}
    fn commit(&mut self) {}
}

/// Compile a policy document with the real parser and compiler (debug mode on so that
/// `test_fail()`/`todo()` are accepted).  `Err` carries the rendered error.
pub fn compile(doc: &str) -> Result<Module, String> {
    let ast = parse_policy_document(doc).map_err(|e| format!("parse: {e:?}"))?;
    Compiler::new(&ast)
        .ffi_modules(&[TestFfiEnvelope::SCHEMA])
        .debug(true)
        .compile()
        .map_err(|e| format!("compile: {e}"))
}

pub struct Rt {
    pub policy: VmPolicy<DefaultEngine<Rng>>,
    pub provider: MemStorageProvider,
    pub graph: GraphId,
}

/// Outcome class of one `call_action`.
#[derive(Debug, Clone, PartialEq, Eq)]
pub enum Outcome {
    Ok,
    Rejected, // ExitReason::Check
    Panic,    // ExitReason::Panic
    Internal, // MachineError (e.g. InvalidFact) -> PolicyError::InternalError
    Other(String),
    RustPanic(String),
}

impl Outcome {
    pub fn name(&self) -> String {
        match self {
            Outcome::Ok => "ok".into(),
            Outcome::Rejected => "check".into(),
            Outcome::Panic => "panic".into(),
            Outcome::Internal => "internal".into(),
            Outcome::Other(s) => format!("other:{s}"),
            Outcome::RustPanic(s) => format!("rust-panic:{s}"),
        }
    }
}

impl Rt {
    /// Builds the policy and a graph whose init command is published by action `init()`.
    pub fn new(module: Module) -> Result<Rt, String> {
        let machine = Machine::from_module(module).map_err(|e| format!("machine: {e}"))?;
        let (eng, _) = DefaultEngine::from_entropy(Rng);
        let policy = VmPolicy::new(
            machine,
            eng,
            vec![Box::from(TestFfiEnvelope { device: DeviceId::default() })],
        )
        .map_err(|e| format!("vmpolicy: {e}"))?;
        let mut provider = MemStorageProvider::default();
        let mut p = provider.new_perspective(PolicyId::new(0));
        let mut sink = RecSink::default();
        let act = VmAction { name: ident("init"), args: Vec::new().into() };
        policy
            .call_action(act, &mut p, &mut sink, ActionPlacement::OnGraph)
            .map_err(|e| format!("init action: {e}"))?;
        let (graph, _) = provider.new_storage(p).map_err(|e| format!("new_storage: {e}"))?;
        Ok(Rt { policy, provider, graph })
    }

    /// A fresh linear perspective on top of the committed head.
    pub fn perspective(&mut self) -> Result<Persp, String> {
        let st = self.provider.get_storage(self.graph).map_err(|e| format!("get_storage: {e}"))?;
        let heads = st.get_heads().map_err(|e| format!("heads: {e}"))?.clone();
        let head = heads.iter().next().ok_or("no head")?;
        let loc = aranya_runtime::Location::new(head.segment, head.max_cut);
        st.get_linear_perspective(loc).map_err(|e| format!("perspective: {e}"))
    }

    /// Writes the perspective as a new segment and makes it the committed head (what
    /// `ClientState::action` does on success).  The perspective must hold >= 1 command.
    pub fn commit(&mut self, p: Persp) -> Result<(), String> {
        let st = self.provider.get_storage(self.graph).map_err(|e| format!("get_storage: {e}"))?;
        let seg = st.write(p).map_err(|e| format!("write: {e}"))?;
        let head = LocatedAddress {
            id: seg.head_id(),
            segment: seg.index(),
            max_cut: seg.longest_max_cut().map_err(|e| format!("max_cut: {e}"))?,
        };
        let fc = seg.facts().map_err(|e| format!("facts: {e}"))?;
        st.commit_heads(HeadSet::single(head), fc).map_err(|e| format!("commit_heads: {e}"))
    }

    /// `VmPolicy::call_action` on the given perspective; panics of the code under test are data.
    pub fn action(&self, p: &mut Persp, name: &str, args: Vec<Value>, sink: &mut RecSink) -> Outcome {
        let act = VmAction { name: ident(name), args: args.into() };
        let r = vrt::catch_any(|| self.policy.call_action(act, p, sink, ActionPlacement::OnGraph));
        match r {
            Err(msg) => Outcome::RustPanic(msg),
            Ok(Ok(())) => Outcome::Ok,
            Ok(Err(PolicyError::Rejected)) => Outcome::Rejected,
            Ok(Err(PolicyError::Panic)) => Outcome::Panic,
            Ok(Err(PolicyError::InternalError)) => Outcome::Internal,
            Ok(Err(e)) => Outcome::Other(format!("{e}")),
        }
    }
}

pub fn has_commands(p: &Persp) -> bool {
    // a perspective opened on a committed head reports that head until a command is added;
    // `includes` is not enough, so track by head change in the callers.
    matches!(p.head_address(), Ok(Prior::Single(_)))
}

pub fn ident(s: &str) -> Identifier {
    s.parse().unwrap_or_else(|_| vrt::die(&format!("bad identifier {s}")))
}

pub fn text(s: &str) -> Text {
    s.parse().unwrap_or_else(|_| vrt::die(&format!("bad text {s:?}")))
}

// ------------------------------------------------------------------------------------------
// Independent decoder of the stored representation (key bytes as documented in
// `vm_policy/io.rs ser_key`: u64-BE identifier length, identifier, 1 tag byte, value bytes;
// values: postcard `Vec<FactValue>`).  Used to read the stored fact set back through
// `Query::query_prefix` without going through the VM.

#[derive(Debug, Clone, PartialEq, Eq)]
pub struct StoredFact {
    pub keys: Vec<(String, Value)>,
    pub values: Vec<(String, Value)>,
}

fn dec_key(b: &[u8]) -> Result<(String, Value), String> {
    if b.len() < 9 {
        return Err("short key".into());
    }
    let n = u64::from_be_bytes(b[..8].try_into().unwrap()) as usize;
    if b.len() < 8 + n + 1 {
        return Err("short key (identifier)".into());
    }
    let name = std::str::from_utf8(&b[8..8 + n]).map_err(|_| "identifier utf8")?.to_string();
    let tag = b[8 + n];
    let v = &b[8 + n + 1..];
    let flip = |x: &[u8]| -> Result<i64, String> {
        let a: [u8; 8] = x.try_into().map_err(|_| "int length")?;
        Ok(i64::from_be_bytes(a) ^ i64::MIN)
    };
    let val = match tag {
        0 => Value::Int(flip(v)?),
        1 => match v {
            [0] => Value::Bool(false),
            [1] => Value::Bool(true),
            _ => return Err("bad bool".into()),
        },
        2 => Value::String(
            std::str::from_utf8(v).map_err(|_| "string utf8")?.parse().map_err(|_| "text")?,
        ),
        3 => {
            let a: [u8; 32] = v.try_into().map_err(|_| "id length")?;
            Value::Id(aranya_crypto::BaseId::from_bytes(a))
        }
        4 => {
            if v.len() < 8 {
                return Err("short enum".into());
            }
            let n = flip(&v[..8])?;
            let name: Identifier = std::str::from_utf8(&v[8..])
                .map_err(|_| "enum utf8")?
                .parse()
                .map_err(|_| "enum ident")?;
            Value::Enum(name, n)
        }
        t => return Err(format!("bad tag {t}")),
    };
    Ok((name, val))
}

pub fn dec_key_pub(b: &[u8]) -> Result<(String, Value), String> {
    dec_key(b)
}

pub fn dec_values_pub(b: &[u8]) -> Result<Vec<(String, Value)>, String> {
    let vals: Vec<FactValue> = postcard::from_bytes(b).map_err(|e| format!("value postcard: {e}"))?;
    Ok(vals.into_iter().map(|v| (v.identifier.to_string(), v.value)).collect())
}

/// All stored facts of `name` (prefix `[]`) in the storage's iteration order.
pub fn dump_facts(p: &Persp, name: &str) -> Result<Vec<StoredFact>, String> {
    let it = p.query_prefix(name, &[]).map_err(|e| format!("query_prefix: {e}"))?;
    let mut out = Vec::new();
    for f in it {
        let f = f.map_err(|e| format!("query_prefix item: {e}"))?;
        let mut keys = Vec::new();
        for k in f.key.iter() {
            keys.push(dec_key(k)?);
        }
        let vals: Vec<FactValue> =
            postcard::from_bytes(&f.value).map_err(|e| format!("value postcard: {e}"))?;
        // The stored order of the value fields is not semantic (the VM looks fields up by
        // name; an `update` with `?` fields stores them in a different order): normalise.
        let mut values: Vec<(String, Value)> =
            vals.into_iter().map(|v| (v.identifier.to_string(), v.value)).collect();
        values.sort_by(|a, b| a.0.cmp(&b.0));
        out.push(StoredFact { keys, values });
    }
    Ok(out)
}

// ------------------------------------------------------------------------------------------
// Value -> JSON (for evidence / messages only; comparisons are done on `Value`s).

pub fn vj(v: &Value) -> J {
    match v {
        Value::Unit => json!("unit"),
        Value::Int(i) => json!(i),
        Value::Bool(b) => json!(b),
        Value::String(s) => json!(s.as_str()),
        Value::Bytes(b) => json!({"bytes": b}),
        Value::Struct(s) => {
            let mut m = vrt::Map::new();
            for (k, v) in &s.fields {
                m.insert(k.to_string(), vj(v));
            }
            json!({"struct": s.name.as_str(), "fields": m})
        }
        Value::Fact(f) => json!({"fact": format!("{f:?}")}),
        Value::Id(id) => json!(format!("id:{}", hex(&id.as_bytes()[..4]))),
        Value::Enum(n, i) => json!(format!("{n}::{i}")),
        Value::Identifier(i) => json!(format!("ident:{i}")),
        Value::Option(None) => json!(null),
        Value::Option(Some(v)) => json!({"some": vj(v)}),
        Value::Result(Ok(v)) => json!({"ok": vj(v)}),
        Value::Result(Err(v)) => json!({"err": vj(v)}),
    }
}

pub fn hex(b: &[u8]) -> String {
    b.iter().map(|x| format!("{x:02x}")).collect()
}

pub fn effect_json(e: &VmEffect) -> J {
    let mut m = vrt::Map::new();
    for kv in &e.fields {
        m.insert(kv.key().to_string(), vj(kv.value()));
    }
    json!({"name": e.name.as_str(), "fields": m, "recalled": e.recalled})
}

pub fn fact_json(f: &StoredFact) -> J {
    json!({
        "k": f.keys.iter().map(|(n, v)| json!([n, vj(v)])).collect::<Vec<_>>(),
        "v": f.values.iter().map(|(n, v)| json!([n, vj(v)])).collect::<Vec<_>>(),
    })
}

pub fn field<'a>(e: &'a VmEffect, name: &str) -> Option<&'a Value> {
    e.fields.iter().find(|kv: &&KVPair| kv.key().as_str() == name).map(|kv| kv.value())
}
