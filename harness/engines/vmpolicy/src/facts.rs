//! S2I replay of `PolicyFacts.tla` behaviours (C29).
//!
//! behaviour: `{"schema": {"kt": [..], "kd": [..], "vt": [..]}, "init": [{"k": [..], "v": [..]}],
//!              "steps": [{"op": .., .., "store": [..]}], "cx": n}`
//! (`cx` = concretisation seed added by the driver; ranks are 1-based.)
//!
//! For every schema one policy document is rendered and compiled by the real compiler:
//! the fact definition, a `Create`/`Delete`/`Upd_<shape>` command per mutation form, one
//! `Obs_<nb>_<shape>` command per literal shape (number of bound leading keys x which value
//! fields are bound) whose policy evaluates `query`, `exists`, `count_up_to`, `at_least`,
//! `at_most`, `exactly` for every limit on that literal and reports the results in an effect,
//! and one `do_map_<nb>_<shape>` action that `map`s over the literal and publishes a `Visit`
//! command (-> effect) per visited fact.  Concrete values come in as action arguments, so
//! they travel action -> command fields -> `this.x` -> FactKey -> `ser_key` -> storage.
//!
//! Every step runs `VmPolicy::call_action` on a real linear-storage perspective; after every
//! step the stored fact set is read back with `Query::query_prefix(name, [])` and decoded by
//! the harness' own decoder.  Layering (which facts live in the committed fact index and which
//! in the perspective's update map) is varied by `cx` and by the spec's `commit` steps.
use std::collections::HashMap;

use aranya_policy_vm::{Identifier, Machine, Module, Value};
use vrt::{json, Args, Value as Jv, J};

use crate::rt::{self, Outcome, Persp, RecSink, Rt, StoredFact};

const LIMITS: [i64; 3] = [1, 2, 3];

#[derive(Clone, Debug, PartialEq, Eq, Hash)]
pub struct Schema {
    pub kt: Vec<String>,
    pub kd: Vec<usize>,
    pub vt: Vec<String>,
}

impl Schema {
    fn parse(v: &Jv) -> Schema {
        let strs = |k: &str| v.a(k).iter().map(|x| x.as_str().unwrap_or_else(|| vrt::die("schema type")).to_string()).collect();
        Schema {
            kt: strs("kt"),
            kd: v.a("kd").iter().map(|x| x.as_u64().unwrap_or_else(|| vrt::die("schema kd")) as usize).collect(),
            vt: strs("vt"),
        }
    }
    fn nk(&self) -> usize {
        self.kt.len()
    }
    fn nv(&self) -> usize {
        self.vt.len()
    }
}

// ------------------------------------------------------------------------------------------
// Concretisation: ascending value tables per type, in the key order PolicyFacts.tla states.

fn id_of(b0: u8, b31: u8) -> Value {
    let mut b = [0u8; 32];
    b[0] = b0;
    b[31] = b31;
    Value::Id(aranya_crypto::BaseId::from_bytes(b))
}

pub fn base_table(ty: &str) -> Vec<Value> {
    match ty {
        "int" => [i64::MIN, i64::MIN + 1, -65536, -256, -1, 0, 1, 255, 256, 65536, i64::MAX - 1, i64::MAX]
            .iter()
            .map(|&i| Value::Int(i))
            .collect(),
        "bool" => vec![Value::Bool(false), Value::Bool(true)],
        "string" => ["", " ", "A", "a", "a\u{1}", "aa", "ab", "b", "ba", "\u{e9}", "\u{20ac}"]
            .iter()
            .map(|s| Value::String(rt::text(s)))
            .collect(),
        "id" => [(0, 0), (0, 1), (0, 255), (1, 0), (127, 255), (128, 0), (255, 254), (255, 255)]
            .iter()
            .map(|&(a, b)| id_of(a, b))
            .collect(),
        "enum" => (0..4).map(|i| Value::Enum(rt::ident("E"), i)).collect(),
        t => vrt::die(&format!("unknown type {t}")),
    }
}

/// The order the spec states for key fields, written without reference to the encoding.
fn stated_less(a: &Value, b: &Value) -> bool {
    match (a, b) {
        (Value::Int(x), Value::Int(y)) => x < y,
        (Value::Bool(x), Value::Bool(y)) => !*x && *y,
        (Value::String(x), Value::String(y)) => x.as_str().as_bytes() < y.as_str().as_bytes(),
        (Value::Id(x), Value::Id(y)) => x.as_bytes() < y.as_bytes(),
        (Value::Enum(_, x), Value::Enum(_, y)) => x < y,
        _ => vrt::die("stated_less on different types"),
    }
}

pub fn check_tables() {
    for t in ["int", "bool", "string", "id", "enum"] {
        let tb = base_table(t);
        for w in tb.windows(2) {
            if !stated_less(&w[0], &w[1]) {
                vrt::die(&format!("concretisation table for {t} is not strictly ascending"));
            }
        }
    }
}

pub struct Conc {
    kvals: Vec<Vec<Value>>,
    vvals: Vec<Vec<Value>>,
}

fn pick_ascending(rng: &mut vrt::Rng, table: &[Value], n: usize) -> Vec<Value> {
    if n > table.len() {
        vrt::die("domain larger than the concretisation table");
    }
    let mut idx: Vec<usize> = (0..table.len()).collect();
    rng.shuffle(&mut idx);
    let mut pick: Vec<usize> = idx[..n].to_vec();
    pick.sort();
    pick.iter().map(|&i| table[i].clone()).collect()
}

impl Conc {
    fn new(s: &Schema, cx: u64, val_dom: usize) -> Conc {
        let mut rng = vrt::Rng::new(cx.wrapping_mul(0x9E37_79B9).wrapping_add(17));
        let kvals = s.kt.iter().zip(&s.kd).map(|(t, &d)| pick_ascending(&mut rng, &base_table(t), d)).collect();
        let vvals = s.vt.iter().map(|t| pick_ascending(&mut rng, &base_table(t), val_dom)).collect();
        Conc { kvals, vvals }
    }
    fn key(&self, ranks: &[usize]) -> Vec<Value> {
        ranks.iter().enumerate().map(|(i, &r)| self.kvals[i][r - 1].clone()).collect()
    }
    fn val(&self, ranks: &[usize]) -> Vec<Value> {
        ranks.iter().enumerate().map(|(i, &r)| self.vvals[i][r - 1].clone()).collect()
    }
}

// ------------------------------------------------------------------------------------------
// Rendering

fn tyname(t: &str) -> String {
    if t == "enum" { "enum E".to_string() } else { t.to_string() }
}

const SEAL_OPEN: &str = "    seal { return envelope::do_seal(payload) }\n    open { return envelope::do_open(payload, envelope) }\n";

fn command(name: &str, fields: &[(String, String)], policy: &str) -> String {
    let f: Vec<String> = fields.iter().map(|(n, t)| format!("{n} {t}")).collect();
    format!(
        "command {name} {{\n    attributes {{ priority: 0 }}\n    fields {{ {} }}\n{SEAL_OPEN}    policy {{\n{policy}\n    }}\n}}\n",
        f.join(", ")
    )
}

fn publish_action(action: &str, cmd: &str, fields: &[(String, String)]) -> String {
    let params: Vec<String> = fields.iter().map(|(n, t)| format!("{n} {t}")).collect();
    let args: Vec<String> = fields.iter().map(|(n, _)| format!("{n}: {n}")).collect();
    format!("action {action}({}) {{ publish {cmd} {{ {} }} }}\n", params.join(", "), args.join(", "))
}

/// value shapes: "n" = no `=>{..}` clause; otherwise one char per value field, b = bound, q = `?`
pub fn vshapes(nv: usize) -> Vec<String> {
    let mut out = vec!["n".to_string()];
    for m in 0..(1usize << nv) {
        out.push((0..nv).map(|i| if m >> i & 1 == 1 { 'b' } else { 'q' }).collect());
    }
    out
}

pub fn shape_of(vg: bool, vb: &[usize]) -> String {
    if !vg { "n".into() } else { vb.iter().map(|&r| if r > 0 { 'b' } else { 'q' }).collect() }
}

/// fact literal with the first `nb` keys bound to `<kp>k<i>` and values per shape bound to `<vp>v<i>`
fn literal(s: &Schema, nb: usize, shape: &str, kp: &str, vp: &str) -> String {
    let keys: Vec<String> =
        (1..=s.nk()).map(|i| if i <= nb { format!("k{i}: {kp}k{i}") } else { format!("k{i}: ?") }).collect();
    let mut l = format!("F[{}]", keys.join(", "));
    if shape != "n" {
        let vals: Vec<String> = shape
            .chars()
            .enumerate()
            .map(|(i, c)| if c == 'b' { format!("v{}: {vp}v{}", i + 1, i + 1) } else { format!("v{}: ?", i + 1) })
            .collect();
        l += &format!("=>{{{}}}", vals.join(", "));
    }
    l
}

fn bound_fields(s: &Schema, nb: usize, shape: &str) -> Vec<(String, String)> {
    let mut f: Vec<(String, String)> = (1..=nb).map(|i| (format!("k{i}"), tyname(&s.kt[i - 1]))).collect();
    if shape != "n" {
        for (i, c) in shape.chars().enumerate() {
            if c == 'b' {
                f.push((format!("v{}", i + 1), tyname(&s.vt[i])));
            }
        }
    }
    f
}

pub fn render(s: &Schema) -> String {
    let nk = s.nk();
    let nv = s.nv();
    let kf: Vec<(String, String)> = (1..=nk).map(|i| (format!("k{i}"), tyname(&s.kt[i - 1]))).collect();
    let vf: Vec<(String, String)> = (1..=nv).map(|i| (format!("v{i}"), tyname(&s.vt[i - 1]))).collect();
    let all: Vec<(String, String)> = kf.iter().chain(&vf).cloned().collect();
    let defs = |f: &[(String, String)]| f.iter().map(|(n, t)| format!("{n} {t}")).collect::<Vec<_>>().join(", ");
    let mut d = String::from("---\npolicy-version: 2\n---\n\n```policy\nuse envelope\n\nenum E { E0, E1, E2, E3 }\n\n");
    d += &format!("fact F[{}]=>{{{}}}\nfact G[n int]=>{{x int}}\n\n", defs(&kf), defs(&vf));
    // result fields
    let mut rf: Vec<(String, String)> = vec![("e".into(), "bool".into())];
    for (p, t) in [("c", "int"), ("l", "bool"), ("m", "bool"), ("x", "bool")] {
        for n in LIMITS {
            rf.push((format!("{p}{n}"), t.into()));
        }
    }
    let allr: Vec<(String, String)> = all.iter().chain(&rf).cloned().collect();
    d += &format!("effect ObsR {{ {} }}\n", defs(&allr));
    d += &format!("effect ObsN {{ {} }}\n", defs(&rf));
    d += &format!("effect Visited {{ {} }}\n\n", if all.is_empty() { String::new() } else { defs(&all) });
    d += &format!(
        "command Init {{\n    attributes {{ init: true }}\n    fields {{ nonce int }}\n{SEAL_OPEN}    policy {{ finish {{}} }}\n}}\naction init() {{ publish Init {{ nonce: 0 }} }}\n\n"
    );
    let this_keys = (1..=nk).map(|i| format!("k{i}: this.k{i}")).collect::<Vec<_>>().join(", ");
    let this_vals = (1..=nv).map(|i| format!("v{i}: this.v{i}")).collect::<Vec<_>>().join(", ");
    // unrelated fact writes: bury F's facts deep in the fact-index chain (compaction at depth 16)
    d += &command("Noise", &[("n".to_string(), "int".to_string())], "        finish { create G[n: this.n]=>{x: 0} }");
    d += &publish_action("do_noise", "Noise", &[("n".to_string(), "int".to_string())]);
    // create / delete
    d += &command("Create", &all, &format!("        finish {{ create F[{this_keys}]=>{{{this_vals}}} }}"));
    d += &publish_action("do_create", "Create", &all);
    d += &command("Delete", &kf, &format!("        finish {{ delete F[{this_keys}] }}"));
    d += &publish_action("do_delete", "Delete", &kf);
    // update, one per from-shape
    for shape in vshapes(nv) {
        let mut fields = kf.clone();
        let mut from = String::new();
        if shape != "n" {
            let parts: Vec<String> = shape
                .chars()
                .enumerate()
                .map(|(i, c)| {
                    if c == 'b' {
                        fields.push((format!("f{}", i + 1), tyname(&s.vt[i])));
                        format!("v{}: this.f{}", i + 1, i + 1)
                    } else {
                        format!("v{}: ?", i + 1)
                    }
                })
                .collect();
            from = format!("=>{{{}}}", parts.join(", "));
        }
        let to: Vec<String> = (1..=nv)
            .map(|i| {
                fields.push((format!("t{i}"), tyname(&s.vt[i - 1])));
                format!("v{i}: this.t{i}")
            })
            .collect();
        d += &command(
            &format!("Upd_{shape}"),
            &fields,
            &format!("        finish {{ update F[{this_keys}]{from} to {{{}}} }}", to.join(", ")),
        );
        d += &publish_action(&format!("do_upd_{shape}"), &format!("Upd_{shape}"), &fields);
    }
    // visit
    let this_all = all.iter().map(|(n, _)| format!("{n}: this.{n}")).collect::<Vec<_>>().join(", ");
    d += &command("Visit", &all, &format!("        finish {{ emit Visited {{ {this_all} }} }}"));
    let f_all = all.iter().map(|(n, _)| format!("{n}: f.{n}")).collect::<Vec<_>>().join(", ");
    // observe / map per literal shape
    for nb in 0..=nk {
        for shape in vshapes(nv) {
            let lit = literal(s, nb, &shape, "this.", "this.");
            let fields = bound_fields(s, nb, &shape);
            let mut body = format!("        let q = query {lit}\n        let e = exists {lit}\n");
            for n in LIMITS {
                body += &format!("        let c{n} = count_up_to {n} {lit}\n");
                body += &format!("        let l{n} = at_least {n} {lit}\n");
                body += &format!("        let m{n} = at_most {n} {lit}\n");
                body += &format!("        let x{n} = exactly {n} {lit}\n");
            }
            let res = rf.iter().map(|(n, _)| format!("{n}: {n}")).collect::<Vec<_>>().join(", ");
            let found = if all.is_empty() { res.clone() } else { format!("{f_all}, {res}") };
            body += &format!(
                "        match q {{\n            Some(f) => {{ finish {{ emit ObsR {{ {found} }} }} }}\n            None => {{ finish {{ emit ObsN {{ {res} }} }} }}\n        }}"
            );
            let name = format!("Obs_{nb}_{shape}");
            d += &command(&name, &fields, &body);
            d += &publish_action(&format!("do_obs_{nb}_{shape}"), &name, &fields);
            let params: Vec<String> = fields.iter().map(|(n, t)| format!("{n} {t}")).collect();
            d += &format!(
                "action do_map_{nb}_{shape}({}) {{\n    map {} as f {{\n        publish Visit {{ {f_all} }}\n    }}\n}}\n",
                params.join(", "),
                literal(s, nb, &shape, "", "")
            );
        }
    }
    d += "```\n";
    d
}

// ------------------------------------------------------------------------------------------
// Replay

fn ranks(v: &Jv) -> Vec<usize> {
    v.as_array()
        .unwrap_or_else(|| vrt::die(&format!("expected rank tuple, got {v}")))
        .iter()
        .map(|x| x.as_u64().unwrap_or_else(|| vrt::die("rank")) as usize)
        .collect()
}

fn named(prefix: &str, vals: Vec<Value>) -> Vec<(String, Value)> {
    vals.into_iter().enumerate().map(|(i, v)| (format!("{prefix}{}", i + 1), v)).collect()
}

fn conc_fact(c: &Conc, f: &Jv) -> StoredFact {
    StoredFact { keys: named("k", c.key(&ranks(f.g("k")))), values: named("v", c.val(&ranks(f.g("v")))) }
}

fn conc_store(c: &Conc, l: &Jv) -> Vec<StoredFact> {
    l.as_array().unwrap_or_else(|| vrt::die("store list")).iter().map(|f| conc_fact(c, f)).collect()
}

struct Fail {
    step: i64,
    key: String,
    msg: String,
    obs: Jv,
}

struct Runner<'a> {
    rt: Rt,
    p: Option<Persp>,
    dirty: bool,
    conc: &'a Conc,
    drift: u64,
}

impl Runner<'_> {
    fn persp(&mut self) -> &mut Persp {
        self.p.as_mut().expect("perspective")
    }
    fn act(&mut self, name: &str, args: Vec<Value>) -> (Outcome, RecSink) {
        let mut sink = RecSink::default();
        let p = self.p.as_mut().expect("perspective");
        let o = self.rt.action(p, name, args, &mut sink);
        if o == Outcome::Ok {
            self.dirty = true;
        }
        (o, sink)
    }
    fn commit(&mut self) -> Result<(), String> {
        if !self.dirty {
            return Ok(());
        }
        let p = self.p.take().expect("perspective");
        self.rt.commit(p)?;
        self.p = Some(self.rt.perspective()?);
        self.dirty = false;
        Ok(())
    }
    fn store(&mut self) -> Result<Vec<StoredFact>, String> {
        rt::dump_facts(self.persp(), "F")
    }
}

fn facts_json(fs: &[StoredFact]) -> Jv {
    json!(fs.iter().map(rt::fact_json).collect::<Vec<_>>())
}

fn effect_fact(e: &aranya_runtime::VmEffect, nk: usize, nv: usize) -> StoredFact {
    let get = |n: String| rt::field(e, &n).cloned().unwrap_or(Value::Unit);
    StoredFact {
        keys: (1..=nk).map(|i| (format!("k{i}"), get(format!("k{i}")))).collect(),
        values: (1..=nv).map(|i| (format!("v{i}"), get(format!("v{i}")))).collect(),
    }
}

fn run_behaviour(b: &Jv, cache: &mut HashMap<Schema, Result<Module, String>>, stats: &mut Stats) -> Result<u64, Fail> {
    let tool = |m: String| -> Fail { Fail { step: -2, key: "TOOL".into(), msg: m, obs: Jv::Null } };
    let schema = Schema::parse(b.g("schema"));
    let cx = b.get("cx").and_then(|x| x.as_u64()).unwrap_or(0);
    let conc = Conc::new(&schema, cx, 2);
    let module = cache
        .entry(schema.clone())
        .or_insert_with(|| {
            stats.compiled += 1;
            rt::compile(&render(&schema))
        })
        .clone()
        .map_err(|e| tool(format!("rendered policy for {schema:?} rejected: {e}")))?;
    let _ = Machine::from_module(module.clone());
    let rt = Rt::new(module).map_err(tool)?;
    let mut r = Runner { rt, p: None, dirty: false, conc: &conc, drift: 0 };
    r.p = Some(r.rt.perspective().map_err(tool)?);
    let (nk, nv) = (schema.nk(), schema.nv());

    // seed the initial store through the real `create` path; layering chosen by cx
    // 0: all in the perspective, 1: commit after seeding, 2: commit after every fact,
    // 3: as 2, then 18 committed segments of unrelated writes (crosses fact-index compaction)
    let layer = cx % 4;
    let mut init: Vec<&Jv> = b.a("init").iter().collect();
    let mut rng = vrt::Rng::new(cx ^ 0xfac7);
    rng.shuffle(&mut init);
    for f in &init {
        let mut args = conc.key(&ranks(f.g("k")));
        args.extend(conc.val(&ranks(f.g("v"))));
        let (o, _) = r.act("do_create", args);
        if o != Outcome::Ok {
            return Err(Fail { step: -1, key: "C29:seed".into(), msg: format!("creating an absent fact failed: {}", o.name()), obs: json!({"fact": f}) });
        }
        if layer >= 2 {
            r.commit().map_err(tool)?;
        }
    }
    if layer == 1 {
        r.commit().map_err(tool)?;
    }
    if layer == 3 {
        for n in 0..18 {
            let (o, _) = r.act("do_noise", vec![Value::Int(n)]);
            if o != Outcome::Ok {
                return Err(tool(format!("noise command failed: {}", o.name())));
            }
            r.commit().map_err(tool)?;
        }
    }
    let want = conc_store(&conc, b.g("init"));
    let got = r.store().map_err(tool)?;
    if got != want {
        return Err(Fail {
            step: -1,
            key: "C29:store:seed".into(),
            msg: "stored facts after creating the initial facts differ from the model (set or key order)".into(),
            obs: json!({"want": facts_json(&want), "got": facts_json(&got)}),
        });
    }

    for (si, st) in b.a("steps").iter().enumerate() {
        let si = si as i64;
        let op = st.s("op");
        stats.steps += 1;
        match op {
            "commit" => r.commit().map_err(tool)?,
            "create" => {
                let mut args = conc.key(&ranks(st.g("k")));
                args.extend(conc.val(&ranks(st.g("v"))));
                let (o, _) = r.act("do_create", args);
                if st.s("out") == "overwrite" {
                    // outside the property (it speaks of creating absent facts): drift only
                    let want = conc_store(&conc, st.g("store"));
                    if o != Outcome::Ok || r.store().map_err(tool)? != want {
                        r.drift += 1;
                        return Ok(r.drift);
                    }
                    continue;
                }
                if o != Outcome::Ok {
                    return Err(Fail { step: si, key: "C29:create".into(), msg: format!("create of an absent fact ended with {}", o.name()), obs: json!({"step": st}) });
                }
            }
            "delete" => {
                let (o, _) = r.act("do_delete", conc.key(&ranks(st.g("k"))));
                if o != Outcome::Ok {
                    return Err(Fail { step: si, key: "C29:delete".into(), msg: format!("delete ended with {}", o.name()), obs: json!({"step": st}) });
                }
            }
            "update" => {
                let vb = ranks(st.g("vb"));
                let shape = shape_of(st.b("vg"), &vb);
                let mut args = conc.key(&ranks(st.g("k")));
                for (i, &rk) in vb.iter().enumerate() {
                    if rk > 0 {
                        args.push(conc.vvals[i][rk - 1].clone());
                    }
                }
                args.extend(conc.val(&ranks(st.g("to"))));
                let (o, _) = r.act(&format!("do_upd_{shape}"), args);
                let want_ok = st.s("out") == "ok";
                let partial = shape.contains('b') && shape.contains('q');
                match (&o, want_ok) {
                    (Outcome::Ok, true) | (Outcome::Internal, false) => {}
                    (Outcome::Internal, true) if partial => {
                        return Err(Fail {
                            step: si,
                            key: "C29:update:partial-from".into(),
                            msg: "update of an existing fact whose bound `from` fields match is rejected (InvalidFact) when other value fields are `?`".into(),
                            obs: json!({"step": st, "shape": shape}),
                        });
                    }
                    (_, true) => {
                        return Err(Fail { step: si, key: "C29:update:rejected".into(), msg: format!("update of an existing, matching fact ended with {}", o.name()), obs: json!({"step": st}) });
                    }
                    (_, false) => {
                        return Err(Fail {
                            step: si,
                            key: "C29:update:accepted".into(),
                            msg: format!("update of an absent fact / with non-matching `from` values ended with {} (model: InvalidFact, store unchanged)", o.name()),
                            obs: json!({"step": st}),
                        });
                    }
                }
            }
            "observe" => {
                let kb = ranks(st.g("kb"));
                let vb = ranks(st.g("vb"));
                let shape = shape_of(st.b("vg"), &vb);
                let mut args = conc.key(&kb);
                for (i, &rk) in vb.iter().enumerate() {
                    if rk > 0 {
                        args.push(conc.vvals[i][rk - 1].clone());
                    }
                }
                let res = st.g("res");
                let lim: Vec<i64> = res.a("limits").iter().map(|x| x.as_i64().unwrap()).collect();
                if lim != LIMITS {
                    return Err(tool(format!("behaviour uses limits {lim:?}, engine renders {LIMITS:?}")));
                }
                let (o, sink) = r.act(&format!("do_obs_{}_{shape}", kb.len()), args.clone());
                if o != Outcome::Ok || sink.effects.len() != 1 {
                    return Err(Fail {
                        step: si,
                        key: "C29:observe:failed".into(),
                        msg: format!("query command ended with {} and {} effects", o.name(), sink.effects.len()),
                        obs: json!({"step": st}),
                    });
                }
                let e = &sink.effects[0];
                let ej = rt::effect_json(e);
                let q = res.g("query");
                let found = e.name.as_str() == "ObsR";
                let mk = |key: &str, msg: String| Fail { step: si, key: key.into(), msg, obs: json!({"step": st, "effect": ej.clone()}) };
                if found != q.b("found") {
                    return Err(mk("C29:query", format!("query found={} but the model says found={}", found, q.b("found"))));
                }
                if found {
                    let want = conc_fact(&conc, q);
                    let got = effect_fact(e, nk, nv);
                    if want != got {
                        return Err(mk("C29:query", format!("query returned {} but the first match in key order is {}", rt::fact_json(&got), rt::fact_json(&want))));
                    }
                }
                let bfield = |n: String| rt::field(e, &n).and_then(|v| if let Value::Bool(b) = v { Some(*b) } else { None });
                let ifield = |n: String| rt::field(e, &n).and_then(|v| if let Value::Int(b) = v { Some(*b) } else { None });
                if bfield("e".into()) != Some(res.b("exists")) {
                    return Err(mk("C29:exists", format!("exists = {:?}, model {}", bfield("e".into()), res.b("exists"))));
                }
                for (i, n) in LIMITS.iter().enumerate() {
                    let wc = res.a("count")[i].as_i64();
                    if ifield(format!("c{n}")) != wc {
                        return Err(mk("C29:count_up_to", format!("count_up_to {n} = {:?}, model {:?}", ifield(format!("c{n}")), wc)));
                    }
                    for (p, name) in [("l", "at_least"), ("m", "at_most"), ("x", "exactly")] {
                        let w = res.a(name)[i].as_bool();
                        if bfield(format!("{p}{n}")) != w {
                            return Err(mk(&format!("C29:{name}"), format!("{name} {n} = {:?}, model {:?}", bfield(format!("{p}{n}")), w)));
                        }
                    }
                }
                // map
                let (o, sink) = r.act(&format!("do_map_{}_{shape}", kb.len()), args);
                let got: Vec<StoredFact> = sink.effects.iter().map(|e| effect_fact(e, nk, nv)).collect();
                let want = conc_store(&conc, res.g("map"));
                if o != Outcome::Ok {
                    return Err(Fail { step: si, key: "C29:map:failed".into(), msg: format!("map action ended with {}", o.name()), obs: json!({"step": st}) });
                }
                if got != want {
                    // classify: did it visit the whole prefix range, ignoring the bound value fields?
                    let kbv = conc.key(&kb);
                    let unfiltered: Vec<StoredFact> = conc_store(&conc, st.g("store"))
                        .into_iter()
                        .filter(|f| f.keys.iter().zip(&kbv).all(|((_, a), b)| a == b))
                        .collect();
                    let (key, msg) = if shape.contains('b') && got == unfiltered {
                        ("C29:map:value-filter-ignored", "map visits every fact with the bound leading keys; the bound value fields of the literal are not applied")
                    } else {
                        ("C29:map", "map visits a different sequence of facts than the model (set or key order)")
                    };
                    return Err(Fail {
                        step: si,
                        key: key.into(),
                        msg: msg.into(),
                        obs: json!({"step": st, "want": facts_json(&want), "got": facts_json(&got)}),
                    });
                }
                stats.observes += 1;
            }
            o => return Err(tool(format!("unknown op {o}"))),
        }
        // projection after every step: the stored fact set, in storage iteration order
        let want = conc_store(&conc, st.g("store"));
        let got = r.store().map_err(tool)?;
        if got != want {
            return Err(Fail {
                step: si,
                key: format!("C29:store:{op}"),
                msg: format!("stored facts after `{op}` differ from the model (set, values or key order)"),
                obs: json!({"step": st, "want": facts_json(&want), "got": facts_json(&got)}),
            });
        }
    }
    Ok(r.drift)
}

#[derive(Default)]
struct Stats {
    compiled: u64,
    steps: u64,
    observes: u64,
}

pub fn run(args: &Args) {
    check_tables();
    let mut out = args.out();
    let mut cache: HashMap<Schema, Result<Module, String>> = HashMap::new();
    let mut stats = Stats::default();
    if let Some(p) = args.opts.get("dump-policy") {
        // debugging aid: render the policy of the first behaviour's schema
        let b = &args.read_input()[0];
        std::fs::write(p, render(&Schema::parse(b.g("schema")))).unwrap_or_else(|e| vrt::die(&format!("{e}")));
    }
    for (i, b) in args.read_input().iter().enumerate() {
        match run_behaviour(b, &mut cache, &mut stats) {
            Ok(drift) => out.emit(json!({"i": i, "ok": true, "step": -1, "drift": drift})),
            Err(f) if f.key == "TOOL" => vrt::die(&format!("behaviour {i}: {}", f.msg)),
            Err(f) => out.fail(i, f.step, &f.key, &f.msg, f.obs),
        }
    }
    eprintln!("facts: {} schemas compiled, {} steps, {} observes", stats.compiled, stats.steps, stats.observes);
    out.finish();
    let _: Option<Identifier> = None;
}
