//! `vh-crash` — crash-consistency engine for the file-backed linear storage (C15).
//!
//! * `record`: run the seeded workload on `LinearStorageProvider<FileManager>` with the I/O
//!   recorder installed; write `trace.ndjson` (for `Trace_LinearFile`) and `crashlog.ndjson`
//!   (for `LinearFileCrash`) into `outdir`.
//! * `replay`: input = TLC's REPLAY records of `LinearFileCrash` sorted by `sync`; re-run the
//!   same workload, compute the state of every completed commit from its clean image, then
//!   materialise every crash plan, reopen it through the real open path and decide C15.
mod export;
mod recrash;
mod replay;
mod snap;
mod workload;

use std::io::Write as _;

use vrt::{J, Value, json};

fn recording(tier: &str, seed: u64) -> (workload::Recording, String) {
    let dir = workload::scratch_dir("rec");
    let cfg = workload::Cfg::for_tier(tier, seed);
    let rec = workload::record(&dir, &cfg);
    let _ = std::fs::remove_dir_all(&dir);
    let rec = rec.unwrap_or_else(|e| vrt::die(&format!("workload failed: {e}")));
    let mut text = String::new();
    for v in export::crashlog(&rec, true) {
        text.push_str(&v.to_string());
    }
    for s in &rec.snaps {
        text.push_str(s);
    }
    let d = snap::digest(&text);
    (rec, d)
}

fn write_ndjson(path: &str, items: &[Value]) {
    let mut s = String::new();
    for v in items {
        s.push_str(&v.to_string());
        s.push('\n');
    }
    std::fs::write(path, s).unwrap_or_else(|e| vrt::die(&format!("write {path}: {e}")));
}

fn main() {
    let args = vrt::Args::parse();
    let tier = args.opt_str("workload", "quick");
    let dense = args.opt_bool("dense");
    match args.sub.as_str() {
        "record" => {
            let outdir = args.opt_str("outdir", ".");
            let (rec, d) = recording(&tier, args.seed);
            let tr = export::trace(&rec);
            let cl = export::crashlog(&rec, dense);
            write_ndjson(&format!("{outdir}/trace.ndjson"), &tr);
            write_ndjson(&format!("{outdir}/crashlog.ndjson"), &cl);
            let writes = rec.events.iter().filter(|e| matches!(e, aranya_runtime::linear::libc::verif::IoEvent::Write { .. })).count();
            let mut out = args.out();
            out.ok(0, json!({"digest": d, "events": rec.events.len(), "writes": writes,
                             "commit_calls": rec.snaps.len(), "commands": rec.ncmds.last(),
                             "trace_len": tr.len(), "graph": rec.graph.to_string()}));
            out.finish();
        }
        "replay" => {
            let items = args.read_input();
            let (rec, d) = recording(&tier, args.seed);
            let want = args.opt_str("digest", "");
            if !want.is_empty() && want != d {
                vrt::die(&format!("workload is not reproducible: digest {d} != recorded {want}"));
            }
            let mut rp = replay::Replayer::new(&rec, dense, "img");
            let limit = std::time::Duration::from_secs(args.opt_u64("limit", 60));
            // results are streamed; a watchdog turns a hang of the code under test (e.g. a cyclic
            // chain read from a corrupt image) into a failing result for the current item
            let outp = args.output.clone().unwrap_or_else(|| vrt::die("--out required"));
            let outf = std::fs::File::create(&outp).unwrap_or_else(|e| vrt::die(&format!("create {outp}: {e}")));
            let out = std::sync::Arc::new(std::sync::Mutex::new(std::io::BufWriter::new(outf)));
            let cur: std::sync::Arc<std::sync::Mutex<Option<(usize, std::time::Instant)>>> = Default::default();
            {
                let (out, cur) = (out.clone(), cur.clone());
                std::thread::spawn(move || loop {
                    std::thread::sleep(std::time::Duration::from_millis(250));
                    let c = *cur.lock().unwrap_or_else(|p| p.into_inner());
                    if let Some((i, t0)) = c {
                        if t0.elapsed() > limit {
                            let mut o = out.lock().unwrap_or_else(|p| p.into_inner());
                            let v = json!({"i": i, "ok": false, "step": -1, "key": "C15:hang", "obs": {},
                                "msg": format!("reopening / reading / committing on the crash image did not finish within {}s (endless loop in the code under test on this image)", limit.as_secs())});
                            let _ = writeln!(o, "{v}");
                            let _ = o.flush();
                            let _ = std::fs::remove_dir_all(workload::scratch_dir_path("img"));
                            std::process::exit(0);
                        }
                    }
                });
            }
            let emit = |i: usize, r: Result<Value, replay::Failure>| {
                let v = match r {
                    Ok(obs) => json!({"i": i, "ok": true, "step": -1, "obs": obs}),
                    Err(f) => json!({"i": i, "ok": false, "step": -1, "key": f.key, "msg": f.msg, "obs": f.obs}),
                };
                let _ = writeln!(out.lock().unwrap_or_else(|p| p.into_inner()), "{v}");
            };
            let set = |v: Option<usize>| {
                *cur.lock().unwrap_or_else(|p| p.into_inner()) = v.map(|i| (i, std::time::Instant::now()));
            };
            // pass 1: states of the completed commits
            for (i, it) in items.iter().enumerate() {
                if it.s("t") == "commit" {
                    set(Some(i));
                    let r = rp.commit_state(it.u("j"), it.u("sync") as usize).unwrap_or_else(|e| vrt::die(&e));
                    set(None);
                    emit(i, r.map(|()| json!({"commit": it.u("j")})));
                }
            }
            // pass 2: returns and crash plans
            rp.start_pass2();
            for (i, it) in items.iter().enumerate() {
                match it.s("t") {
                    "commit" => {}
                    "ret" => {
                        let r = rp.check_ret(it.u("k") as usize, it.u("last"));
                        emit(i, r.map(|()| json!({"ret": it.u("k")})));
                    }
                    "plan" => {
                        set(Some(i));
                        let r = rp.check_plan(it).unwrap_or_else(|e| vrt::die(&e));
                        set(None);
                        emit(i, r);
                    }
                    t => vrt::die(&format!("unknown item type {t}")),
                }
            }
            rp.cleanup();
            let _ = out.lock().unwrap_or_else(|p| p.into_inner()).flush();
        }
        "recrash" => {
            let mut out = args.out();
            for (i, it) in args.read_input().iter().enumerate() {
                match vrt::catch_any(|| recrash::run_one(it)) {
                    Ok(Ok(obs)) => out.ok(i, obs),
                    Ok(Err((key, msg, obs))) if key == "C15:tool" => { let _ = obs; vrt::die(&msg) }
                    Ok(Err((key, msg, obs))) => out.fail(i, -1, &key, &msg, obs),
                    Err(p) => out.fail(i, -1, "C15:panic", &format!("panic: {p}"), json!({})),
                }
            }
            out.finish();
        }
        s => vrt::die(&format!("unknown subcommand {s}")),
    }
}
