//! `vh-crash` — crash-consistency engine for the file-backed linear storage (C15).
fn main() {
    let args = vrt::Args::parse();
    match args.sub.as_str() {
        s => vrt::die(&format!("unknown subcommand {s}")),
    }
}
