//! S2I: concretise TLC's crash plans (`LinearFileCrash`) into crash images of the recorded
//! graph file, reopen them through the real open path and decide C15.
use std::{
    collections::BTreeMap,
    fs::{File, OpenOptions},
    os::unix::fs::FileExt as _,
    path::PathBuf,
};

use aranya_runtime::{
    MemSpill, RuntimeBuffers, StorageProvider,
    linear::libc::verif::{self, IoEvent},
    testing::protocol::TestActions,
};
use vrt::{J, Value, json};

use crate::{
    export::tear_points,
    snap::{self, digest},
    workload::{self, Recording},
};

pub struct Failure {
    pub key: String,
    pub msg: String,
    pub obs: Value,
}

fn fail<T>(key: &str, msg: String, obs: Value) -> Result<T, Failure> {
    Err(Failure { key: key.to_string(), msg, obs })
}

pub struct Replayer<'a> {
    rec: &'a Recording,
    dense: bool,
    dir: PathBuf,
    path: PathBuf,
    /// durable bytes / size / existence of the file after all events with id < upto
    model: Vec<u8>,
    size: u64,
    exists: bool,
    upto: usize,
    cur_sync: usize,
    /// id of the sync the on-disk base file corresponds to (usize::MAX = none written yet)
    base_of: usize,
    /// S_j: observable state of completed commit j
    pub states: BTreeMap<u64, String>,
    pub images: u64,
}

impl<'a> Replayer<'a> {
    pub fn new(rec: &'a Recording, dense: bool, tag: &str) -> Self {
        let dir = workload::scratch_dir(tag);
        let path = dir.join(rec.graph.to_string());
        Replayer { rec, dense, dir, path, model: Vec::new(), size: 0, exists: false, upto: 1, cur_sync: 0,
                   base_of: usize::MAX, states: BTreeMap::new(), images: 0 }
    }

    pub fn cleanup(&self) {
        let _ = std::fs::remove_dir_all(&self.dir);
    }

    fn reset(&mut self) {
        self.model.clear();
        self.size = 0;
        self.exists = false;
        self.upto = 1;
        self.cur_sync = 0;
        self.base_of = usize::MAX;
    }

    fn put(model: &mut Vec<u8>, size: &mut u64, off: u64, bytes: &[u8]) {
        let end = off as usize + bytes.len();
        if model.len() < end {
            model.resize(end, 0);
        }
        model[off as usize..end].copy_from_slice(bytes);
        *size = (*size).max(end as u64);
    }

    /// make everything issued before event `sync` durable in the model
    fn advance(&mut self, sync: usize) -> Result<(), String> {
        if sync < self.cur_sync {
            return Err(format!("items not sorted by sync: {sync} after {}", self.cur_sync));
        }
        self.cur_sync = sync;
        while self.upto < sync {
            match &self.rec.events[self.upto - 1] {
                IoEvent::Create { .. } => self.exists = true,
                IoEvent::Write { offset, bytes, .. } => {
                    Self::put(&mut self.model, &mut self.size, *offset as u64, bytes)
                }
                IoEvent::Fallocate { offset, len, .. } => self.size = self.size.max((*offset + *len) as u64),
                IoEvent::Open { .. } | IoEvent::Sync { .. } | IoEvent::Fsync { .. } => {}
            }
            self.upto += 1;
        }
        Ok(())
    }

    /// (re)write the on-disk base file from the model
    fn write_base(&mut self, sync: usize) -> Result<(), String> {
        if self.base_of == sync {
            return Ok(());
        }
        let _ = std::fs::remove_file(&self.path);
        if self.exists {
            let f = File::create(&self.path).map_err(|e| format!("create image: {e}"))?;
            f.set_len(self.size).map_err(|e| format!("set_len: {e}"))?;
            // skip the (large) all-zero stretches
            let mut i = 0;
            let m = &self.model;
            while i < m.len() {
                if m[i] == 0 {
                    i += 1;
                    continue;
                }
                let mut j = i;
                let mut zeros = 0;
                while j < m.len() && zeros < 4096 {
                    zeros = if m[j] == 0 { zeros + 1 } else { 0 };
                    j += 1;
                }
                f.write_all_at(&m[i..j], i as u64).map_err(|e| format!("write image: {e}"))?;
                i = j;
            }
        }
        self.base_of = sync;
        Ok(())
    }

    fn restore(&mut self, f: Option<&File>, touched: &[(u64, usize)]) -> Result<(), String> {
        let Some(f) = f else {
            let _ = std::fs::remove_file(&self.path);
            return Ok(());
        };
        for &(off, n) in touched {
            let mut buf = vec![0u8; n];
            let s = off as usize;
            if s < self.model.len() {
                let e = (s + n).min(self.model.len());
                buf[..e - s].copy_from_slice(&self.model[s..e]);
            }
            f.write_all_at(&buf, off).map_err(|e| format!("restore: {e}"))?;
        }
        f.set_len(self.size).map_err(|e| format!("restore set_len: {e}"))?;
        Ok(())
    }

    /// pass 1: the state of completed commit j = what the clean image at `sync` opens as
    pub fn commit_state(&mut self, j: u64, sync: usize) -> Result<Result<(), Failure>, String> {
        self.advance(sync)?;
        self.write_base(sync)?;
        let r = vrt::catch_any(|| {
            let mut c = workload::open_client(&self.dir).map_err(|e| ("C15:clean-open", e))?;
            let st = c.provider().get_storage(self.rec.graph).map_err(|e| ("C15:clean-open", format!("get_storage: {e}")))?;
            snap::snapshot(st).map_err(|e| ("C15:clean-unreadable", e))
        });
        match r {
            Ok(Ok(s)) => {
                self.states.insert(j, s.text);
                Ok(Ok(()))
            }
            Ok(Err((key, e))) => Ok(fail(key, format!("clean image after completed commit {j} (sync #{sync}) does not open/read: {e}"), json!({"j": j, "sync": sync}))),
            Err(p) => Ok(fail("C15:panic", format!("panic opening clean image of commit {j}: {p}"), json!({"j": j}))),
        }
    }

    pub fn start_pass2(&mut self) {
        self.reset();
    }

    /// the k-th committing API call returned: the live state must be the last completed commit
    pub fn check_ret(&self, k: usize, last: u64) -> Result<(), Failure> {
        let live = &self.rec.snaps[k - 1];
        match self.states.get(&last) {
            None => fail("C15:returned-before-durable", format!("committing call {k} returned but no commit is complete on stable storage (no root write followed by a sync)"), json!({"k": k, "last": last})),
            Some(s) if s == live => Ok(()),
            Some(s) => fail("C15:returned-before-durable", format!("committing call {k} returned state {} but the last commit complete on stable storage (#{last}) reopens as {}", digest(live), digest(s)), json!({"k": k, "last": last})),
        }
    }

    /// one crash plan
    pub fn check_plan(&mut self, p: &Value) -> Result<Result<Value, Failure>, String> {
        let sync = p.u("sync") as usize;
        let ids: Vec<usize> = arr(p.g("ids")).iter().map(|v| v.as_u64().unwrap_or(0) as usize).collect();
        let plan: Vec<usize> = arr(p.g("plan")).iter().map(|v| v.as_u64().unwrap_or(0) as usize).collect();
        let allowed: Vec<u64> = arr(p.g("allowed")).iter().map(|v| v.as_u64().unwrap_or(0)).collect();
        let err_ok = p.b("err_ok");
        if ids.len() != plan.len() {
            return Err("ids/plan length mismatch".into());
        }
        self.advance(sync)?;
        self.write_base(sync)?;
        self.images += 1;

        // materialise
        let mut exists = self.exists;
        let mut writes: Vec<(u64, Vec<u8>)> = Vec::new();
        let mut newsize = self.size;
        let mut desc = Vec::new();
        for (&id, &o) in ids.iter().zip(&plan) {
            match &self.rec.events.get(id - 1).ok_or("plan id out of range")? {
                IoEvent::Create { .. } => {
                    if o > 0 {
                        exists = true;
                    }
                    desc.push(format!("#{id} create {}", if o > 0 { "kept" } else { "lost" }));
                }
                IoEvent::Fallocate { offset, len, .. } => {
                    if o > 0 {
                        newsize = newsize.max((*offset + *len) as u64);
                    }
                    desc.push(format!("#{id} fallocate {}", if o > 0 { "kept" } else { "lost" }));
                }
                IoEvent::Write { offset, bytes, .. } => {
                    let tp = tear_points(*offset, bytes.len(), self.dense);
                    let n = if o == 0 { 0 } else if o == tp.len() + 1 { bytes.len() } else { *tp.get(o - 1).ok_or("tear index out of range")? };
                    if n > 0 {
                        writes.push((*offset as u64, bytes[..n].to_vec()));
                    }
                    desc.push(format!("#{id} write@{offset}+{} {}", bytes.len(),
                        if n == 0 { "lost".to_string() } else if n == bytes.len() { "kept".to_string() } else { format!("torn@{n}") }));
                }
                _ => return Err(format!("plan names event #{id} which is not a write")),
            }
        }
        let obs = json!({"pt": p.g("pt"), "sync": sync, "plan": desc, "allowed": allowed, "err_ok": err_ok});
        let file = if exists {
            let f = OpenOptions::new().read(true).write(true).create(true).truncate(false).open(&self.path)
                .map_err(|e| format!("open image: {e}"))?;
            let mut touched = Vec::new();
            for (off, b) in &writes {
                f.write_all_at(b, *off).map_err(|e| format!("write plan: {e}"))?;
                touched.push((*off, b.len()));
            }
            let cur = f.metadata().map_err(|e| format!("stat: {e}"))?.len();
            if newsize > cur {
                f.set_len(newsize).map_err(|e| format!("set_len: {e}"))?;
            }
            Some((f, touched))
        } else {
            None
        };

        // reopen + decide, recording what the check itself writes so it can be undone
        verif::install();
        let verdict = vrt::catch_any(|| self.decide(&allowed, err_ok, p.u("pt")));
        let evs = verif::uninstall();
        let verdict = match verdict {
            Ok(v) => v,
            Err(pn) => fail("C15:panic", format!("panic while reopening the crash image: {pn}"), json!({})),
        };

        // undo
        match file {
            Some((f, mut touched)) => {
                for e in &evs {
                    if let IoEvent::Write { offset, bytes, .. } = e {
                        touched.push((*offset as u64, bytes.len()));
                    }
                }
                if self.exists {
                    self.restore(Some(&f), &touched)?;
                } else {
                    drop(f);
                    self.restore(None, &[])?;
                }
            }
            None => self.restore(None, &[])?,
        }
        if !self.exists {
            self.base_of = usize::MAX;
            self.write_base(sync)?;
        }
        Ok(match verdict {
            Ok(mut v) => {
                v["plan"] = obs;
                Ok(v)
            }
            Err(mut f) => {
                f.obs = json!({"case": obs, "detail": f.obs});
                Err(f)
            }
        })
    }

    fn decide(&self, allowed: &[u64], err_ok: bool, pt: u64) -> Result<Value, Failure> {
        let graph = self.rec.graph;
        let some_commit_completed = !err_ok;
        let mut c = match workload::open_client(&self.dir) {
            Ok(c) => c,
            Err(e) => return fail("C15:tool", e, json!({})),
        };
        // 1. open
        let s = {
            let st = match c.provider().get_storage(graph) {
                Ok(st) => st,
                Err(e) => {
                    return if some_commit_completed {
                        fail("C15:open-error-after-commit", format!("reopening after the crash fails ({e}) although commit #{} had completed", allowed[0]), json!({}))
                    } else {
                        Ok(json!({"recovered": "error"}))
                    };
                }
            };
            // 2. everything reachable is readable ...
            match snap::snapshot(st) {
                Ok(s) => s,
                Err(e) => return fail("C15:unreadable", format!("the reopened state is not readable: {e}"), json!({})),
            }
        };
        // 3. ... and is exactly an allowed commit
        let hit = allowed.iter().copied().find(|j| self.states.get(j).is_some_and(|t| *t == s.text));
        let Some(j) = hit else {
            let other = self.states.iter().find(|(_, t)| **t == s.text).map(|(j, _)| *j);
            return match other {
                Some(o) => fail("C15:wrong-commit", format!("the reopened state is commit #{o}, allowed: {allowed:?}"), json!({"recovered": o})),
                None => fail("C15:unknown-state", format!("the reopened state ({} commands, {}) is not the state of any commit; allowed: {allowed:?}", s.ncmds, digest(&s.text)), json!({})),
            };
        };
        // 4. the reopened file keeps working: a further commit, then a clean reopen
        let mut bufs = RuntimeBuffers::<<workload::FileProvider as StorageProvider>::Segment>::new();
        if let Err(e) = c.action(graph, &mut workload::sink(), TestActions::SetValue(900_000 + pt, 7), &mut bufs, MemSpill::new) {
            return fail("C15:commit-after-recovery", format!("a commit on the reopened file fails: {e}"), json!({"recovered": j}));
        }
        let s2 = match c.provider().get_storage(graph).map_err(|e| e.to_string()).and_then(|st| snap::snapshot(st)) {
            Ok(s2) => s2,
            Err(e) => return fail("C15:commit-after-recovery", format!("state after a commit on the reopened file is unreadable: {e}"), json!({"recovered": j})),
        };
        if s2.ncmds <= s.ncmds {
            return fail("C15:commit-after-recovery", "a commit on the reopened file added no command".into(), json!({"recovered": j}));
        }
        drop(c);
        let mut c2 = match workload::open_client(&self.dir) {
            Ok(c) => c,
            Err(e) => return fail("C15:tool", e, json!({})),
        };
        let s3 = match c2.provider().get_storage(graph).map_err(|e| e.to_string()).and_then(|st| snap::snapshot(st)) {
            Ok(s3) => s3,
            Err(e) => return fail("C15:reopen-after-recovery", format!("reopen after a commit on the recovered file fails: {e}"), json!({"recovered": j})),
        };
        if s3.text != s2.text {
            return fail("C15:reopen-after-recovery", "reopen after a commit on the recovered file shows a different state".into(), json!({"recovered": j}));
        }
        Ok(json!({"recovered": j}))
    }
}

fn arr(v: &Value) -> Vec<Value> {
    match v {
        Value::Array(a) => a.clone(),
        // TLC's ToJson prints an empty sequence/function as {} or []
        _ => Vec::new(),
    }
}
