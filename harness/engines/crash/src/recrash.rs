//! Directed two-crash scenario (concretisation of TLC's counterexample for
//! `MC_LinearFile_recrash.cfg`): crash 1 hits the root write of commit 2, the file is reopened
//! and a different commit 2' is made, crash 2 hits the root write of 2'.  The input chooses,
//! for each of the two crashes, whether the root's 4-byte length prefix and its body persist.
use std::{fs::File, os::unix::fs::FileExt as _, path::Path};

use aranya_runtime::{
    GraphId, MemSpill, RuntimeBuffers, StorageProvider,
    linear::libc::verif::{self, IoEvent},
    testing::protocol::TestActions,
};
use vrt::{J, Value, json};

use crate::{export::in_root_slot, snap, workload};

fn apply(model: &mut Vec<u8>, evs: &[IoEvent], skip: &[usize]) {
    for (i, e) in evs.iter().enumerate() {
        if skip.contains(&i) {
            continue;
        }
        match e {
            IoEvent::Write { offset, bytes, .. } => {
                let end = *offset as usize + bytes.len();
                if model.len() < end {
                    model.resize(end, 0);
                }
                model[*offset as usize..end].copy_from_slice(bytes);
            }
            IoEvent::Fallocate { offset, len, .. } => {
                let end = (*offset + *len) as usize;
                if model.len() < end {
                    model.resize(end, 0);
                }
            }
            _ => {}
        }
    }
}

/// indices of the last (length prefix, body) root writes in `evs`
fn last_root(evs: &[IoEvent]) -> Option<(usize, usize)> {
    let idx: Vec<usize> = evs.iter().enumerate()
        .filter(|(_, e)| matches!(e, IoEvent::Write { offset, .. } if in_root_slot(*offset)))
        .map(|(i, _)| i).collect();
    let n = idx.len();
    (n >= 2).then(|| (idx[n - 2], idx[n - 1]))
}

fn write_image(dir: &Path, graph: GraphId, model: &[u8]) -> Result<(), String> {
    let p = dir.join(graph.to_string());
    let _ = std::fs::remove_file(&p);
    let f = File::create(&p).map_err(|e| format!("create image: {e}"))?;
    f.write_all_at(model, 0).map_err(|e| format!("write image: {e}"))
}

fn state(dir: &Path, graph: GraphId) -> Result<String, String> {
    let mut c = workload::open_client(dir)?;
    let st = c.provider().get_storage(graph).map_err(|e| format!("open: {e}"))?;
    Ok(snap::snapshot(st)?.text)
}

pub fn run_one(it: &Value) -> Result<Value, (String, String, Value)> {
    let p1: Vec<u64> = it.a("p1").iter().map(|v| v.as_u64().unwrap_or(0)).collect();
    let p2: Vec<u64> = it.a("p2").iter().map(|v| v.as_u64().unwrap_or(0)).collect();
    let variant = it.u("variant");
    let tool = |e: String| ("C15:tool".to_string(), e, json!({}));
    let d1 = workload::scratch_dir("rc1");
    let d2 = workload::scratch_dir("rc2");
    let r = (|| {
        // history 1: commit 1 (graph), commit 2 (an action); crash 1 at the root write of commit 2
        verif::install();
        let mut a = workload::open_client(&d1).map_err(tool)?;
        let graph = a.new_graph(&7u64.to_be_bytes(), TestActions::Init(7), &mut workload::sink())
            .map_err(|e| tool(format!("new_graph: {e}")))?;
        let s1 = snap::snapshot(a.provider().get_storage(graph).map_err(|e| tool(e.to_string()))?).map_err(tool)?.text;
        let mut bufs = RuntimeBuffers::<<workload::FileProvider as StorageProvider>::Segment>::new();
        a.action(graph, &mut workload::sink(), TestActions::SetValue(1, 1), &mut bufs, MemSpill::new)
            .map_err(|e| tool(format!("action: {e}")))?;
        let s2 = snap::snapshot(a.provider().get_storage(graph).map_err(|e| tool(e.to_string()))?).map_err(tool)?.text;
        drop(a);
        let ev1 = verif::uninstall();
        let (h1, b1) = last_root(&ev1).ok_or_else(|| tool("no root write".into()))?;
        let mut model = Vec::new();
        let mut skip = Vec::new();
        if p1[0] == 0 { skip.push(h1); }
        if p1[1] == 0 { skip.push(b1); }
        apply(&mut model, &ev1, &skip);
        write_image(&d2, graph, &model).map_err(tool)?;
        let after1 = state(&d2, graph);
        let rec1 = match &after1 {
            Ok(s) if *s == s1 => 1,
            Ok(s) if *s == s2 => 2,
            Ok(_) => return Err(("C15:recrash:first".into(), "after the first crash the file opens as neither commit 1 nor commit 2".into(), json!({}))),
            Err(e) => return Err(("C15:recrash:first".into(), format!("after the first crash the file does not open: {e}"), json!({}))),
        };
        // history 2 on the recovered file: a different commit; crash 2 at its root write
        verif::install();
        let mut c = workload::open_client(&d2).map_err(tool)?;
        let act = match variant % 3 {
            0 => TestActions::SetValue(1_000_000_007 * (variant + 1), u64::MAX - variant),
            1 => TestActions::NoOp(variant, 2),
            _ => TestActions::SetValuePriority(variant, 1 << 40, 1 << 20),
        };
        c.action(graph, &mut workload::sink(), act, &mut bufs, MemSpill::new)
            .map_err(|e| ("C15:commit-after-recovery".to_string(), format!("commit after first recovery: {e}"), json!({})))?;
        let s3 = snap::snapshot(c.provider().get_storage(graph).map_err(|e| tool(e.to_string()))?).map_err(tool)?.text;
        drop(c);
        let ev2 = verif::uninstall();
        let (h2, b2) = last_root(&ev2).ok_or_else(|| tool("no root write in history 2".into()))?;
        let mut skip = Vec::new();
        if p2[0] == 0 { skip.push(h2); }
        if p2[1] == 0 { skip.push(b2); }
        apply(&mut model, &ev2, &skip);
        write_image(&d2, graph, &model).map_err(tool)?;
        let base = if rec1 == 1 { &s1 } else { &s2 };
        let obs = json!({"recovered_after_crash1": rec1});
        match state(&d2, graph) {
            Ok(s) if s == *base || s == s3 => Ok(json!({"recovered_after_crash1": rec1, "after_crash2": if s == s3 { "in-progress" } else { "last" }})),
            Ok(s) if rec1 == 1 && s == s2 => Err(("C15:recrash:stale-root".into(), "after the second crash the file opens as the ABORTED commit of the first crash (stale root revived)".into(), obs)),
            Ok(_) => Err(("C15:recrash:stale-root".into(), "after the second crash the file opens as a state that is neither the recovered commit nor the commit in progress".into(), obs)),
            Err(e) => Err(("C15:recrash:stale-root".into(), format!("after the second crash (a commit had completed) the file does not open/read: {e}"), obs)),
        }
    })();
    let _ = verif::uninstall();
    let _ = std::fs::remove_dir_all(&d1);
    let _ = std::fs::remove_dir_all(&d2);
    r
}
