//! Export of a recording: the ndjson trace for `Trace_LinearFile` (I2S) and the abstract log
//! for `LinearFileCrash` (S2I); tear candidates of a write.
use aranya_runtime::linear::libc::verif::IoEvent;
use vrt::{Value, json};

use crate::workload::{Mark, Recording};

pub const SLOT_A: i64 = 4096;
pub const SLOT_B: i64 = 8192;
pub const FREE_START: i64 = 12288;

pub fn in_root_slot(off: i64) -> bool {
    (SLOT_A..FREE_START).contains(&off)
}

fn varint(b: &[u8], pos: &mut usize) -> Option<u64> {
    let mut v: u64 = 0;
    for shift in (0..70).step_by(7) {
        let x = *b.get(*pos)?;
        *pos += 1;
        v |= u64::from(x & 0x7f).checked_shl(shift).unwrap_or(0);
        if x & 0x80 == 0 {
            return Some(v);
        }
    }
    None
}

fn opt(b: &[u8], pos: &mut usize) -> Option<u64> {
    let t = *b.get(*pos)?;
    *pos += 1;
    match t {
        0 => Some(0),
        1 => varint(b, pos),
        _ => None,
    }
}

/// (generation, heads, fact_cache, free_offset) of a postcard-serialized `Root`.
pub fn decode_root(b: &[u8]) -> Option<(u64, u64, u64, i64)> {
    let mut p = 0;
    let generation = varint(b, &mut p)?;
    let heads = opt(b, &mut p)?;
    let fc = opt(b, &mut p)?;
    let z = varint(b, &mut p)?;
    let free = ((z >> 1) as i64) ^ -((z & 1) as i64);
    let _checksum = varint(b, &mut p)?;
    Some((generation, heads, fc, free))
}

/// Candidate tear positions (proper prefix lengths) of a write, ascending.
pub fn tear_points(off: i64, n: usize, dense: bool) -> Vec<usize> {
    if n < 2 {
        return Vec::new();
    }
    let mut v: Vec<usize> = Vec::new();
    if in_root_slot(off) && n > 4 {
        // the checksummed root: every byte boundary
        v.extend(1..n);
    } else if n <= 4 {
        if dense {
            v.extend(1..n);
        } else {
            v.push(n - 1);
        }
    } else {
        v.push(n / 2);
        if dense {
            v.push(1);
            v.push(n - 1);
            // sector boundaries inside the write (first two and the last)
            let first = (512 - (off.rem_euclid(512)) as usize) % 512;
            let mut s: Vec<usize> = (0..).map(|i| first + i * 512).take_while(|&p| p < n).filter(|&p| p > 0).collect();
            if s.len() > 3 {
                let l = s[s.len() - 1];
                s.truncate(2);
                s.push(l);
            }
            v.extend(s);
        }
    }
    v.sort_unstable();
    v.dedup();
    v
}

/// Recorded events interleaved with the markers, in order.
pub enum Item<'a> {
    Io(usize, &'a IoEvent),
    Mark(&'a Mark),
}

pub fn items(rec: &Recording) -> Vec<Item<'_>> {
    let mut out = Vec::new();
    let mut m = 0;
    for (i, e) in rec.events.iter().enumerate() {
        while m < rec.marks.len() && rec.marks[m].0 <= i {
            out.push(Item::Mark(&rec.marks[m].1));
            m += 1;
        }
        out.push(Item::Io(i + 1, e));
    }
    while m < rec.marks.len() {
        out.push(Item::Mark(&rec.marks[m].1));
        m += 1;
    }
    out
}

fn tev(ev: &str) -> Value {
    json!({"ev": ev, "off": 0, "n": 0, "len": 0, "gen": 0, "heads": 0, "free": 0, "k": 0})
}

/// ndjson events for `Trace_LinearFile`.
pub fn trace(rec: &Recording) -> Vec<Value> {
    let mut out = Vec::new();
    for it in items(rec) {
        match it {
            Item::Mark(Mark::Begin(_)) => {}
            Item::Mark(Mark::End(k)) => {
                let mut v = tev("ret");
                v["k"] = json!(k);
                out.push(v);
            }
            Item::Mark(Mark::Close) => out.push(tev("close")),
            Item::Io(_, IoEvent::Create { .. }) => out.push(tev("create")),
            Item::Io(_, IoEvent::Open { .. }) => out.push(tev("open")),
            Item::Io(_, IoEvent::Sync { .. }) => out.push(tev("sync")),
            Item::Io(_, IoEvent::Fsync { .. }) => out.push(tev("fsync")),
            Item::Io(_, IoEvent::Fallocate { offset, len, .. }) => {
                let mut v = tev("fallocate");
                v["len"] = json!(offset + len);
                out.push(v);
            }
            Item::Io(_, IoEvent::Write { offset, bytes, .. }) => {
                let mut v = tev("write");
                v["off"] = json!(offset);
                v["n"] = json!(bytes.len());
                if bytes.len() == 4 {
                    v["len"] = json!(u32::from_be_bytes([bytes[0], bytes[1], bytes[2], bytes[3]]));
                } else if in_root_slot(*offset) {
                    if let Some((g, h, _fc, f)) = decode_root(bytes) {
                        v["gen"] = json!(g);
                        v["heads"] = json!(h);
                        v["free"] = json!(f);
                    }
                }
                out.push(v);
            }
        }
    }
    out
}

/// ndjson records for `LinearFileCrash`.
pub fn crashlog(rec: &Recording, dense: bool) -> Vec<Value> {
    let mut out = Vec::new();
    for it in items(rec) {
        match it {
            Item::Mark(Mark::End(k)) => out.push(json!({"ev": "ret", "k": k})),
            Item::Mark(_) => {}
            Item::Io(id, IoEvent::Create { .. }) => out.push(json!({"ev": "c", "id": id})),
            Item::Io(_, IoEvent::Open { .. }) => {}
            Item::Io(id, IoEvent::Sync { .. } | IoEvent::Fsync { .. }) => out.push(json!({"ev": "s", "id": id})),
            Item::Io(id, IoEvent::Fallocate { .. }) => out.push(json!({"ev": "f", "id": id})),
            Item::Io(id, IoEvent::Write { offset, bytes, .. }) => out.push(json!({
                "ev": "w", "id": id, "nt": tear_points(*offset, bytes.len(), dense).len(),
                "root": in_root_slot(*offset)})),
        }
    }
    out
}
