//! Abstraction function of the `crash` engine: the observable state of a graph storage
//! (heads, every reachable segment and command, every fact index reachable from them, the
//! fact cache) as a canonical string, plus owned copies of the commands.
use std::collections::BTreeMap;
use std::fmt::Write as _;

use aranya_runtime::{
    Address, CmdId, Command, Location, MaxCut, Prior, Priority, Segment as _, Storage,
};

pub const FACT_NAMES: &[&str] = &["payload"];

/// An owned command (copied out of a storage) that can be fed to `add_commands`.
#[derive(Clone, Debug)]
pub struct OwnedCmd {
    pub id: CmdId,
    pub priority: Priority,
    pub parent: Prior<Address>,
    pub policy: Option<Vec<u8>>,
    pub data: Vec<u8>,
    pub max_cut: MaxCut,
}

impl Command for OwnedCmd {
    fn priority(&self) -> Priority {
        self.priority.clone()
    }
    fn id(&self) -> CmdId {
        self.id
    }
    fn parent(&self) -> Prior<Address> {
        self.parent
    }
    fn policy(&self) -> Option<&[u8]> {
        self.policy.as_deref()
    }
    fn bytes(&self) -> &[u8] {
        &self.data
    }
}

fn hex(b: &[u8]) -> String {
    let mut s = String::with_capacity(b.len() * 2);
    for x in b {
        let _ = write!(s, "{x:02x}");
    }
    s
}

pub struct Snapshot {
    /// canonical text of the whole observable state
    pub text: String,
    /// number of reachable commands
    pub ncmds: usize,
    /// every reachable command, parents first
    pub cmds: Vec<OwnedCmd>,
}

fn facts_of<Q: aranya_runtime::Query>(q: &Q, out: &mut String) -> Result<(), String> {
    for name in FACT_NAMES {
        let it = q.query_prefix(name, &[]).map_err(|e| format!("query_prefix: {e}"))?;
        for f in it {
            let f = f.map_err(|e| format!("fact: {e}"))?;
            let _ = write!(out, " {name}[");
            for k in f.key.iter() {
                let _ = write!(out, "{},", hex(k));
            }
            let _ = write!(out, "]={}", hex(&f.value));
        }
    }
    Ok(())
}

/// Walk everything reachable from the committed heads and read it.
pub fn snapshot<S: Storage>(st: &S) -> Result<Snapshot, String> {
    let mut text = String::new();
    let heads = st.get_heads().map_err(|e| format!("get_heads: {e}"))?.clone();
    let mut stack: Vec<Location> = Vec::new();
    let _ = write!(text, "heads:");
    for h in heads.iter() {
        let _ = write!(text, " {}@{}/{}", h.id, h.segment, h.max_cut);
        stack.push(h.location());
    }
    text.push('\n');
    let mut segs: BTreeMap<u64, String> = BTreeMap::new();
    let mut cmds: Vec<OwnedCmd> = Vec::new();
    while let Some(loc) = stack.pop() {
        let key = loc.segment.get();
        if segs.contains_key(&key) {
            continue;
        }
        let seg = st.get_segment(loc).map_err(|e| format!("get_segment({loc}): {e}"))?;
        if seg.index() != loc.segment {
            return Err(format!("segment at {loc} says its index is {}", seg.index()));
        }
        let mut s = String::new();
        let lo = seg.shortest_max_cut();
        let hi = seg.longest_max_cut().map_err(|e| format!("longest_max_cut: {e}"))?;
        let _ = write!(s, "seg {key} policy={:?} prior={:?} mc={lo}..{hi} skip={:?}\n",
                       seg.policy(), seg.prior(), seg.skip_list());
        let mut mc = lo;
        loop {
            let l = Location::new(seg.index(), mc);
            let c = seg.get_command(l).ok_or_else(|| format!("get_command({l}) = None"))?;
            let _ = write!(s, "  cmd {} prio={:?} parent={:?} policy={} data={}\n", c.id(), c.priority(),
                           c.parent(), c.policy().map(hex).unwrap_or_default(), hex(c.bytes()));
            cmds.push(OwnedCmd { id: c.id(), priority: c.priority(), parent: c.parent(),
                                 policy: c.policy().map(<[u8]>::to_vec), data: c.bytes().to_vec(),
                                 max_cut: mc });
            if mc == hi {
                break;
            }
            mc = mc.checked_add(1).ok_or("max_cut overflow")?;
        }
        let fi = seg.facts().map_err(|e| format!("segment {key} facts(): {e}"))?;
        s.push_str("  facts:");
        facts_of(&fi, &mut s)?;
        s.push('\n');
        match seg.prior() {
            Prior::None => {}
            Prior::Single(p) => stack.push(p),
            Prior::Merge(a, b) => {
                stack.push(a);
                stack.push(b);
            }
        }
        segs.insert(key, s);
    }
    for s in segs.values() {
        text.push_str(s);
    }
    let fc = st.fact_cache().map_err(|e| format!("fact_cache: {e}"))?;
    text.push_str("fact_cache:");
    facts_of(&fc, &mut text)?;
    text.push('\n');
    cmds.sort_by(|a, b| (a.max_cut, a.id).cmp(&(b.max_cut, b.id)));
    Ok(Snapshot { text, ncmds: cmds.len(), cmds })
}

/// Short stable digest of a snapshot text (FNV-1a), for messages.
pub fn digest(s: &str) -> String {
    let mut h: u64 = 0xcbf2_9ce4_8422_2325;
    for b in s.bytes() {
        h ^= u64::from(b);
        h = h.wrapping_mul(0x0100_0000_01b3);
    }
    format!("{h:016x}")
}
