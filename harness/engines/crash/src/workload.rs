//! The recorded workload: a real multi-commit history on `LinearStorageProvider<FileManager>`
//! (graph creation, actions with fact inserts/deletes, a second replica whose branch is ingested
//! through a transaction, merges, a clean close/reopen, optionally enough data to need a second
//! `fallocate` chunk) with the I/O recorder installed and a snapshot taken after every commit.
use std::path::{Path, PathBuf};

use aranya_runtime::{
    ClientState, GraphId, MemSpill, RuntimeBuffers, StorageProvider,
    linear::{
        LinearStorageProvider,
        libc::{FileManager, verif::{self, IoEvent}},
        testing::MemStorageProvider,
    },
    testing::protocol::{TestActions, TestPolicyStore, TestSink},
};
use vrt::Rng;

use crate::snap::{self, OwnedCmd};

pub type FileProvider = LinearStorageProvider<FileManager>;
pub type FileClient = ClientState<TestPolicyStore, FileProvider>;
type MemClient = ClientState<TestPolicyStore, MemStorageProvider>;

#[derive(Clone, Debug, PartialEq, Eq)]
pub enum Mark {
    /// commit call k is about to start
    Begin(usize),
    /// commit call k returned successfully
    End(usize),
    /// the client (and with it the writer) was dropped
    Close,
}

pub struct Recording {
    pub graph: GraphId,
    pub events: Vec<IoEvent>,
    /// (number of I/O events issued before the marker, marker)
    pub marks: Vec<(usize, Mark)>,
    /// snaps[k-1] = observable state after commit call k returned
    pub snaps: Vec<String>,
    pub ncmds: Vec<usize>,
}

pub fn open_client(dir: &Path) -> Result<FileClient, String> {
    let fm = FileManager::new(dir).map_err(|e| format!("FileManager::new: {e}"))?;
    Ok(ClientState::new(TestPolicyStore::new(), LinearStorageProvider::new(fm)))
}

pub fn sink() -> TestSink {
    let mut s = TestSink::new();
    s.ignore_expectations(true);
    s
}

pub struct Cfg {
    pub seed: u64,
    /// number of rounds (each round: actions, branch on the peer, ingest, merge)
    pub rounds: usize,
    /// commands per peer batch in "bulk" rounds (0 = no bulk round)
    pub bulk: usize,
    pub bulk_rounds: usize,
}

impl Cfg {
    pub fn for_tier(tier: &str, seed: u64) -> Self {
        match tier {
            "thorough" => Cfg { seed, rounds: 7, bulk: 0, bulk_rounds: 0 },
            "bulk" => Cfg { seed, rounds: 1, bulk: 8000, bulk_rounds: 5 },
            _ => Cfg { seed, rounds: 2, bulk: 0, bulk_rounds: 0 },
        }
    }
}

struct Run<'a> {
    dir: &'a Path,
    a: Option<FileClient>,
    b: MemClient,
    graph: GraphId,
    bufs_a: RuntimeBuffers<<FileProvider as StorageProvider>::Segment>,
    bufs_b: RuntimeBuffers<<MemStorageProvider as StorageProvider>::Segment>,
    marks: Vec<(usize, Mark)>,
    snaps: Vec<String>,
    ncmds: Vec<usize>,
    k: usize,
}

impl Run<'_> {
    fn begin(&mut self) {
        self.k += 1;
        self.marks.push((verif::len(), Mark::Begin(self.k)));
    }
    fn end(&mut self) -> Result<(), String> {
        self.marks.push((verif::len(), Mark::End(self.k)));
        let graph = self.graph;
        let a = self.a.as_mut().ok_or("no client")?;
        let st = a.provider().get_storage(graph).map_err(|e| format!("get_storage: {e}"))?;
        let s = snap::snapshot(st)?;
        self.snaps.push(s.text);
        self.ncmds.push(s.ncmds);
        Ok(())
    }
    fn act(&mut self, action: TestActions) -> Result<(), String> {
        self.begin();
        let graph = self.graph;
        let a = self.a.as_mut().ok_or("no client")?;
        a.action(graph, &mut sink(), action, &mut self.bufs_a, MemSpill::new)
            .map_err(|e| format!("action: {e}"))?;
        self.end()
    }
    /// `Storage::commit_heads` with nothing appended since the last commit (or since open): the
    /// head-set record written by the commit itself is the only unsynced data.
    fn recommit(&mut self) -> Result<(), String> {
        use aranya_runtime::Storage as _;
        self.begin();
        let graph = self.graph;
        let a = self.a.as_mut().ok_or("no client")?;
        let st = a.provider().get_storage(graph).map_err(|e| format!("get_storage: {e}"))?;
        let heads = st.get_heads().map_err(|e| format!("get_heads: {e}"))?.clone();
        let fc = st.fact_cache().map_err(|e| format!("fact_cache: {e}"))?;
        st.commit_heads(heads, fc).map_err(|e| format!("commit_heads: {e}"))?;
        self.end()
    }
    fn b_act(&mut self, action: TestActions) -> Result<(), String> {
        self.b.action(self.graph, &mut sink(), action, &mut self.bufs_b, MemSpill::new)
            .map_err(|e| format!("peer action: {e}"))
    }
    fn cmds_of_a(&mut self) -> Result<Vec<OwnedCmd>, String> {
        let graph = self.graph;
        let a = self.a.as_mut().ok_or("no client")?;
        let st = a.provider().get_storage(graph).map_err(|e| format!("get_storage: {e}"))?;
        Ok(snap::snapshot(st)?.cmds)
    }
    fn cmds_of_b(&mut self) -> Result<Vec<OwnedCmd>, String> {
        let st = self.b.provider().get_storage(self.graph).map_err(|e| format!("peer get_storage: {e}"))?;
        Ok(snap::snapshot(st)?.cmds)
    }
    /// the peer ingests everything A has
    fn push_to_b(&mut self) -> Result<(), String> {
        let cmds = self.cmds_of_a()?;
        let mut trx = self.b.transaction(self.graph);
        self.b.add_commands(&mut trx, &mut sink(), &cmds, &mut self.bufs_b, MemSpill::new)
            .map_err(|e| format!("peer add_commands: {e}"))?;
        self.b.commit(trx, &mut sink(), &mut self.bufs_b, MemSpill::new)
            .map_err(|e| format!("peer commit: {e}"))?;
        Ok(())
    }
    /// A ingests everything the peer has, in one transaction (one commit call)
    fn pull_from_b(&mut self) -> Result<(), String> {
        let cmds = self.cmds_of_b()?;
        self.begin();
        let graph = self.graph;
        let a = self.a.as_mut().ok_or("no client")?;
        let mut trx = a.transaction(graph);
        a.add_commands(&mut trx, &mut sink(), &cmds, &mut self.bufs_a, MemSpill::new)
            .map_err(|e| format!("add_commands: {e}"))?;
        a.commit(trx, &mut sink(), &mut self.bufs_a, MemSpill::new)
            .map_err(|e| format!("commit: {e}"))?;
        self.end()
    }
    fn reopen(&mut self) -> Result<(), String> {
        self.a = None;
        self.marks.push((verif::len(), Mark::Close));
        let mut a = open_client(self.dir)?;
        a.provider().get_storage(self.graph).map_err(|e| format!("reopen: {e}"))?;
        self.a = Some(a);
        Ok(())
    }
}

/// Run the workload in `dir` (must be empty) and return the recording.
pub fn record(dir: &Path, cfg: &Cfg) -> Result<Recording, String> {
    let mut rng = Rng::new(cfg.seed.wrapping_mul(0x51_7c_c1_b7).wrapping_add(15));
    verif::install();
    let res = (|| -> Result<(GraphId, Vec<(usize, Mark)>, Vec<String>, Vec<usize>), String> {
        let mut a = open_client(dir)?;
        let mut marks = vec![(verif::len(), Mark::Begin(1))];
        let nonce = 1000 + cfg.seed;
        let graph = a
            .new_graph(&nonce.to_be_bytes(), TestActions::Init(nonce), &mut sink())
            .map_err(|e| format!("new_graph: {e}"))?;
        marks.push((verif::len(), Mark::End(1)));
        let mut run = Run {
            dir,
            a: Some(a),
            b: ClientState::new(TestPolicyStore::new(), MemStorageProvider::default()),
            graph,
            bufs_a: RuntimeBuffers::new(),
            bufs_b: RuntimeBuffers::new(),
            marks,
            snaps: Vec::new(),
            ncmds: Vec::new(),
            k: 1,
        };
        {
            let st = run.a.as_mut().ok_or("no client")?.provider().get_storage(graph)
                .map_err(|e| format!("get_storage: {e}"))?;
            let s = snap::snapshot(st)?;
            run.snaps.push(s.text);
            run.ncmds.push(s.ncmds);
        }
        // a clean reopen while only one root slot has ever been written (open wipes the other)
        run.reopen()?;
        let mut key = 1u64;
        for round in 0..cfg.rounds {
            // a few local actions, with a delete of something that exists
            let n = 2 + rng.below(2);
            for _ in 0..n {
                run.act(TestActions::SetValue(key, rng.below(1000)))?;
                key += 1;
            }
            run.act(TestActions::DeleteValue(key - 1 - rng.below(n), 0))?;
            // two commits back to back: nothing but the head-set record is dirty
            run.recommit()?;
            // the peer catches up, both sides extend concurrently
            run.push_to_b()?;
            for _ in 0..(1 + rng.below(3)) {
                run.b_act(TestActions::SetValue(100 + key, rng.below(1000)))?;
                key += 1;
            }
            if rng.chance(1, 2) {
                run.b_act(TestActions::DeleteValue(key.saturating_sub(3), 0))?;
            }
            run.act(TestActions::SetValue(key, rng.below(1000)))?;
            key += 1;
            // ingest the peer's branch (two heads), then an action collapses them with a merge
            run.pull_from_b()?;
            run.act(TestActions::SetValuePriority(key, rng.below(1000), 5))?;
            key += 1;
            if round == 0 || rng.chance(1, 3) {
                run.reopen()?;
                if rng.chance(1, 2) {
                    run.recommit()?;   // first commit of a freshly opened writer, no append
                }
            }
            run.act(TestActions::NoOp(key, 1))?;
        }
        for _ in 0..cfg.bulk_rounds {
            // a long chain of synthesized peer commands on top of the current head, ingested in
            // one transaction: one fat segment + one fat fact index (crosses the fallocate chunk)
            let head = run.a.as_mut().ok_or("no client")?.head_address(graph).map_err(|e| format!("head_address: {e}"))?;
            let chain = synth_chain(head, cfg.bulk, key)?;
            key += cfg.bulk as u64;
            run.begin();
            {
                let a = run.a.as_mut().ok_or("no client")?;
                let mut trx = a.transaction(graph);
                a.add_commands(&mut trx, &mut sink(), &chain, &mut run.bufs_a, MemSpill::new)
                    .map_err(|e| format!("bulk add_commands: {e}"))?;
                a.commit(trx, &mut sink(), &mut run.bufs_a, MemSpill::new)
                    .map_err(|e| format!("bulk commit: {e}"))?;
            }
            run.end()?;
            run.act(TestActions::DeleteValue(key - 1, 0))?;
        }
        run.a = None;
        run.marks.push((verif::len(), Mark::Close));
        Ok((graph, run.marks, run.snaps, run.ncmds))
    })();
    let events = verif::uninstall();
    let (graph, marks, snaps, ncmds) = res?;
    Ok(Recording { graph, events, marks, snaps, ncmds })
}

/// `n` basic commands of the test protocol chained on `parent` (what a peer would have sent).
fn synth_chain(parent: aranya_runtime::Address, n: usize, key0: u64) -> Result<Vec<OwnedCmd>, String> {
    use aranya_runtime::{Address, MaxCut, Prior, Priority, testing::{hash_for_testing_only, protocol::{WireBasic, WireProtocol}}};
    let mut out = Vec::with_capacity(n);
    let mut parent = parent;
    for i in 0..n {
        let w = WireProtocol::Basic(WireBasic { parent, prority: 3, payload: (key0 + i as u64, 0xabcd_0000 + i as u64) });
        let data = postcard::to_allocvec(&w).map_err(|e| format!("postcard: {e}"))?;
        let id = hash_for_testing_only(&data);
        let max_cut = MaxCut::new(parent.max_cut.get() + 1);
        out.push(OwnedCmd { id, priority: Priority::Basic(3), parent: Prior::Single(parent), policy: None, data, max_cut });
        parent = Address { id, max_cut };
    }
    Ok(out)
}

/// A fresh scratch directory for graph files; tmpfs when available (fsync is free there).
pub fn scratch_dir_path(tag: &str) -> PathBuf {
    let base = if Path::new("/dev/shm").is_dir() { PathBuf::from("/dev/shm") } else { std::env::temp_dir() };
    base.join(format!("vh-crash-{}-{tag}", std::process::id()))
}

pub fn scratch_dir(tag: &str) -> PathBuf {
    let d = scratch_dir_path(tag);
    let _ = std::fs::remove_dir_all(&d);
    std::fs::create_dir_all(&d).unwrap_or_else(|e| vrt::die(&format!("mkdir {}: {e}", d.display())));
    d
}
