//! `vrt` — shared runtime of the conformance harness.
//!
//! Every engine binary (`vh-<engine>`) speaks the same protocol with `bin/check`:
//!
//! ```text
//! vh-<engine> <subcommand> --in <behaviours.ndjson> --out <results.ndjson> [--seed N] [--opt k=v ...]
//! ```
//!
//! * input: one JSON value per line — a behaviour emitted by TLC (`"REPLAY {...}"` lines) or a
//!   case built by the driver;
//! * output: one JSON object per input line:
//!   `{"i": <line>, "ok": bool, "step": <index or -1>, "key": "<stable class fingerprint>",
//!     "msg": "...", "obs": <anything>}`;
//!   `ok=false` means the *property's observable predicate* failed on the real code
//!   (DESIGN §2.2); `"drift": n` may be added for spec/code differences that do not affect it;
//! * exit status 0 whenever the engine itself worked (violations are data), 2 on tool errors.

use std::{
    collections::BTreeMap,
    fs::File,
    io::{BufRead, BufReader, BufWriter, Write},
    panic::{self, AssertUnwindSafe, UnwindSafe},
    sync::Once,
};

pub use serde_json::{self, json, Map, Value};

/// Parsed command line of an engine binary.
pub struct Args {
    pub sub: String,
    pub input: Option<String>,
    pub output: Option<String>,
    pub seed: u64,
    pub opts: BTreeMap<String, String>,
}

impl Args {
    pub fn parse() -> Self {
        let mut it = std::env::args().skip(1);
        let sub = it.next().unwrap_or_else(|| die("missing subcommand"));
        let mut a = Args { sub, input: None, output: None, seed: 0, opts: BTreeMap::new() };
        while let Some(k) = it.next() {
            let mut val = || it.next().unwrap_or_else(|| die(&format!("missing value for {k}")));
            match k.as_str() {
                "--in" => a.input = Some(val()),
                "--out" => a.output = Some(val()),
                "--seed" => a.seed = val().parse().unwrap_or_else(|_| die("bad seed")),
                "--opt" => {
                    let v = val();
                    let (k, v) = v.split_once('=').unwrap_or((v.as_str(), "1"));
                    a.opts.insert(k.to_string(), v.to_string());
                }
                _ => die(&format!("unknown argument {k}")),
            }
        }
        a
    }
    pub fn opt_u64(&self, k: &str, d: u64) -> u64 {
        self.opts.get(k).map(|v| v.parse().unwrap_or_else(|_| die("bad numeric opt"))).unwrap_or(d)
    }
    pub fn opt_str(&self, k: &str, d: &str) -> String {
        self.opts.get(k).cloned().unwrap_or_else(|| d.to_string())
    }
    pub fn opt_bool(&self, k: &str) -> bool {
        self.opts.get(k).map(|v| v != "0" && v != "false").unwrap_or(false)
    }
    /// All input lines as JSON values.
    pub fn read_input(&self) -> Vec<Value> {
        let p = self.input.as_deref().unwrap_or_else(|| die("--in required"));
        read_ndjson(p)
    }
    pub fn out(&self) -> Out {
        Out::new(self.output.as_deref())
    }
}

pub fn die(msg: &str) -> ! {
    eprintln!("vh: tool error: {msg}");
    std::process::exit(2)
}

pub fn read_ndjson(path: &str) -> Vec<Value> {
    let f = File::open(path).unwrap_or_else(|e| die(&format!("open {path}: {e}")));
    let mut v = Vec::new();
    for (n, line) in BufReader::new(f).lines().enumerate() {
        let line = line.unwrap_or_else(|e| die(&format!("read {path}: {e}")));
        if line.trim().is_empty() {
            continue;
        }
        v.push(
            serde_json::from_str(&line)
                .unwrap_or_else(|e| die(&format!("{path}:{}: bad json: {e}", n + 1))),
        );
    }
    v
}

/// Result writer (ndjson).
pub struct Out {
    w: Box<dyn Write>,
    pub n: usize,
    pub bad: usize,
}

impl Out {
    pub fn new(path: Option<&str>) -> Self {
        let w: Box<dyn Write> = match path {
            Some(p) => Box::new(BufWriter::new(
                File::create(p).unwrap_or_else(|e| die(&format!("create {p}: {e}"))),
            )),
            None => Box::new(std::io::stdout()),
        };
        Out { w, n: 0, bad: 0 }
    }
    pub fn emit(&mut self, v: Value) {
        if v.get("ok").and_then(Value::as_bool) == Some(false) {
            self.bad += 1;
        }
        self.n += 1;
        serde_json::to_writer(&mut self.w, &v).unwrap_or_else(|e| die(&format!("write: {e}")));
        self.w.write_all(b"\n").unwrap_or_else(|e| die(&format!("write: {e}")));
    }
    pub fn ok(&mut self, i: usize, obs: Value) {
        self.emit(json!({"i": i, "ok": true, "step": -1, "obs": obs}));
    }
    pub fn fail(&mut self, i: usize, step: i64, key: &str, msg: &str, obs: Value) {
        self.emit(json!({"i": i, "ok": false, "step": step, "key": key, "msg": msg, "obs": obs}));
    }
    /// Make everything emitted so far durable (call before a step that may never return).
    pub fn flush(&mut self) {
        let _ = self.w.flush();
    }
    pub fn finish(mut self) {
        let _ = self.w.flush();
    }
}

static QUIET: Once = Once::new();

/// Silence the default panic hook (panics of the code under test are data).
pub fn quiet_panics() {
    QUIET.call_once(|| {
        if std::env::var_os("VH_PANIC_VERBOSE").is_none() {
            panic::set_hook(Box::new(|_| {}));
        }
    });
}

/// Run `f`, turning a panic into `Err(message)`.
pub fn catch<T>(f: impl FnOnce() -> T + UnwindSafe) -> Result<T, String> {
    quiet_panics();
    panic::catch_unwind(f).map_err(|e| {
        if let Some(s) = e.downcast_ref::<&str>() {
            (*s).to_string()
        } else if let Some(s) = e.downcast_ref::<String>() {
            s.clone()
        } else {
            "panic (non-string payload)".to_string()
        }
    })
}

/// `catch` for closures that are not `UnwindSafe` (the harness discards the state afterwards).
pub fn catch_any<T>(f: impl FnOnce() -> T) -> Result<T, String> {
    catch(AssertUnwindSafe(f))
}

/// Small deterministic RNG (splitmix64) so engines need no external crate.
#[derive(Clone)]
pub struct Rng(pub u64);

impl Rng {
    pub fn new(seed: u64) -> Self {
        Rng(seed ^ 0x9E37_79B9_7F4A_7C15)
    }
    pub fn next_u64(&mut self) -> u64 {
        self.0 = self.0.wrapping_add(0x9E37_79B9_7F4A_7C15);
        let mut z = self.0;
        z = (z ^ (z >> 30)).wrapping_mul(0xBF58_476D_1CE4_E5B9);
        z = (z ^ (z >> 27)).wrapping_mul(0x94D0_49BB_1331_11EB);
        z ^ (z >> 31)
    }
    /// Uniform in `0..n` (n > 0).
    pub fn below(&mut self, n: u64) -> u64 {
        self.next_u64() % n.max(1)
    }
    pub fn range(&mut self, lo: u64, hi_incl: u64) -> u64 {
        lo + self.below(hi_incl - lo + 1)
    }
    pub fn chance(&mut self, num: u64, den: u64) -> bool {
        self.below(den) < num
    }
    pub fn fill(&mut self, buf: &mut [u8]) {
        for b in buf {
            *b = self.next_u64() as u8;
        }
    }
    pub fn pick<'a, T>(&mut self, xs: &'a [T]) -> &'a T {
        &xs[self.below(xs.len() as u64) as usize]
    }
    pub fn shuffle<T>(&mut self, xs: &mut [T]) {
        for i in (1..xs.len()).rev() {
            let j = self.below(i as u64 + 1) as usize;
            xs.swap(i, j);
        }
    }
}

/// JSON helpers: panic-free accessors that die with a tool error on malformed behaviours.
pub trait J {
    fn g(&self, k: &str) -> &Value;
    fn u(&self, k: &str) -> u64;
    fn i(&self, k: &str) -> i64;
    fn s(&self, k: &str) -> &str;
    fn b(&self, k: &str) -> bool;
    fn a(&self, k: &str) -> &Vec<Value>;
}

impl J for Value {
    fn g(&self, k: &str) -> &Value {
        self.get(k).unwrap_or_else(|| die(&format!("behaviour lacks field {k}: {self}")))
    }
    fn u(&self, k: &str) -> u64 {
        self.g(k).as_u64().unwrap_or_else(|| die(&format!("field {k} not u64: {self}")))
    }
    fn i(&self, k: &str) -> i64 {
        self.g(k).as_i64().unwrap_or_else(|| die(&format!("field {k} not i64: {self}")))
    }
    fn s(&self, k: &str) -> &str {
        self.g(k).as_str().unwrap_or_else(|| die(&format!("field {k} not str: {self}")))
    }
    fn b(&self, k: &str) -> bool {
        self.g(k).as_bool().unwrap_or_else(|| die(&format!("field {k} not bool: {self}")))
    }
    fn a(&self, k: &str) -> &Vec<Value> {
        self.g(k).as_array().unwrap_or_else(|| die(&format!("field {k} not array: {self}")))
    }
}
