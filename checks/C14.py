"""C14 — sessions overlay their own writes on committed facts.

MC of SessionOverlay.tla (overlay = committed map + session log; sorted merge iterator with
tombstones transcribed and checked for every prefix; failed operations leave the session
unchanged; the graph is untouched; sessions are isolated) + S2I replay into real
ClientState/Session objects with a harness-owned policy (DESIGN §5 C14)."""
import json
import verif
import storage_util

META = {
    "level": "model_checking",
    "engine": "storage",
    "technique": "TLA+ spec SessionOverlay (base index + fact log + current-facts overlay with the merge iterator, refining committed-map-overlaid-with-log) model-checked with TLC; one TLC behaviour per transition replayed into ClientState::session / Session::action / Session::receive over memory linear storage with a harness policy (spec->impl conformance)",
    "text": "TLC explores every committed fact state reachable by <=2 on-graph actions and every interleaving of session actions and received commands (programs: insert/delete of one of two fact keys, optionally followed by a check that fails when a given fact is visible) over two sessions, checking in every state that exact queries (overlay, then base) and the transcribed sorted-merge prefix iterator equal the committed map overlaid with the session's log for every prefix, and on every transition that a failed operation changes nothing and that no session operation changes the committed state or another session. Each behaviour is replayed into real sessions; the views are read through a probing policy action (query for every key, query_prefix for every prefix of the key universe, ascending order) and compared with the overlay map; after a failed action/receive all views and the message sink must be as before the call; graph heads, head-set stamp and fact cache must be unchanged by every session operation.",
    "note": "Bounds: 2 fact keys (one a prefix of the other, empty component), <=2 committed actions, 2 sessions (only session 1 originates actions in the quick tier), <=2 log entries per session, <=2 published commands. Thorough: both sessions originate actions. Simulation: 26 fact keys, <=6 commits, logs of <=14 entries, 50 steps, a few two-update programs. The harness policy fails a rule with PolicyError::Rejected after its writes, before or after publishing the command (seeded).",
}

ACTIONS = ["CommitAny", "NewSession", "ActionAny", "ReceiveAny"]


def run(ctx):
    vh = ctx.build("storage")
    if ctx.replay:
        case = json.load(open(ctx.replay))["case"]["input"]
        ctx.absorb(ctx.run_engine(vh, "session", [case], opts={"prop": "C14"}))
        return
    cfg = "MC_SessionOverlay.cfg" if not ctx.thorough else "MC_SessionOverlay_thorough.cfg"
    r = ctx.tlc("MC_SessionOverlay", cfg, timeout=3000)
    ctx.require_actions(storage_util.parse_action_coverage(r), ACTIONS)
    beh = r.replays
    if not beh:
        raise verif.ToolError("TLC emitted no behaviours")
    nfail = sum(1 for b in beh if b["e"]["r"] == "err")
    nrecv = sum(1 for b in beh if b["e"]["o"] == "receive")
    if nfail == 0 or nrecv == 0:
        raise verif.ToolError("no failing operation / no receive among the behaviours")
    items = beh
    if ctx.thorough and len(items) > 150000:
        items = verif.sample(ctx.rng, items, 150000)
    res = ctx.run_engine(vh, "session", items, opts={"prop": "C14"}, tag="session")
    if len([x for x in res if isinstance(x.get("i"), int) and x["i"] >= 0]) < len(items):
        raise verif.ToolError("engine returned %d results for %d behaviours" % (len(res), len(items)))
    ctx.absorb(res)
    # seeded simulation over the whole key universe (merge iterator with many keys / tombstones)
    nsim = 12 if not ctx.thorough else 240
    rs = ctx.tlc("MC_SessionOverlay", "Sim_SessionOverlay.cfg", simulate=max(1, nsim // 4), depth=51,
                 workers=4, timeout=1500, tag="sim")
    sim = storage_util.dedupe_by_prefix(rs.replays)
    if len(sim) < nsim // 2:
        raise verif.ToolError("simulation produced only %d behaviours" % len(sim))
    res = ctx.run_engine(vh, "session", sim, opts={"prop": "C14"}, tag="session-sim")
    if len([x for x in res if isinstance(x.get("i"), int) and x["i"] >= 0]) < len(sim):
        raise verif.ToolError("engine returned %d results for %d simulation behaviours" % (len(res), len(sim)))
    ctx.absorb(res)
    # binding self-tests: perturbed overlay expectation / flipped outcome must be rejected
    good = next(b for b in beh if b["e"]["sv"] and any(b["e"]["sv"]))
    bad = json.loads(json.dumps(good))
    next(s for s in bad["e"]["sv"] if s)[0]["v"] += 1
    st = ctx.run_engine(vh, "session", [bad], opts={"prop": "C14"}, tag="selftest")
    if st[0].get("ok"):
        raise verif.ToolError("binding self-test failed: perturbed overlay expectation accepted")
    good = next(b for b in beh if b["e"]["r"] == "err")
    bad = json.loads(json.dumps(good))
    bad["h"][-1]["r"] = "ok"
    st = ctx.run_engine(vh, "session", [bad], opts={"prop": "C14"}, tag="selftest2")
    if st[0].get("ok"):
        raise verif.ToolError("binding self-test failed: flipped outcome accepted")
    ctx.cov.update({
        "exhaustive": True,
        "constants": storage_util.cfg_constants(verif.TLA, cfg),
        "one_behaviour_per_transition": len(beh),
        "behaviours_replayed": len(items),
        "failing_operations": nfail,
        "simulation_behaviours": len(sim),
        "simulation_steps_per_behaviour": 50,
        "receives": nrecv,
        "selftest": "perturbed overlay expectation and flipped outcome rejected by the engine",
    })
    ctx.assumptions += [
        "the session's view is read through Session::action with a probing policy action (sessions expose no query API)",
        "no on-graph action happens while sessions are open (the session's base is the fact cache at creation)",
    ]
