"""C32 — text and identifier values always satisfy their invariants.
TABLE: TextRepr.tla enumerates construction cells (kind x content class x length x path) and
comparison cells (relation x storage forms); every cell is concretised with seeded bytes and decided
on the real aranya_policy_text::{Text, Identifier} (DESIGN §5 C32)."""
import json
import verif

META = {
    "level": "exploration",
    "engine": "small",
    "technique": "TLA+ spec TextRepr (constructor pipeline decode/validate/store + comparison model) model-checked with TLC; every TLC-enumerated cell concretised with seeded bytes and decided on the real Text/Identifier constructors, decoders and comparison impls (TABLE binding: spec as enumerator and oracle)",
    "text": "TLC enumerates 888 construction cells (text|ident x 11 content classes x lengths 0/1/3/21/22/23/1024 around the 22-byte inline limit (thorough: 20 lengths incl. 7/8/9 around rkyv's inline string limit, 63..65, 255/256, 4096) x 15 paths: FromStr, TryFrom<String>, TryFrom<Text>, TryFrom<&CStr>, serde JSON, postcard, rkyv access / from_bytes / ArchivedIdentifier::deserialize on crafted archives, Add, From<Identifier>, clone, Default, text!/ident! statics) and 4602 comparison cells (same / prefix / first-byte / last-byte / length-order-opposite-to-content-order relations x static|inline|heap|archived forms), checks ExistsIffValid and CompareByContent on the model, and emits each cell with its outcome. The engine concretises each cell several times with seeded bytes inside the class and decides: value exists iff content valid; an existing value holds exactly the presented content and satisfies its invariant; Eq/Ord/Hash/const_eq/PartialEq<str>/Borrow<str> lookups agree with the contents across storage forms; no panic.",
    "note": "Exploration: classes and lengths are enumerated exhaustively, bytes inside a class are sampled (reps per cell: 20 quick, 300 thorough). The storage form of a value is not observable (Repr is private): forms are selected through path and length. Macros reject invalid literals at compile time, so the static path is exercised for valid contents only. rkyv access_unchecked (unsafe) is out of scope.",
}

CELLS = {"MC_TextRepr.cfg": 5490, "MC_TextRepr_thorough.cfg": 15856}


def run(ctx):
    ctx.level = "exploration"
    vh = ctx.build("small")
    reps = 300 if ctx.thorough else 20
    if ctx.replay:
        case = json.load(open(ctx.replay))["case"]["input"]
        ctx.absorb(ctx.run_engine(vh, "text", [case], opts={"reps": 200}))
        return
    cfg = "MC_TextRepr_thorough.cfg" if ctx.thorough else "MC_TextRepr.cfg"
    r = ctx.tlc("TextRepr", cfg, timeout=900)
    ctx.require_actions(r, ["Decode", "Validate", "Store", "CompareStep"])
    cells = r.replays
    if len(cells) != CELLS[cfg]:
        raise verif.ToolError("expected %d cells, TLC emitted %d" % (CELLS[cfg], len(cells)))
    # design switches: a path that skips validation / Ord by storage form must violate the invariants
    bugs = (("MC_TextRepr_skip.cfg", "ExistsIffValid"), ("MC_TextRepr_ordform.cfg", "CompareByContent"),
            ("MC_TextRepr_lenfirst.cfg", "CompareByContent"))
    for bcfg, inv in (bugs if ctx.thorough else bugs[:1]):
        rb = ctx.tlc("TextRepr", bcfg, allow_violation=True, coverage=False)
        ctx.states -= rb.states
        ctx.transitions -= rb.generated
        if rb.violated != inv:
            raise verif.ToolError("spec self-test: %s should violate %s, TLC says %r" % (bcfg, inv, rb.violated))

    res = ctx.run_engine(vh, "text", cells, opts={"reps": reps}, timeout=1800)
    if len(res) != len(cells):
        raise verif.ToolError("engine returned %d results for %d cells" % (len(res), len(cells)))
    ctx.absorb(res)

    # binding self-test: flipped expectations must be rejected by the engine
    c1 = dict(next(c for c in cells if c["mode"] == "construct" and c["path"] == "from_str"
                   and c["class"] == "nulmid" and c["kind"] == "text"))
    c1["exists"] = True
    c2 = dict(next(c for c in cells if c["mode"] == "construct" and c["path"] == "json"
                   and c["class"] == "ident" and c["kind"] == "ident"))
    c2["exists"] = False
    # a flipped expectation contradicts the engine's own validity oracle: it must refuse the cell
    # (tool error) or report a failure — never accept it
    for k, c in enumerate((c1, c2)):
        try:
            st = ctx.run_engine(vh, "text", [c], opts={"reps": 1}, tag="selftest%d" % k)
        except verif.ToolError:
            continue
        if st and all(x.get("ok") for x in st):
            raise verif.ToolError("binding self-test failed: flipped expectation accepted")

    ncons = sum(1 for c in cells if c["mode"] == "construct")
    ctx.cov.update({
        "exhaustive": True,
        "constants": open(verif.TLA + "/" + cfg).read().split("CONSTANTS")[1].split("INVARIANTS")[0].strip().splitlines(),
        "cells": {"construct": ncons, "compare": len(cells) - ncons},
        "evaluations": sum(int(x.get("evals", 0)) for x in res),
        "distinct_nontrivial": sum(1 for c in cells if c["mode"] == "compare" or not c["exists"]),
        "rule": "construct: value exists <=> content valid for the kind (text: UTF-8 without NUL; identifier: [a-zA-Z][a-zA-Z0-9_]*), existing value == presented content; compare: ==, cmp, partial_cmp, hash, const_eq, PartialEq<str>, Borrow<str> lookups equal those of the contents for every pair of storage forms",
        "reps_per_cell": reps,
        "selftest": "skip-validation and ord-by-form configurations violate the spec invariants; flipped cell expectations refused",
    })
    ctx.assumptions += [
        "storage form (static/inline/heap) is selected through construction path and length; it is not observable through the public API",
        "crafted archives are rkyv archives of a String with the same bytes (ArchivedText/ArchivedIdentifier are transparent wrappers of ArchivedString), byte-patched for the non-UTF-8 class",
        "invalid literals are rejected by the macros at compile time and are not exercised",
    ]
