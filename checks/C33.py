"""C33 — shared text storage is memory safe across threads.
MC ArcStr.tla + SCHED replay of every transition of its state graph on real heap-backed Text values
under the tracking allocator (DESIGN §5 C33)."""
import afc_util
import verif

META = {
    "level": "model_checking",
    "engine": "afc",
    "technique": "TLA+ spec ArcStr (one action per atomic access of ArcStr::clone/drop: fetch_add, fetch_sub, fence, dealloc) model-checked with TLC; edge-covering schedules of its state graph replayed on real heap-backed aranya_policy_text::Text under the yield-point scheduler with a tracking allocator as memory-safety oracle (spec->impl conformance); complemented by free-running races of the same operations on real unscheduled threads with the same oracle (stress, not exhaustive)",
    "text": "TLC checks the reference-counted string for every interleaving of threads that clone, read and drop handles until they own none - owner threads start with one handle, borrower threads clone and read through a shared reference to an owner's handle (so the same, possibly unique, handle is cloned concurrently): no access after the dealloc, at most one dealloc, the count equals the number of live handles, no dealloc while a handle is alive, exactly one dealloc at the end; the spec mutant 'free when fetch_sub returned 2' must be rejected. Every transition of the state graph is executed on real Text values sharing one heap allocation: yield points sit before fetch_add, fetch_sub, the fence and the dealloc; reads go through as_str(). The harness allocator poisons and quarantines the freed block. VIOLATION on: a yield point or read touching the freed block / text that does not read back, a second free, the block still allocated after every handle is dropped.",
    "note": "Bounds: quick 3 owner threads x (<=1 clone, <=1 read), 1 owner + 2 borrowers x (<=1 clone, <=1 read), and 2 threads, all exhaustive; thorough 3 threads x <=2 clones in TLC, schedules from 3 x (1,1). Additionally free-running races (2 and 3 real unscheduled threads, each clone/read/drop-clone/drop-own on one shared allocation, spin barrier with jitter, 3 s each quick / 15 s thorough) with the allocator and read oracle: a stress complement that reaches interleavings inside a split read-modify-write, not exhaustive. Memory orderings (Relaxed/Release/Acquire fence) are outside the model: sequentially consistent interleavings only (DESIGN §9). The valgrind run planned in DESIGN is not done (the scheduler switches stacks in user space). Trusts the allocator's quarantine.",
}

ACTIONS = ["op", "inc", "rd", "dec", "fence", "free"]


def project(a, args, s):
    return {"a": a, "t": args[0], "count": s["count"], "freed": s["freed"], "pc": s["pc"], "held": s["held"],
            "bor": s["borrowing"]}


def run(ctx):
    vh = ctx.build("afc")
    if ctx.replay:
        ctx.absorb(ctx.run_engine(vh, "arcstr", [afc_util.load_replay(ctx)]))
        return
    rm = ctx.tlc("ArcStr", "MC_ArcStr_mutant.cfg", allow_violation=True, cache=True)
    if not rm.violated:
        raise verif.ToolError("self-test failed: TLC accepted the spec mutant 'free when fetch_sub returned 2'")
    if ctx.thorough:
        r = ctx.tlc("ArcStr", "MC_ArcStr_thorough.cfg", timeout=2400, cache=True)
        ctx.require_actions(r, ACTIONS)
    graphs = {}
    allbeh = []
    for cfg, cap in (("MC_ArcStr_g.cfg", None), ("MC_ArcStr_b.cfg", 5000), ("MC_ArcStr.cfg", 4000)):
        info, steps = afc_util.schedules(ctx, "ArcStr", cfg, project)
        afc_util.require_graph_actions(info, ACTIONS)
        c = afc_util.cfg_constants(cfg)
        owners = [int(x) for x in c["Owners"].strip("{}").split(",") if x.strip()]
        beh = [{"threads": len(info["init"]["pc"]), "owners": owners, "max_clones": int(c["MaxClones"]), "max_reads": int(c["MaxReads"]),
                "steps": st} for st in steps]
        if cap and len(beh) > cap and not ctx.thorough:
            beh = verif.sample(ctx.rng, beh, cap)
        res = afc_util.replay(ctx, vh, "arcstr", beh, tag="arcstr-" + cfg[3:-4])
        ctx.absorb(res)
        allbeh += beh
        graphs[cfg] = {"constants": c, "states": info["states"], "transitions": info["transitions"],
                       "cover_paths": info["cover_paths"], "replayed": len(beh),
                       "steps_executed": sum(x.get("steps", 0) for x in res)}
    # free-running races: real unscheduled threads, the hardware interleaves single accesses
    ms = 15000 if ctx.thorough else 3000
    races = [{"race": "mix", "threads": k, "rounds": 2000000 if ctx.thorough else 400000, "ms": ms} for k in (2, 3)]
    rres = ctx.run_engine(vh, "arcstr", races, tag="arcstr-race")
    ctx.absorb(rres)
    ctx.cov["free_running_races"] = {"mix x%d" % r["_in"]["threads"]: r.get("steps", 0) for r in rres if r.get("_in")}
    if ctx.nviol:
        # self-tests use the recorded results of this run; with violations present they prove nothing
        ctx.cov["selftests"] = ["skipped: the run found violations"]
        return
    # binding self-tests: a forgotten handle and a handle dropped twice must be reported
    st = ctx.run_engine(vh, "arcstr", allbeh[:50], opts={"selftest": "forget"}, tag="selftest-forget")
    if not any(x.get("key") == "C33:leak" for x in st):
        raise verif.ToolError("binding self-test failed: a forgotten handle (leak) was not reported")
    st = ctx.run_engine(vh, "arcstr", [{"race": "mix", "threads": 2, "rounds": 20, "ms": 2000}],
                        opts={"selftest": "forget"}, tag="selftest-race-forget")
    if not any(x.get("key") == "C33:leak" for x in st):
        raise verif.ToolError("binding self-test failed: a forgotten handle in the free-running race was not reported")
    st = ctx.run_engine(vh, "arcstr", allbeh[:50], opts={"selftest": "extradrop"}, tag="selftest-extradrop")
    if not any(x.get("key") in ("C33:double-free", "C33:use-after-free") for x in st):
        raise verif.ToolError("binding self-test failed: a handle dropped twice was not reported")
    ctx.cov.update({
        "exhaustive": True,
        "schedule_graphs": graphs,
        "selftests": ["spec mutant FreeOn=2 rejected by TLC (%s)" % rm.violated,
                      "engine: forgotten handle reported as leak", "engine: handle dropped twice reported"],
    })
    ctx.assumptions += [
        "yield points precede fetch_add, fetch_sub, fence and dealloc in repr.rs (arc::ArcStr)",
        "sequentially consistent interleavings only (memory-ordering weakening out of scope, DESIGN §9)",
    ]
