"""C34 — Command signatures bind command, name, parent and author.
TABLE: CryptoBinding.tla (Scheme cmdsig: symbolic term Sign(sk, H(id(pk), name, parent, data)),
id = H(digest, sig)) enumerates every tamper sequence; vh-crypto applies each to real
SigningKey::sign_cmd / VerifyingKey::verify_cmd and the policy FFI crypto::verify (DESIGN §5 C34)."""
import json
import verif
import crypto_util as cu

META = {
    "level": "exploration",
    "engine": "crypto",
    "technique": "TLA+ spec CryptoBinding (symbolic binding terms; TLC checks accept <=> nothing changed and sign/verify id agreement, and refutes a concatenating hash model) as cell enumerator and accept/reject oracle; every TLC behaviour applied to real DefaultCipherSuite keys through sign_cmd/verify_cmd and the crypto FFI verify (TABLE pattern)",
    "text": "TLC enumerates every sequence of <= 3 (thorough 4) tamper steps over: replace signing key / name (different, extended) / parent id / command bytes (different, truncated, and values related to the signed bytes: their SHA-256 and SHA-512 digests and their 32-byte prefix); boundary shifts data->name, name->data, name->parent->data, data->parent->name (concatenation unchanged); modification of the first/middle/last signature byte, truncated/extended signature; modification of the first/middle/last byte of the claimed command id; including sequences that restore the original (shift + inverse shift, extend + truncate) which must verify again. Command data lengths: small (2 units of 1, 5, 16 bytes) at full depth, and 1, 4096, 4097 and 70000 bytes (straddling size thresholds; shifts move the length across them) one step shallower. Each cell is run on seeded instances through verify_cmd+id comparison and through crypto::verify in an Open context. Decides: verification succeeds with the signer's command id iff the spec says nothing changed.",
    "note": "Exploration level: the spec is enumerator and oracle, no cryptographic assurance. Bounds: tamper depth 3/4 (large data 2/3), 3 (thorough 8) instances per cell, Ed25519/SHA-256 DefaultCipherSuite only. Trusted: harness byte surgery mirrors the spec's symbolic moves (cross-checked: concrete equality with the original must agree with the spec's `unchanged`, else the instance is skipped as drift).",
}


def run(ctx):
    ctx.level = "exploration"
    vh = ctx.build("crypto")
    opts = {"inst": 8 if ctx.thorough else 3}
    if ctx.replay:
        case = json.load(open(ctx.replay))["case"]["input"]
        res = ctx.run_engine(vh, "cmdsig", [case], opts=opts)
        ctx.absorb(res)
        cu.finish_cov(ctx, [case], res)
        return
    cu.sensitivity(ctx)
    cells = cu.cells_for(ctx, "cmdsig", thorough_depth=4)
    # command data lengths straddling size thresholds (4096, 4097, 70000 bytes), one step shallower
    big = cu.cells_for(ctx, "cmdsig_big", thorough_depth=3, datalens=cu.BIG_DATA)
    if {b["plen"] for b in big} != set(cu.BIG_DATA):
        raise verif.ToolError("vacuous enumeration: data length classes missing")
    if not any(o["op"] == "replace" and o["a"] == "data" and o["b"] >= 3 for b in big for o in b["ops"]):
        raise verif.ToolError("vacuous enumeration: no related-value replacement of the data")
    cells = cells + big
    for kind in ("move", "replace", "flip", "trunc", "ext"):
        if not any(o["op"] == kind for b in cells for o in b["ops"]):
            raise verif.ToolError("vacuous enumeration: no %s step" % kind)
    res = ctx.run_engine(vh, "cmdsig", cells, opts=opts)
    if len(res) != len(cells):
        raise verif.ToolError("engine returned %d results for %d cells" % (len(res), len(cells)))
    ctx.absorb(res)
    st = cu.selftest(ctx, vh, "cmdsig", cells, opts)
    cu.finish_cov(ctx, cells, res, {
        "selftest": st + "; concat hash model refuted by TLC",
        "samples": [cells[0], next(b for b in cells if any(o["op"] == "move" for o in b["ops"])),
                    next(b for b in cells if b["accept"] and b["ops"])],
    })
    ctx.assumptions += [
        "symbolic terms are injective (ideal signature/hash); real Ed25519/SHA-256 exercised on the enumerated cells only",
        "one symbolic byte = w concrete bytes (w in 1,5,16); fixed-size parent id = 32 bytes",
    ]
