"""C13 — reverting to a checkpoint is exact.

Graph perspective: MC of FactStore.tla (action property RevertExact on every transition) from
three canned contexts + S2I replay into LinearPerspective comparing, after every revert, the
facts and command count of the REAL perspective with the snapshot the engine took of the REAL
perspective when the checkpoint was taken, and every later view with the flat map.
Ephemeral session: SessionOverlay.tla behaviours with failing actions / received commands
(checkpoint + revert inside Session::action / Session::receive) replayed into real sessions
(DESIGN §5 C13)."""
import json
import verif
import storage_util
import C12 as facts_check

META = {
    "level": "model_checking",
    "engine": "storage",
    "technique": "TLA+ specs FactStore (checkpoint/revert on the implementation-shaped perspective, action property RevertExact) and SessionOverlay (failed operations revert the session) model-checked with TLC; one TLC behaviour per transition plus seeded simulation replayed into LinearPerspective::checkpoint/revert and Session::action/receive (spec->impl conformance)",
    "text": "TLC explores every interleaving of insert, delete, add_command, checkpoint and revert (one live checkpoint in the quick tier, nested checkpoints in the thorough tier and in simulation) on the init perspective, on a perspective over a committed index and on a perspective reconstructed in the middle of a segment, followed by writing the perspective and reopening the written segment at each command, and checks on every transition that a revert restores the facts, the command count and the pending updates of the checkpoint. Each behaviour is replayed into the real LinearPerspective: the whole-universe query/query_prefix results and head address seen after revert must equal those the real perspective showed when the checkpoint was taken, and every later view (including mid-segment reconstruction of the written segment, where discarded writes would resurface) must equal the flat map. For sessions, every failing Session::action / Session::receive over two sessions must leave all session views (read through a probing policy) exactly as they were before the call.",
    "note": "Bounds: 1 fact key, <=2 commands x <=2 pending updates per perspective, 1 checkpoint (thorough: 2) in the exhaustive part; simulation: 26 fact keys, 3 nested checkpoints, 120 steps. Checkpoints are used in stack discipline (reverting invalidates later checkpoints). Sessions: 2 keys, <=2 commits, 2 sessions, programs of <=1 update + optional failing check (quick: 1 commit, 1 published command, failing transitions only).",
}

ACTIONS = ["InsertAny", "DeleteAny", "AddCommand", "Checkpoint", "RevertAny", "Write", "Create", "OpenAny"]


def run(ctx):
    vh = ctx.build("storage")
    if ctx.replay:
        case = json.load(open(ctx.replay))["case"]["input"]
        sub = "session" if case["h"] and case["h"][0]["o"] == "commit" else "facts"
        ctx.absorb(ctx.run_engine(vh, sub, [case], opts={"prop": "C13"}))
        return
    cfg = "MC_FactStore_revert.cfg" if not ctx.thorough else "MC_FactStore_revert_thorough.cfg"
    r = ctx.tlc("MC_FactStore", cfg, timeout=3000)
    ctx.require_actions(storage_util.parse_action_coverage(r), ACTIONS)
    beh = r.replays
    if not beh:
        raise verif.ToolError("TLC emitted no behaviours")
    nrev = sum(1 for b in beh if b["e"]["o"] == "revert")
    ndirty = sum(1 for b in beh if b["e"]["o"] == "revert" and b["e"]["dirty"])
    if nrev == 0 or ndirty == 0:
        raise verif.ToolError("no revert / no revert to a checkpoint with pending updates among the behaviours")
    facts_check.replay(ctx, vh, beh, "revert-mc", prop="C13")
    nsim, depth = (8, 120) if not ctx.thorough else (120, 120)
    sim = facts_check.simulate(ctx, "Sim_FactStore_revert.cfg", max(1, nsim // 4), depth, "sim-revert")
    srev = sum(1 for b in sim for s in b["h"] if s["o"] == "revert")
    if srev < nsim:
        raise verif.ToolError("simulation behaviours contain only %d reverts" % srev)
    facts_check.replay(ctx, vh, sim, "revert-sim", prop="C13")
    # sessions: failing operations (checkpoint/revert inside Session::action / receive)
    r2 = ctx.tlc("MC_SessionOverlay", "MC_SessionOverlay.cfg" if ctx.thorough else "MC_SessionOverlay_fail.cfg", timeout=3000)
    ctx.require_actions(storage_util.parse_action_coverage(r2), ["CommitAny", "NewSession", "ActionAny", "ReceiveAny"])
    sb = [b for b in r2.replays if b["e"]["r"] == "err" or ctx.thorough]
    nfail = sum(1 for b in sb if b["e"]["r"] == "err")
    if nfail == 0:
        raise verif.ToolError("no failing session operation among the behaviours")
    if not ctx.thorough:
        sb = verif.sample(ctx.rng, sb, 6000)
    res = ctx.run_engine(vh, "session", sb, opts={"prop": "C13"}, tag="session-revert")
    ctx.absorb(res)
    nss = 8 if not ctx.thorough else 120
    rs = ctx.tlc("MC_SessionOverlay", "Sim_SessionOverlay.cfg", simulate=max(1, nss // 4), depth=51,
                 workers=4, timeout=1500, tag="sim-session")
    ssim = storage_util.dedupe_by_prefix(rs.replays)
    if sum(1 for b in ssim for s in b["h"] if s["r"] == "err") == 0:
        raise verif.ToolError("no failing session operation in the simulation behaviours")
    ctx.absorb(ctx.run_engine(vh, "session", ssim, opts={"prop": "C13"}, tag="session-sim"))
    # binding self-test: a revert whose expectation is perturbed must be noticed
    good = next(b for b in beh if b["e"]["o"] == "revert" and b["e"]["pv"])
    bad = json.loads(json.dumps(good))
    bad["e"]["pv"][0]["v"] += 1
    bad["e"]["ex"] = bad["e"]["pv"]
    st = ctx.run_engine(vh, "facts", [bad], opts={"prop": "C13"}, tag="selftest")
    if st[0].get("ok"):
        raise verif.ToolError("binding self-test failed: perturbed post-revert expectation accepted")
    ctx.cov.update({
        "exhaustive": True,
        "constants": storage_util.cfg_constants(verif.TLA, cfg),
        "one_behaviour_per_transition": len(beh),
        "behaviours_ending_in_revert": nrev,
        "reverts_to_checkpoints_with_pending_updates": ndirty,
        "simulation_behaviours": len(sim),
        "reverts_in_simulation": srev,
        "session_behaviours": len(sb),
        "failing_session_operations": nfail,
        "selftest": "perturbed post-revert expectation rejected by the engine",
    })
    ctx.assumptions += [
        "checkpoints are used in stack discipline: reverting to a checkpoint invalidates the later ones",
        "the session's view is read through Session::action with a probing policy action (sessions expose no query API)",
    ]
