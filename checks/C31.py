"""C31 — the policy compiler CLI honours validation.
TABLE: CliValidate.tla defines the decision table (corpus class x flags) and the outcome relation;
TLC enumerates and checks every cell; the real `policy-compiler` binary, rebuilt from /repo's
current tree, is run on every cell x every corpus document of the cell's class (DESIGN §5 C31)."""
import json
import os
import subprocess
import sys
import time
import verif

META = {
    "level": "exploration",
    "engine": "small",
    "technique": "TLA+ spec CliValidate (main() as a stage pipeline + decision table) model-checked with TLC; every TLC-enumerated cell is concretised with corpus documents and decided by running the real policy-compiler binary (TABLE binding: spec as enumerator and oracle)",
    "text": "TLC enumerates the 112 cells class(missing/unparsable/uncompilable/invalid/valid) x uses-FFI x --no-validate x --stub-ffi x --out x --verbose, checks SuccessOnlyIfAcceptable / WrittenOnlyIfSuccess / InvalidFails / AcceptableSucceeds on the stage model of main() and emits each cell with the outcome the relation defines. The check rebuilds the policy-compiler binary from the current /repo tree and runs it on every cell x every corpus document of the cell's class, deciding on the process exit status and on exactly which files exist afterwards (selected output path, nothing else; a written file must decode as a policy Module).",
    "note": "Exploration: the corpus (5 unparsable, 5 uncompilable, 4+2 invalid, 6+2 valid documents; invalid ones taken from the library's own validator tests) stands for 'all policy documents'; class membership of corpus documents is trusted (cross-checked once against the library). Debug build of the binary (as `cargo build` produces).",
}


def doc(body):
    return "---\npolicy-version: 2\n---\n\n```policy\n" + body.strip("\n") + "\n```\n"


COMMAND_FFI = """
use envelope

command Foo {
    fields {
        a int
    }
    seal { return envelope::do_seal(payload) }
    open { return envelope::do_open(envelope, payload) }
    policy {
        finish {}
    }
    recall default() {
        finish {}
    }
}
"""

CORPUS = {
    "unparsable": [
        ("syntax-missing-paren", doc("function f( int {\n    return 0\n}")),
        ("not-policy-text", doc("this is not a policy at all")),
        ("no-front-matter", "```policy\nfunction f() int {\n    return 0\n}\n```\n"),
        ("empty-file", ""),
        ("unbalanced-brace", doc("function f() int {\n    return 0\n")),
    ],
    "uncompilable": [
        ("undefined-identifier", doc("function f() int {\n    return x\n}")),
        ("type-mismatch", doc("function f() int {\n    return true\n}")),
        ("unknown-function", doc("function f() int {\n    return g()\n}")),
        ("duplicate-function", doc("function f() int {\n    return 0\n}\nfunction f() int {\n    return 1\n}")),
        ("unknown-struct", doc("function f() struct Nope {\n    return Nope { a: 1 }\n}")),
    ],
    "invalid": [
        ("missing-return-if", doc("function b() int {\n    if false {\n        return 0\n    }\n}")),
        ("missing-return-else", doc("function e() int {\n    let n = 0\n    if n > 0 {\n\n    }\n    else {\n        return 0\n    }\n}")),
        ("missing-return-match-arm", doc("function h(n int) int {\n    match n {\n        0 => { return 0 }\n        _ => { }\n    }\n}")),
        ("one-bad-among-good", doc("function a() int {\n    return 0\n}\nfunction b() int {\n    if false {\n        return 0\n    }\n}\nfunction c() int {\n    return 2\n}")),
    ],
    "valid": [
        ("return-const", doc("function a() int {\n    return 0\n}")),
        ("if-then-return", doc("function c() int {\n    if true {\n    }\n    return 6\n}")),
        ("if-else-return", doc("function f() int {\n    if true {\n        return 1\n    }\n    else {\n        return 0\n    }\n}")),
        ("match-return", doc("function g(n int) int {\n    match n {\n        0 => { return 0 }\n        _ => { return n }\n    }\n}")),
        ("struct-convert", doc("struct Foo {\n    a int,\n    b string,\n}\n\nstruct Bar {\n    b string,\n    a int,\n}\n\nfunction convert() struct Bar {\n    return Foo { a: 1, b: \"test\" } as Bar\n}")),
        ("several-functions", doc("function a() int {\n    return 0\n}\nfunction d() int {\n    let n = 0\n    if n > 0 {\n    }\n    else {\n        return 0\n    }\n    return 1\n}")),
    ],
    "invalid+ffi": [
        ("action-branch-without-publish", doc(COMMAND_FFI + "\naction f() {\n    if true {\n        publish Foo { a: 0 }\n    }\n}")),
        ("action-else-if-without-publish", doc(COMMAND_FFI + "\naction g() {\n    if true {\n    }\n    else if false {\n    }\n    else {\n        publish Foo { a: 0 }\n    }\n}")),
    ],
    "valid+ffi": [
        ("action-publishes", doc(COMMAND_FFI + "\naction a() {\n    publish Foo { a: 0 }\n}")),
        ("action-both-branches-publish", doc(COMMAND_FFI + "\naction d() {\n    if true {\n        publish Foo { a: 0 }\n    }\n    else {\n        publish Foo { a: 1 }\n    }\n}")),
    ],
    "missing": [("no-such-file", "")],
}


def build_cli(ctx):
    """cargo build of the real binary from the current /repo tree (every run)."""
    tgt_base = os.environ.get("VERIF_TARGET_DIR") or os.path.join(verif.HARNESS, "target")
    tgt = os.path.join(tgt_base, "repo-cli")
    env = dict(os.environ)
    env["CARGO_NET_OFFLINE"] = "true"
    env["CARGO_TARGET_DIR"] = tgt
    env.pop("RUSTFLAGS", None)
    t = time.time()
    p = subprocess.run(["cargo", "build", "--offline", "-q", "-p", "aranya-policy-compiler",
                        "--bin", "policy-compiler"],
                       cwd=verif.REPO, env=env, stdout=subprocess.PIPE, stderr=subprocess.STDOUT, text=True)
    if p.returncode != 0:
        sys.stderr.write(p.stdout[-6000:])
        raise verif.ToolError("cargo build of policy-compiler failed")
    path = os.path.join(tgt, "debug", "policy-compiler")
    if not os.path.exists(path):
        raise verif.ToolError("policy-compiler binary not found at " + path)
    ctx.log("built policy-compiler in %.1fs" % (time.time() - t))
    return path


def concretise(cells):
    items = []
    for c in cells:
        cls = c["cell"]["class"] + ("+ffi" if c["cell"]["ffi"] else "")
        for name, text in CORPUS[cls]:
            it = dict(c)
            it["doc_name"] = name
            it["doc"] = text
            items.append(it)
    return items


def run(ctx):
    ctx.level = "exploration"
    vh = ctx.build("small")
    cli = build_cli(ctx)
    opts = {"bin": cli}
    if ctx.replay:
        case = json.load(open(ctx.replay))["case"]["input"]
        ctx.absorb(ctx.run_engine(vh, "cli", [case], opts=opts))
        return

    r = ctx.tlc("CliValidate", "MC_CliValidate.cfg", timeout=600)
    ctx.require_actions(r, ["Read", "Parse", "Compile", "Validate", "StubCheck", "Write"])
    cells = r.replays
    if len(cells) != 112:
        raise verif.ToolError("expected 112 cells, TLC emitted %d" % len(cells))
    # the inverted use of validate() (DESIGN §7.3) must violate the spec's invariants
    rb = ctx.tlc("CliValidate", "MC_CliValidate_inverted.cfg", allow_violation=True, coverage=False)
    ctx.states -= rb.states
    ctx.transitions -= rb.generated
    if rb.violated not in ("SuccessOnlyIfAcceptable", "WrittenOnlyIfSuccess", "InvalidFails", "AcceptableSucceeds"):
        raise verif.ToolError("spec self-test: inverted main should violate the invariants, TLC says %r" % rb.violated)

    items = concretise(cells)
    res = ctx.run_engine(vh, "cli", items, opts=opts, timeout=1800)
    if len(res) != len(items):
        raise verif.ToolError("engine returned %d results for %d items" % (len(res), len(items)))
    ctx.absorb(res)

    # binding self-test: cells with the expectation flipped must be rejected (cells that do not
    # depend on the validation decision, so the self-test says something about the binding only)
    base = next(i for i in items if i["cell"]["class"] == "valid" and not i["cell"]["stubffi"]
                and i["cell"]["novalidate"] and not i["cell"]["ffi"])
    bad1 = dict(base, success=False, written=False)
    base2 = next(i for i in items if i["cell"]["class"] == "unparsable" and not i["cell"]["stubffi"])
    bad2 = dict(base2, success=True, written=True)
    bad3 = dict(base, written=False)
    st = ctx.run_engine(vh, "cli", [bad1, bad2, bad3], opts=opts, tag="selftest")
    if any(x.get("ok") for x in st) and ctx.nviol == 0:
        raise verif.ToolError("binding self-test failed: flipped expectation accepted")

    nontrivial = len({json.dumps(i["cell"], sort_keys=True) for i in items if i["success"]})
    ctx.cov.update({
        "exhaustive": True,
        "cells": len(cells),
        "evaluations": len(items),
        "distinct_nontrivial": nontrivial,
        "rule": "exit success AND module written at the selected path (unless --stub-ffi: success, no file) <=> exists AND parses AND compiles AND (--no-validate OR passes validation); otherwise non-zero exit and no file; never a stray file",
        "corpus": {k: [n for n, _ in v] for k, v in CORPUS.items()},
        "selftest": "flipped expectations rejected; inverted-main configuration violates the spec invariants",
    })
    ctx.assumptions += [
        "corpus documents belong to the class they are filed under (invalid ones are the library's own validator test cases)",
        "binary built with the dev profile from the current /repo tree",
        "a tracer-internal error (TraceError, unreachable for compiler-produced modules) is outside the table",
    ]
