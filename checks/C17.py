"""C17 — Sync sessions are sound and terminate.
MC SyncAbs.tla (property level + implementation-shaped refinement) and I2S: real
SyncRequester/SyncResponder sessions between real replicas built from every TLC-chosen
(DAG shape, A.committed, B.committed), stretched past the 100-command / 100-segment limits, with
too-small poll buffers and retries, validated by Trace_Sync.tla (DESIGN §5 C16/C17)."""
import json
import verif
import sync_util as su

PROP = "C17"

META = {
    "level": "model_checking",
    "engine": "sync",
    "technique": "TLA+ spec SyncAbs model-checked with TLC (session safety at property level; implementation-shaped requester sampling / find_needed_segments / limits proved to refine it); traces of real SyncRequester/SyncResponder sessions validated against Trace_Sync (impl->spec conformance)",
    "text": "TLC checks on every DAG shape up to the bound and every pair of causally closed committed sets that a session Sample -> Respond* -> End only delivers commands the responder committed, parents first, with indices 0,1,2.., finitely many responses, and that the implementation-shaped session (sampling from heads and peer cache, needed segments bounded and sorted by max cut, response limit) is such a session. TLC's pairs are the inputs of the conformance run: both replicas are built for real (different delivery orders, segment cuts, commit points), abstract commands are stretched into chains/fans of up to 300 real commands so responses overflow and segments straddle responses, sessions run in the three usage patterns of the repository (poll until SyncEnd; one response per session with commit; one response per session against an open flushed transaction) with full-size, too-small-then-retry and growing poll buffers, and Trace_Sync decides per recorded response: every command committed by the responder and identical to it, add_commands accepted it (parents first), index = number of earlier responses, SyncEnd.max_index = number of responses, session ended within the bound.",
    "note": "Bounds: conformance pairs from shapes <= 4 commands (232 pairs) in quick, <= 5 (2280 pairs) in thorough; property-level MC on shapes <= 3 (thorough 4), implementation-shaped MC on shapes <= 4 (thorough 5) with limits 2; stretch <= 300 per abstract command; pinned threshold cases. Trusts the harness accept-all policy, in-memory linear storage, and the wire mirror (self-tested against the real encoder/decoder on every run).",
}


def run(ctx):
    vh = ctx.build("sync")
    pairs = su.spec_runs(ctx)
    if ctx.replay:
        case = json.load(open(ctx.replay))["case"]["input"]
        res, bad, _ = su.run_sessions(ctx, vh, [case], tag="replay")
        su.report(ctx, PROP, [case], res, bad)
        ctx.traces += 1
        ctx.samples.append(case)
        return
    cases, npinned = su.build_cases(ctx, pairs)
    st = next(k for k, c in enumerate(cases) if c.get("pinned") == "straddle-2x60")
    res, bad, nlines = su.run_sessions(ctx, vh, cases, selftest_case=st)
    su.report(ctx, PROP, cases, res, bad)
    ctx.traces += len(cases)
    ctx.samples += cases[npinned:npinned + 2]
    sess = [r["obs"]["sessions"] for r in res]
    ctx.cov.update({
        "exhaustive": True,
        "constants": {"property_level": "MaxNodes %d, RespMax 2, MaxSessions 3" % (4 if ctx.thorough else 3), "impl_shaped": "MaxNodes %d, SampleMax/RespMax/SegMax/CacheMax 2" % (5 if ctx.thorough else 4),
                      "pairs": len(pairs)},
        "cases": len(cases), "pinned": npinned, "trace_events": nlines,
        "sessions_run": sum(s for s in sess if s > 0),
        "commands_max": max(r["obs"]["cmds"] for r in res),
        "patterns": {p: sum(1 for c in cases if c["pattern"] == p) for p in su.PATTERNS},
        "bufs": {b: sum(1 for c in cases if c["bufs"] == b) for b in su.BUFS},
    })
    ctx.assumptions += ["harness accept-all policy and in-memory linear storage stand in for production policy/storage",
                        "a session's responses are bounded by the number of commands of the case + 2 (no-end bound)"]
