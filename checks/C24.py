"""C24 — policies the compiler accepts do not go wrong.
Over every program of the C22 and C23 generators, the untyped grammar AnyExprs and the quirk
productions of PolicyLang.tla (programs outside the type system which a lax compiler may accept):
whatever the real compiler accepts is run on every argument tuple and must not end in a machine
error other than I/O, FFI or stack exhaustion (DESIGN §5 C24)."""
import verif
import vm_util

META = {
    "level": "exploration",
    "engine": "vm",
    "technique": "TLA+ spec PolicyLang (typed derivation generator, untyped AnyExprs, quirk productions; TypeOf predicts acceptance) explored with TLC; every program the real compiler accepts is run in the real VM and the MachineErrorType class is the verdict",
    "text": "Programs: all C22/C23 programs (typed grammar, exhaustive depth 1 + statements + seeded simulation, with and without panicking/foreign-call atoms), `return e` for every e of the untyped grammar AnyExprs(1), and quirk productions (an arm mixing a binding with a pattern of another variant, struct literals leaving a field out, a global struct literal with ill-typed or missing fields). The real parser/compiler decides acceptance (rejection is counted, never an alarm); accepted programs run on every argument tuple; VIOLATION iff RunState::run returns a MachineErrorType other than StackOverflow / IO / FFI errors, or the VM panics. The spec's TypeOf is compared with the compiler's verdict as evidence (accepted_untyped).",
    "note": "Exploration: the program space is sampled by the spec's grammars (depth <= 3), not covered. rule: outcome class in {value, exit(Normal/Panic/Check), IO/FFI error, StackOverflow}. Command policies with facts are covered by C29/C30.",
}

CFGS = [("depth1", "MC_PolicyLang.cfg", None), ("stmt", "MC_PolicyLang_stmt.cfg", None),
        ("fx", "MC_PolicyLang_fx.cfg", None), ("fxstmt", "MC_PolicyLang_fxstmt.cfg", None),
        ("ret", "MC_PolicyLang_ret.cfg", None), ("quirks", "MC_PolicyLang_quirks.cfg", None), ("any", "MC_PolicyLang_any.cfg", None)]


def run(ctx):
    ctx.level = "exploration"
    vh = ctx.build("vm")
    if ctx.replay:
        pre, prog = vm_util.load_replay(ctx)
        ctx.absorb(vm_util.replay(ctx, vh, "C24", pre, [prog], "replay", batch=1))
        return
    vm_util.run_pinned(ctx, vh, "C24")
    runs = []
    pre = None
    for tag, cfg, _ in CFGS:
        if tag in ("fxstmt", "ret") and not ctx.thorough:
            continue  # quick-tier budget: these families are decided by C22/C23 in the quick tier
        sub = None
        if ctx.thorough and tag == "depth1":
            sub = {"MC_RetQuick": "MC_RetAll"}
        if ctx.thorough and tag == "any":
            sub = {"Effects = FALSE": "Effects = TRUE"}
        pre, progs, _ = vm_util.generate(ctx, cfg, subst=sub, timeout=1800)
        runs.append((tag, progs))
    _, ps, _ = vm_util.generate(ctx, "MC_PolicyLang_sim.cfg", simulate=5000 if ctx.thorough else 150, depth=400)
    runs.append(("sim", ps))
    _, ps, _ = vm_util.generate(ctx, "MC_PolicyLang_fxsim.cfg", simulate=3000 if ctx.thorough else 120, depth=400)
    runs.append(("fxsim", ps))
    allres = []
    accepted_untyped = 0
    distinct = set()
    for tag, ps in runs:
        # untyped candidates are mostly rejected: give each its own document
        res = vm_util.replay(ctx, vh, "C24", pre, ps, tag, batch=(1 if tag in ("any", "quirks") else 200))
        ctx.absorb(res)
        allres += res
        for r in res:
            o = r.get("obs", {})
            typed = r.get("_in", {}).get("typed")
            st = o.get("status") if r.get("ok") else "failing"
            distinct.add((tag, st, bool(typed)))
            if st in ("ran", "failing") and not typed:
                accepted_untyped += 1
    t = vm_util.tally(allres)
    if t["ran"] + t["failing"] == 0:
        raise verif.ToolError("vacuous: the compiler accepted nothing")
    ctx.cov.update({
        "evaluations": t["envs"],
        "programs_accepted": t["ran"] + t["failing"],
        "programs_rejected": t["rejected_compile"] + t["rejected_parse"],
        "accepted_untyped": accepted_untyped,
        "distinct_nontrivial": len(distinct),
        "rule": "an accepted program ends with a value, ExitReason Normal/Panic/Check, an IO/FFI error or StackOverflow; any other MachineErrorType (InvalidType, UnresolvedTarget, InvalidAddress, StackUnderflow, NotDefined, AlreadyDefined, InvalidStructMember, BadState, CallStack, Unknown, ...) or a VM panic is a violation",
        "by_run": {tag: len(ps) for tag, ps in runs},
        "tally": t,
    })
    ctx.assumptions += ["pure functions only (no facts/effects): command policies are C29/C30's programs"]
