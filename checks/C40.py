"""C40 — AFC sequence numbers never repeat within a seal context.
MC AfcShm.tla (+ AfcMem.tla) + SCHED replay on the real ReadState/WriteState (and memory::State)
(DESIGN §5 C40)."""
import json
import afc_util
import verif

META = {
    "level": "model_checking",
    "engine": "afc",
    "technique": "TLA+ spec AfcShm (readers with a cached key that carries the sequence number, one action per yield point) model-checked with TLC for SeqsOk; edge-covering schedules of its state graph replayed on the real shm ReadState/WriteState under the yield-point scheduler with real seal operations, the verdict coming from the sequence numbers the real SealKey returns; call/return history validated against AfcAbs",
    "text": "TLC checks every interleaving of a reader that sets up a seal context and seals repeatedly - each seal may fail inside the closure (buffer too small) - with a writer adding and removing *other* channels, which changes the list generation and forces the reader to re-derive its key from shared memory at the cached sequence number: the successful seals of a context carry 0, 1, 2, ... The spec mutants that re-derive at 0 - always, or only when swap_remove moved the channel to another list slot (stale lookup hint) - must be rejected. Every transition of the schedule graphs is executed on the real code with real AES-GCM seals through AfcState::seal; each sealed message is opened with the channel's own key at the returned number. VIOLATION only if the numbers returned by the real successful seals of one context are not 0, 1, 2, ..., or the history is rejected by AfcAbs (C40 guards).",
    "note": "Bounds: capacity 2; design run 5 writer scripts of 3 calls x 1 reader x (setup + 3 seals, each may fail) (thorough: 2 readers x 3 calls); schedule graphs as for C41, incl. capacity 3 scripts in which the removal of a lower-indexed channel relocates the reader's channel. Sequentially consistent interleavings only (DESIGN §9). Seal failures are injected in the closure passed to AfcState::seal.",
}


def run(ctx):
    vh = ctx.build("afc")
    if ctx.replay:
        case = afc_util.load_replay(ctx)
        ctx.absorb(ctx.run_engine(vh, "mem" if case.get("engine") == "mem" else "shm", [case], opts={"only": "C40"}))
        return
    cfgs = ["MC_AfcShm_c40.cfg"] + (["MC_AfcShm_c40_thorough.cfg"] if ctx.thorough else [])
    (beh, trace), sel = afc_util.shm_check(ctx, vh, "C40", cfgs, [("MC_AfcShm_mut_seq.cfg", "SeqsOk"), ("MC_AfcShm_mut_moved.cfg", "SeqsOk")])
    afc_util.mem_check(ctx, vh, "C40")
    if ctx.nviol:
        # self-tests use the recorded results of this run; with violations present they prove nothing
        ctx.cov["selftests"] = ["skipped: the run found violations"]
        return
    # binding self-test: a history in which a seal repeats its number must be rejected
    evs = [json.loads(l) for l in open(trace).read().splitlines()]
    k = next((i for i, e in enumerate(evs) if e["ev"] == "ret" and e["what"] == "seal" and e["res"] == "ok" and e["seq"] == 1), None)
    if k is None:
        raise verif.ToolError("binding self-test impossible: no second successful seal in the recorded history")
    evs[k]["seq"] = 0
    bad = ctx.write_ndjson("selftest.trace.ndjson", evs[:k + 1])
    ok, n, _ = ctx.validate_trace("Trace_AfcAbs", "Trace_AfcAbs.cfg", bad, env={"PROP": "C40"}, tag="trace-selftest")
    if ok or n != k + 1:
        raise verif.ToolError("binding self-test failed: history with a repeated sequence number accepted (ok=%s at=%s)" % (ok, n))
    nseals = sum(1 for e in evs if e["ev"] == "ret" and e["what"] == "seal" and e["res"] == "ok")
    ctx.cov["selftests"] = sel + ["trace: repeated sequence number rejected at the corrupted event"]
    ctx.cov["successful_seals_in_validated_history"] = nseals
