"""C39 — AFC messages are authenticated and opening never panics.
TABLE/S2I: AfcMessage.tla (symbolic-byte model of ciphertext||tag||header, ideal AEAD) is
model-checked by TLC (accept iff byte-identical to a sealed message in the sealing context; open
total over all byte strings); every TLC behaviour (seal history x presentation op x open
interface) is replayed into the real `aranya_fast_channels::Client` over `memory::State`
(DESIGN §5 C39)."""
import json
import verif

META = {
    "level": "exploration",
    "engine": "crypto",
    "technique": "TLA+ spec AfcMessage (symbolic bytes, ideal AEAD) model-checked with TLC as case enumerator and accept/reject oracle; every TLC behaviour replayed into Client::seal/seal_in_place/open/open_in_place (spec->impl conformance, TABLE pattern)",
    "text": "TLC enumerates, for plaintext lengths 0..40 and 4096 (thorough: 0..64, 1000, 4096), every cut length 0..len-1, one- and two-point modifications at the first/middle/last byte of ciphertext, tag and header, header re-encoding to other sequence numbers (incl. 2^64-1), tag splices and concatenations across messages of the same channel, inserted/appended bytes, arbitrary strings of length 0..64 (random, all-zero, all-0xff), foreign key and foreign label openers, and all open interfaces (open with exact/larger/smaller dst, open_in_place on Vec, FixedBuf, heapless::Vec, and Message::try_parse framing with intact / wrong-version / control-type / invalid-type / short frame headers); invariants AcceptOnlyAuthentic, AuthenticAccepted, ReturnsWhatWasSealed, Total0, SeqDense hold in the model. Each behaviour is executed on the real client with seeded keys/plaintexts: authentic messages must open (twice) to exactly the plaintext, channel label and sealing sequence number; every other string must be Err without panic and leave no plaintext in the output buffer.",
    "note": "Exploration level: the spec contributes the enumeration and the oracle, not cryptographic assurance. Bounds: see text; 1-2 (thorough 3) messages per channel. Error classes (size/auth/small/expired) are compared as drift only. Trusted: memory::State as channel store, DefaultCipherSuite (AES-256-GCM), catch_unwind for panics, overflow-checks on in the harness profile.",
}

RULE = ("cells = maximal behaviours of AfcMessage.tla (seal history x presentation op x open call) enumerated "
        "exhaustively by TLC; a cell is non-trivial when the presented string is not the untouched message "
        "opened in the sealing context (i.e. the expected outcome is a rejection or a short-buffer error); "
        "distinct = distinct (lens, target, op, call) tuples")


def run(ctx):
    ctx.level = "exploration"
    vh = ctx.build("crypto")
    if ctx.replay:
        case = json.load(open(ctx.replay))["case"]["input"]
        ctx.absorb(ctx.run_engine(vh, "afcmsg", [case]))
        ctx.cov.update({"evaluations": 1, "distinct_nontrivial": 0 if case["expect"]["ok"] else 1, "rule": RULE})
        return
    cfgs = (["MC_AfcMessage_thorough.cfg", "MC_AfcMessage_multi_thorough.cfg"] if ctx.thorough
            else ["MC_AfcMessage.cfg", "MC_AfcMessage_multi.cfg"])
    beh = []
    for cfg in cfgs:
        r = ctx.tlc("AfcMessage", cfg, timeout=1500)
        ctx.require_actions(r, ["Seal", "Open"] + (["SealSmallDst"] if "multi" in cfg else []))
        if not r.replays:
            raise verif.ToolError("TLC emitted no behaviours for " + cfg)
        beh += r.replays
    # vacuity: the enumeration must contain accepted and rejected cells of every interface
    for iface in ("open", "framed", "inplace_vec", "inplace_fixed", "inplace_heapless"):
        for ok in (True, False):
            if not any(b["call"]["iface"] == iface and b["expect"]["ok"] == ok for b in beh):
                raise verif.ToolError("vacuous enumeration: no %s cell with ok=%s" % (iface, ok))
    res = ctx.run_engine(vh, "afcmsg", beh, timeout=1800)
    if len(res) != len(beh):
        raise verif.ToolError("engine returned %d results for %d behaviours" % (len(res), len(beh)))
    ctx.absorb(res)
    # binding self-tests: (a) a cell whose spec expectation is flipped to "accept" must be noticed;
    # (b) an authentic cell presented to a foreign-key opener while the spec says accept must be noticed
    rej = dict(next(b for b in beh if not b["expect"]["ok"] and b["op"]["op"] == "flip"))
    rej["expect"] = dict(rej["expect"], ok=True, err="none", pt=rej["t"], seq=0)
    acc = dict(next(b for b in beh if b["expect"]["ok"]))
    acc["call"] = dict(acc["call"], opener="otherkey")
    st = ctx.run_engine(vh, "afcmsg", [rej, acc], tag="selftest")
    if len(st) != 2 or st[0].get("ok") or st[1].get("ok"):
        raise verif.ToolError("binding self-test failed: perturbed expectations accepted")
    keyset = {json.dumps([b["lens"], b["failat"], b["t"], b["op"], b["call"]], sort_keys=True) for b in beh}
    nontrivial = {json.dumps([b["lens"], b["failat"], b["t"], b["op"], b["call"]], sort_keys=True)
                  for b in beh if not b["expect"]["ok"]}
    ops = {}
    for b in beh:
        ops[b["op"]["op"]] = ops.get(b["op"]["op"], 0) + 1
    ctx.cov.update({
        "exhaustive": True,
        "evaluations": len(beh),
        "distinct": len(keyset),
        "distinct_nontrivial": len(nontrivial),
        "rule": RULE,
        "cells_by_op": ops,
        "cells_accepting": sum(1 for b in beh if b["expect"]["ok"]),
        "configs": cfgs,
        "selftest": "flipped expectation and foreign-key opener both rejected by the engine",
        "samples": [beh[0], next(b for b in beh if b["op"]["op"] == "cut" and 8 <= b["op"]["a"] < 24
                                 and b["call"]["iface"] != "open"),
                    next(b for b in beh if b["op"]["op"] == "hdrseq")],
    })
    ctx.assumptions += [
        "ideal-AEAD abstraction in the spec; the real AES-256-GCM is exercised only on the enumerated cells",
        "memory::State stands for every AfcState implementation (Client is generic over it)",
        "panics are observed through catch_unwind with overflow-checks/debug-assertions on",
    ]
