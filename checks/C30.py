"""C30 — facts and effects change only inside finish blocks.
PolicyStmts.tla enumerates command policies (check / check-with-recall / recall / match / if / let /
function call / finish / finish-function arrangements, with the run-time value of every condition),
gives each its reference outcome and checks the C30 statement and the agreement of an abstract
compiled form with it; every program is rendered, compiled with the real compiler and run through
VmPolicy on runtime storage with a spying perspective and sink (DESIGN §5 C30)."""
import collections
import json
import os

import verif

META = {
    "level": "translation_validation",
    "engine": "vmpolicy",
    "technique": "TLA+ spec PolicyStmts (reference semantics of command-policy statements + abstract compiled form, "
                 "model-checked with TLC: no side effects on Panic / Check-without-recall, recalled flag, compiled form = "
                 "reference semantics) as enumerator and oracle; every enumerated program is compiled by the real compiler "
                 "and run by the real VM through VmPolicy::call_action on a runtime perspective, comparing exit, "
                 "fact_insert/fact_delete calls, effects (with recalled flag) and stored facts",
    "text": "TLC enumerates every command policy within the bounds as an initial state — statement sequences over let, "
            "function call (may panic), debug_assert, check-else-panic, check-else-recall, recall, if/else, if/else-if/else, match and a terminal finish "
            "block (emit / create / delete / update / finish-function call), with a recall block from a menu, each condition "
            "carrying the value it takes at run time — and computes the reference outcome [exit, MachineIO calls, recall "
            "entered]. TLC checks on every program that a Panic or a Check without recall has no side effects, that effects "
            "carry recalled exactly when a recall was entered, and that an abstract lowering to branch/jump/recall/exit "
            "instructions (as compile.rs lowers statements) run by an abstract stepper yields the same outcome. Each program "
            "is rendered to a command (conditions become command fields), batched into policy documents, compiled with the "
            "real compiler (rejected programs are bisected out and counted) and evaluated by VmPolicy on a fresh linear-storage "
            "perspective wrapped in a spy that logs insert/delete; VIOLATION iff a real Panic / Check-without-recall run "
            "touched facts or emitted effects, a recall effect is not marked recalled, or the fact writes / effects / stored "
            "facts differ from the reference outcome. The enumeration also contains programs with a misplaced finish-only "
            "statement (emit/create/delete/finish-function call outside finish, inline or inside a pure function): the spec shows "
            "they would break the property if accepted, the check confirms the compiler rejects them and, should one be accepted, "
            "runs it under the same predicate. The same is done for finish statements whose field value is an expression of each "
            "ExprKind that check_finish_expression must refuse (user-function call that can panic, builtin call, todo(), if/match/"
            "block expressions, or-coalescing, count_up_to, boolean operators, is) placed behind an earlier write of the same finish "
            "block / finish function; each such program has a control twin with the expression hoisted into a let, which must "
            "compile and run to the spec's outcome.",
    "note": "Bounds: quick — every policy block of <= 3 statements (nested ones counted), nesting <= 2, 5 finish bodies, 6 "
            "recall blocks, 3 arm bodies for match and else-if (19 114 programs, each with the run-time values of its conditions, "
            "plus 88 with a misplaced statement); thorough — additionally every flat block of <= 4 statements incl. debug_assert "
            "and ~10 000 random derivations with <= 4 statements, "
            "nesting 2 (that space has 307 704 programs; its enumeration does not fit the time budget). Trusted: the renderer, the spy perspective (delegating wrapper around the real perspective), the "
            "harness' decoder of stored keys/values, TestFfiEnvelope seal/open, the spec's reading of the statement "
            "semantics (policy book + documented compiler behaviour: finish exits Normal, Check in a recall block; the end of "
            "a policy block panics). Compiler-rejected programs are skipped and counted; > 2% rejected is a tool error.",
}


def classes(cases):
    c = collections.Counter()
    for b in cases:
        c["exit:" + b["exit"]] += 1
        if b["rec"]:
            c["recall-entered"] += 1
            if any(x["io"] == "effect" for x in b["io"]):
                c["recall-with-effects"] += 1
        if b["io"]:
            c["with-side-effects"] += 1
        if b["exit"] == "Normal" and any(x["io"] in ("insert", "delete") for x in b["io"]):
            c["normal-with-fact-writes"] += 1
    return c


def has_stmt(block, pred):
    for s in block:
        if pred(s):
            return True
        if s["t"] == "if" and (has_stmt(s["a"], pred) or has_stmt(s["b"], pred)):
            return True
        if s["t"] == "match" and any(has_stmt(a, pred) for a in s["arms"]):
            return True
    return False


def pinned(prop):
    d = verif.PINNED
    out = []
    if os.path.isdir(d):
        for f in sorted(os.listdir(d)):
            if f.startswith(prop + "-") and f.endswith(".json"):
                out.append(json.load(open(os.path.join(d, f)))["case"]["input"])
    return out


def run(ctx):
    ctx.level = "translation_validation"
    vh = ctx.build("vmpolicy")
    if ctx.replay:
        case = json.load(open(ctx.replay))["case"]["input"]
        ctx.absorb(ctx.run_engine(vh, "stmts", [case]))
        return
    cfg = "MC_PolicyStmts.cfg"
    r = ctx.tlc("MC_PolicyStmts", cfg, timeout=3000, cache=True)
    cases = r.replays
    states = r.states
    nsim = 0
    if ctx.thorough:
        r2 = ctx.tlc("MC_PolicyStmts", "MC_PolicyStmts_thorough.cfg", timeout=3000, cache=True)
        states += r2.states
        r3 = ctx.tlc("MC_PolicyStmts", "Sim_PolicyStmts.cfg", workers=1, simulate=100, depth=101, timeout=3000,
                     cache=True)
        seen = {json.dumps(c, sort_keys=True) for c in cases}
        for c in r2.replays + r3.replays:
            k = json.dumps(c, sort_keys=True)
            if k not in seen:
                seen.add(k)
                cases.append(c)
        nsim = len(r3.replays)
    if not cases:
        raise verif.ToolError("TLC emitted no programs")
    cl = classes(cases)
    need = ["exit:Normal", "exit:Check", "exit:Panic", "recall-with-effects", "normal-with-fact-writes"]
    missing = [k for k in need if cl[k] == 0]
    if missing:
        raise verif.ToolError("vacuous enumeration: no program with %s" % ", ".join(missing))
    for kind in ("if", "if3", "match", "call", "recall"):
        if not any(has_stmt(b["policy"], lambda s, k=kind: s["t"] == k) for b in cases):
            raise verif.ToolError("vacuous enumeration: no program with a %s statement" % kind)
    cases = cases + pinned("C30")
    res = ctx.run_engine(vh, "stmts", cases, timeout=2400)
    if len(res) != len(cases):
        raise verif.ToolError("engine returned %d results for %d programs" % (len(res), len(cases)))
    stray = [x for x in res if x["_in"].get("stray")]
    stray_rejected = sum(1 for x in stray if x.get("stray_rejected"))
    rejected = sum(1 for x in res if x.get("rejected") and not x.get("stray_rejected"))
    controls = collections.Counter(x.get("control") for x in res if x.get("control"))
    if controls["rejected"]:
        raise verif.ToolError("%d control programs (finish-field expression hoisted into a let) were rejected by the "
                              "compiler: the rendering of that expression kind is not valid policy text, so its "
                              "rejection inside finish proves nothing" % controls["rejected"])
    fx = [x for x in stray if any(k in json.dumps(x["_in"]) for k in ('"emitx"', '"createx"', '"ffx"'))]
    if not fx or not controls["ok"]:
        raise verif.ToolError("vacuous enumeration: no finish-field expression programs / controls")
    if rejected * 50 > len(cases):
        raise verif.ToolError("%d of %d generated programs were rejected by the real compiler" % (rejected, len(cases)))
    ctx.absorb(res)
    # binding self-test: perturbed expectations must be rejected
    ok = [x["_in"] for x in res if x.get("ok") and not x.get("rejected") and not x["_in"].get("stray")]
    bad = []
    b = next((x for x in ok if x["exit"] == "Normal" and any(i["io"] == "effect" for i in x["io"])), None)
    if b:
        c = json.loads(json.dumps(b))
        c["io"] = [i for i in c["io"] if i["io"] != "effect"]
        bad.append(c)                         # an expected effect dropped
    b = next((x for x in ok if x["rec"] and any(i["io"] == "effect" for i in x["io"])), None)
    if b:
        c = json.loads(json.dumps(b))
        c["rec"] = False
        for i in c["io"]:
            if i["io"] == "effect":
                i["recalled"] = False
        bad.append(c)                         # spec pretends no recall: real recalled effects must be flagged
    b = next((x for x in ok if x["exit"] == "Normal" and any(i["io"] == "insert" for i in x["io"])), None)
    if b:
        c = json.loads(json.dumps(b))
        c["exit"] = "Panic"
        c["io"] = []
        c["facts"] = [[1, 1]]
        bad.append(c)                         # expected Panic without effects, real run writes
    if len(bad) < 3:
        if ctx.nviol == 0:
            raise verif.ToolError("binding self-test: could not build the perturbed cases")
    else:
        st = ctx.run_engine(vh, "stmts", bad, tag="selftest")
        if len(st) != len(bad) or any(x.get("ok") for x in st):
            raise verif.ToolError("binding self-test failed: a perturbed expectation was accepted")
    ran = len(cases) - rejected - stray_rejected
    ctx.cov.update({
        "exhaustive": True,
        "constants": {"exhaustive": "MaxStmts=3 MaxDepth=2, 5 finish bodies, 6 recall blocks, 3 arm bodies (match, else-if)"
                      + ("; MaxStmts=4 MaxDepth=0 with debug_assert" if ctx.thorough else ""),
                      "simulation": "100 x 100 random derivations, MaxStmts=4 MaxDepth=2" if ctx.thorough else "none"},
        "programs": ran,
        "programs_generated": len(cases),
        "programs_rejected_by_compiler": rejected,
        "misplaced_statement_programs": len(stray),
        "misplaced_rejected_by_compiler": stray_rejected,
        "misplaced_accepted_and_run": len(stray) - stray_rejected,
        "finish_field_expression_programs": len(fx),
        "finish_field_expression_controls": dict(controls),
        "disagreements_checked": ran,
        "states": states,
        "random_derivations": nsim,
        "classes": dict(cl),
        "explanation": "every generated program is compiled and run once (its condition values are part of the program); "
                       "disagreements_checked counts programs whose real exit / fact writes / effects / stored facts were "
                       "compared with the reference outcome",
        "selftest": "%d perturbed expectations rejected" % len(bad),
    })
    ctx.assumptions += [
        "programs with a finish-only statement outside a finish block (inline or inside a pure function) are expected to be rejected; one the compiler accepts is run and judged by the property's predicate alone (Panic / Check-without-recall with side effects)",
        "a program the real compiler rejects is skipped and counted (the property speaks about accepted policies)",
        "side effects are observed at the perspective (insert/delete calls through a delegating spy) and at the sink (effects with recalled flag), one level below MachineIO",
        "the run-time value of each condition is passed in a command field of its own; conditions themselves are trivial expressions (expression semantics is C22/C23)",
    ]
