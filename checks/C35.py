"""C35 — Replicas accept only authentic commands.
MC + S2I: TamperReplica.tla (honest author A, receiver B, Tamper(field, variant) on the in-flight
wire command, Deliver, redelivery of the honest copy) is model-checked by TLC; every behaviour is
replayed into two real ClientState replicas running a signing VmPolicy with the real crypto,
envelope, device, idam and perspective FFIs (DESIGN §5 C35)."""
import json
import verif

META = {
    "level": "exploration",
    "engine": "crypto",
    "technique": "TLA+ spec TamperReplica model-checked with TLC (AuthenticOnly, RejectLeavesNoTrace, HonestAccepted); every TLC behaviour replayed into two real replicas (ClientState + VmPolicy + crypto/envelope/device/idam/perspective FFIs, signing policy): honest actions on A, tampered wire commands re-encoded (VmProtocolData/postcard) and delivered to B through add_commands/commit, B's heads, facts, effects and stored commands compared before/after (spec->impl conformance)",
    "text": "A authors Init, AddDeviceKeys, Create, Increment(s) through real actions (sealed by the policy with crypto::sign). For each command in delivery order TLC enumerates <= 2 tamper steps on the wire form over: payload (value changed and re-serialized / malformed / a non-canonical encoding of the same field values), command kind (sibling command with the same field schema / unknown), parent id (another command B holds / unknown), author id (another registered device / unknown), command id, signature (bit flip / truncated) and the fields the property does not name (priority, parent max-cut, policy field, trailing bytes), followed by delivery of the honest copy. Decides: a copy with a modified named field is rejected and B's heads, facts, effects and stored commands are unchanged; the honest copy is accepted afterwards; B ends with A's heads and facts.",
    "note": "Exploration level (the tamper variants are classes, concretised with seeded bytes). Bounds: 2 (thorough 3) commands after Init/AddDeviceKeys, <= 2 tamper steps per copy, 1 (thorough 2) forged deliveries per behaviour; linear histories, memory storage. The signing policy is adapted from aranya-model's ffi-policy.md; unlike it, Init binds the envelope's author id to the identity key it carries. Unnamed fields: outcomes are recorded, not judged (observed: policy field and trailing bytes are accepted and stored; priority and max-cut changes are rejected).",
}

RULE = ("cases = maximal behaviours of TamperReplica.tla (which command is forged x tamper sequence x honest "
        "redelivery), enumerated exhaustively by TLC and replayed on real replicas; a case is non-trivial when it "
        "contains at least one tamper step; distinct = distinct step sequences")


def run(ctx):
    ctx.level = "exploration"
    vh = ctx.build("crypto")
    if ctx.replay:
        case = json.load(open(ctx.replay))["case"]["input"]
        ctx.absorb(ctx.run_engine(vh, "tamper", [case]))
        ctx.cov.update({"evaluations": 1, "distinct_nontrivial": 1, "rule": RULE})
        return
    cfg = "MC_TamperReplica_thorough.cfg" if ctx.thorough else "MC_TamperReplica.cfg"
    r = ctx.tlc("TamperReplica", cfg, timeout=1500)
    ctx.require_actions(r, ["Act", "Send", "Tamper", "Deliver", "Drop"])
    beh = r.replays
    if not beh:
        raise verif.ToolError("TLC emitted no behaviours")
    fields = {(s["f"], s["v"]) for b in beh for s in b["steps"] if s["act"] == "tamper"}
    if len(fields) < 17:
        raise verif.ToolError("vacuous enumeration: only %d tamper variants" % len(fields))
    if ctx.thorough and len(beh) > 20000:
        beh = verif.sample(ctx.rng, beh, 20000)
    res = ctx.run_engine(vh, "tamper", beh, timeout=2400)
    if len(res) != len(beh):
        raise verif.ToolError("engine returned %d results for %d behaviours" % (len(res), len(beh)))
    ctx.absorb(res)
    # binding self-tests: (a) claim that a forged delivery is accepted; (b) claim that an honest
    # delivery is rejected — the engine must report both
    def flip(b, frm, to):
        b = json.loads(json.dumps(b))
        for s in b["steps"]:
            if s["act"] == "deliver" and s["expect"] == frm:
                s["expect"] = to
                return b
        return None
    t1 = next(x for x in (flip(b, "rejected", "accepted") for b in beh) if x)
    t2 = next(x for x in (flip(b, "accepted", "rejected") for b in beh) if x)
    st = ctx.run_engine(vh, "tamper", [t1, t2], tag="selftest")
    if len(st) != 2 or st[0].get("ok") or st[1].get("ok"):
        raise verif.ToolError("binding self-test failed: perturbed expectations accepted")
    notes = {}
    for x in res:
        for n in (x.get("obs") or {}).get("notes", []) or []:
            if n.endswith("returned Ok without storing"):
                n = "duplicate of an already stored id skipped (Ok, nothing stored)"
            notes[n] = notes.get(n, 0) + 1
    keyf = lambda b: json.dumps(b["steps"], sort_keys=True)
    ctx.cov.update({
        "exhaustive": not (ctx.thorough and len(r.replays) > 20000),
        "evaluations": len(beh),
        "distinct": len({keyf(b) for b in beh}),
        "distinct_nontrivial": len({keyf(b) for b in beh if any(s["act"] == "tamper" for s in b["steps"])}),
        "rule": RULE,
        "states": r.states,
        "transitions": r.generated,
        "traces_validated_against_impl": len(beh),
        "tamper_variants": sorted("%s:%s" % fv for fv in fields),
        "unnamed_field_observations": notes,
        "selftest": "forged-accepted and honest-rejected expectations both reported",
        "samples": [beh[0], next(b for b in beh if sum(1 for s in b["steps"] if s["act"] == "tamper") == 2)],
    })
    ctx.assumptions += [
        "ideal signature/hash in the spec; real Ed25519 through the crypto FFI on the enumerated behaviours",
        "B observes through add_commands/commit, fact_cache query_prefix, the effect sink and a walk of the stored graph",
        "the adapted signing policy stands for 'a policy that verifies signatures in its open blocks'",
    ]
