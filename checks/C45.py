"""C45 — key stores behave as maps.
MC KeyStore.tla (map model + fs-store design: files, handle, offset, root-gone) and S2I replay of
every TLC behaviour on aranya_crypto's MemStore and fs Store (DESIGN §5 C45)."""
import json
import os
import shutil
import verif

META = {
    "level": "model_checking",
    "engine": "small",
    "technique": "TLA+ spec KeyStore model-checked with TLC (the fs design refines the map model); TLC's behaviours replayed step by step on MemStore and the fs Store (spec->impl conformance)",
    "text": "TLC enumerates every sequence of entry / vacant insert|drop / occupied get*|remove|drop / get / try_insert / remove / failing insert (wrapped key whose Serialize errors; at most one per behaviour) / reopen (open|clone) over 2 ids (plus root-directory removal at the tail) and checks that the fs design (files, open handle, file offset) refines the map model (Refines, DirIsMap, NothingLeftBehind, OccupiedIffInserted, ReadsReturnStored, GoneIsError). Every emitted behaviour is replayed through the public KeyStore/Entry API of both real stores; after every step result class, returned key, directory listing (exactly one file per occupied id + canary) and get() of every id are compared with the model, and at the end after dropping any open handle.",
    "note": "Bounds: 2 ids; quick: TLC exhaustive at 5 calls, replay of every behaviour of <= 4 calls + seeded sample of 8000 5-call behaviours; thorough: every behaviour of <= 5 calls replayed, TLC exhaustive at 6 calls (design level), VIEW-reduced design check at 9 calls x 3 ids, simulation to 10 calls x 3 ids. fs store on tmpfs (/dev/shm) plus a sample on the real disk under work/C45. One handle at a time, one thread (the Entry borrows the store); debug-assertion build (canary enabled).",
}

ACTIONS = ["Entry", "VInsert", "VInsertFail", "TryInsertFail", "VDrop", "OGet", "ORemove", "ODrop", "Get", "TryInsert", "Remove",
           "Reopen", "RootGone", "EntryGone"]
DESIGN_BUGS = [  # (cfg, invariants one of which TLC must report)
    ("MC_KeyStore_seekbug.cfg", ("Refines", "ReadsReturnStored")),
    ("MC_KeyStore_dropbug.cfg", ("DirIsMap", "NothingLeftBehind")),
    ("MC_KeyStore_existbug.cfg", ("Refines", "GoneIsError")),
    ("MC_KeyStore_dirtybug.cfg", ("Refines", "DirIsMap", "NothingLeftBehind", "OccupiedIffInserted")),
]


def has_gone(b):
    return any(s["op"] == "rootgone" for s in b["steps"])


def replay(ctx, vh, beh, tag, on_disk=False):
    """Replay behaviours; root-gone behaviours go to their own engine process (a call that never
    returns leaves a spinning thread behind)."""
    if not beh:
        return []
    shm = None
    opts = {}
    if not on_disk and os.path.isdir("/dev/shm") and os.access("/dev/shm", os.W_OK):
        shm = "/dev/shm/verif-C45-%d-%s" % (os.getpid(), tag)
        opts["dir"] = shm
    try:
        res = ctx.run_engine(vh, "keystore", beh, opts=opts, tag=tag, timeout=3000)
    finally:
        if shm:
            shutil.rmtree(shm, ignore_errors=True)
    if len(res) != len(beh):
        raise verif.ToolError("engine returned %d results for %d behaviours (%s)" % (len(res), len(beh), tag))
    return res


def run(ctx):
    vh = ctx.build("small")
    if ctx.replay:
        case = json.load(open(ctx.replay))["case"]["input"]
        ctx.absorb(replay(ctx, vh, [case], "replay"))
        ctx.absorb(replay(ctx, vh, [case], "replay-disk", on_disk=True), count_traces=False)
        return

    # ---- design level: exhaustive TLC; the fs design refines the map model
    r5 = ctx.tlc("KeyStore", "MC_KeyStore.cfg", timeout=900)
    ctx.require_actions(r5, ACTIONS)
    if not ctx.thorough:
        # every behaviour of <= 4 calls (deterministic: all short shapes such as get-twice,
        # get-then-remove, failing insert) + a seeded sample of the 5-call behaviours
        r4 = ctx.tlc("KeyStore", "MC_KeyStore_4.cfg", timeout=900)
        sets = [("all4", r4.replays, None), ("sample5", r5.replays, 8000)]
    else:
        r6 = ctx.tlc("KeyStore", "MC_KeyStore_6.cfg", timeout=3000)
        rd = ctx.tlc("KeyStore", "MC_KeyStore_deep.cfg", timeout=3000)
        ctx.require_actions(rd, ACTIONS)
        rs = ctx.tlc("KeyStore", "MC_KeyStore_sim.cfg", simulate=3000, depth=12, timeout=900)
        _ = r6  # 6 calls: design level only (exhaustive, nothing emitted)
        sets = [("all5", r5.replays, None), ("sim10", rs.replays, None)]
        # the named deviations must violate the invariants (the spec's invariants are not vacuous)
        for cfg, invs in DESIGN_BUGS:
            rb = ctx.tlc("KeyStore", cfg, allow_violation=True, coverage=False, timeout=600)
            ctx.states -= rb.states
            ctx.transitions -= rb.generated
            if rb.violated not in invs:
                raise verif.ToolError("spec self-test: %s should violate one of %s, TLC says %r"
                                      % (cfg, invs, rb.violated))

    # ---- conformance: replay on both real stores
    counts = {}
    nontrivial = 0
    disk_pool = []
    for name, beh, cap in sets:
        if not beh:
            raise verif.ToolError("TLC emitted no behaviours for " + name)
        plain = [b for b in beh if not has_gone(b)]
        gone = [b for b in beh if has_gone(b) and b["steps"][-1]["op"] != "rootgone"]
        if cap:
            plain = verif.sample(ctx.rng, plain, cap)
            gone = verif.sample(ctx.rng, gone, cap // 10)
        else:
            gone = verif.sample(ctx.rng, gone, 2000)
        ctx.absorb(replay(ctx, vh, plain, name))
        ctx.absorb(replay(ctx, vh, gone, name + "-gone"))
        counts[name] = {"emitted": len(beh), "replayed": len(plain) + len(gone)}
        nontrivial += sum(1 for b in plain if any(s["op"] in ("oget", "oremove", "vdrop", "vinsertfail", "tryinsertfail") for s in b["steps"]))
        disk_pool += plain
    # the same behaviours against the real disk (fdatasync, ext4 directory semantics)
    disk = verif.sample(ctx.rng, disk_pool, 3000 if ctx.thorough else 300)
    ctx.absorb(replay(ctx, vh, disk, "disk", on_disk=True))
    counts["disk"] = {"replayed": len(disk)}

    # ---- binding self-test: perturbed expectations must be rejected by the engine
    base = next(b for b in r5.replays
                if [s["op"] for s in b["steps"]][:3] == ["tryinsert", "entry", "oget"] and not has_gone(b))
    muts = []
    for k, field, val in ((2, "r", "none"), (2, "v", 77), (2, "files", []), (0, "map", [0, 0])):  # noqa
        m = json.loads(json.dumps(base))
        m["steps"][k][field] = val
        muts.append(m)
    st = replay(ctx, vh, muts, "selftest")
    if any(x.get("ok") for x in st) and ctx.nviol == 0:
        raise verif.ToolError("binding self-test failed: a perturbed expectation was accepted: %s"
                              % [x.get("ok") for x in st])

    ctx.cov.update({
        "exhaustive": True,
        "constants": {"NIds": 2, "MaxOps": 6 if ctx.thorough else 5, "GoneTail": 1, "MaxFail": 1,
                      "deep": "NIds=3 MaxOps=9 (VIEW)" if ctx.thorough else None,
                      "simulation": "NIds=3 MaxOps=10 num=3000 per worker" if ctx.thorough else None},
        "behaviours": counts,
        "behaviours_with_handle_reads_drops_or_failing_inserts": nontrivial,
        "spec_selftest": "seekbug/dropbug/existbug/dirtybug configurations violate the invariants (thorough tier)",
        "selftest": "perturbed r / v / files / map rejected",
    })
    ctx.assumptions += [
        "one handle at a time and one thread: an Entry borrows its store mutably; concurrent creators (two processes racing in Store::entry) are outside the replay",
        "harness is built with debug assertions, so the directory canary exists and get() after root removal is an error",
        "fs replay runs on tmpfs (/dev/shm) with a seeded sample repeated on the real disk under work/C45",
    ]
