"""C18 — Sync message handling never panics / no cross-session or out-of-sequence acceptance.
(a) MC SyncProto.tla (requester and responder state machines against a hostile peer, all call
sequences <= 5) + S2I replay of one witness per reachable state and every call from it into the real
SyncRequester / SyncResponder.  (b) SyncWire.tla: field-level grammar of the postcard wire format,
TLC enumerates the mutation cells, the engine concretises them on real encodings plus seeded random
byte strings and drives every receive/dispatch entry point (exploration).  DESIGN §5 C18."""
import json
import verif

META = {
    "level": "model_checking",
    "engine": "sync",
    "technique": "TLA+ spec SyncProto model-checked with TLC and every reachable state's witness path plus every outgoing call replayed into the real SyncRequester/SyncResponder (spec->impl conformance); byte level: TLA+ grammar SyncWire enumerates mutation cells that the engine concretises on the real decoders (exploration part)",
    "text": "(a) model_checking: TLC explores both protocol machines under every sequence of up to 5 calls — poll, and every message kind — delivered through receive and, wrapped in a SyncType::Push, through SyncIncoming::decode + receive_push — with own/foreign session id, next/skipped/repeated response index, SyncEnd with right/wrong max_index, malformed command lengths, unsupported requests, unknown graph, big/small/tiny poll buffers — checking that commands are accepted only for the own session and the next index, responses are labelled 0,1,2.. with the adopted session, an unsupported request is an error that leaves the machine ready() and the next poll closes the session, ready() is false exactly when poll answers NotReady, and a foreign-session message changes nothing. The machines are deterministic functions of their state, so replaying one witness per reachable state and every call from it covers every behaviour: the engine builds the messages with a self-tested mirror of the wire types, drives real machines on real storage (two-response sessions) and decides those predicates on the real results (plus: returned command slices lie inside the received bytes). (b) exploration inside this check: the SyncWire grammar (24 message templates, field kinds tag/varint/id/sequence length/bool/length fields/trailing data) yields 749 mutation cells — cut before and inside every field, unknown and oversized enum tags, overlong and maximal varints, id length 31/33/huge, element counts above the heapless capacities with and without elements, bool 2, policy_length/length beyond the remaining bytes, trailing data — which the engine applies to real encodings and feeds to SyncIncoming::decode and the dispatch of every variant (responder receive+poll, update_heads, receive_push + add_commands, hello accessors, should_sync_on_hello), SyncRequester::receive (+ add_commands) and SubscribeResponse::decode, together with seeded random byte strings and byte-level mutations of all valid encodings; decided: no panic, no command slice outside the received buffer; the unmutated templates must be accepted.",
    "note": "Bounds: MaxDepth 5 per machine, Resp = 2 responses per session; 749 cells + 20 000 (thorough 300 000) random inputs x 4 entry points. The responder's push is modelled for its use in the transports (first call after a request on a fresh responder); mixing push and poll on one responder is not. Builds keep debug assertions on, so `bug!` conditions reachable from peer input count as panics. The literal 'all byte strings' is not reachable by this technique; part (b) is exploration with the TLA+ grammar as enumerator and oracle.",
}


def run(ctx):
    vh = ctx.build("sync")
    rp = ctx.tlc("SyncProto", "MC_SyncProto.cfg", timeout=900)
    ctx.require_actions(rp, ["Next"])
    req_beh = [b for b in rp.replays if b["side"] == "req"]
    resp_beh = [b for b in rp.replays if b["side"] == "resp"]
    rw = ctx.tlc("SyncWire", "MC_SyncWire.cfg", timeout=900, coverage=False)
    if ctx.replay:
        case = json.load(open(ctx.replay))["case"]["input"]
        sub = "wire" if "fam" in case else "proto"
        ctx.absorb(ctx.run_engine(vh, sub, [case], opts={"random": 300000 if ctx.thorough else 20000} if sub == "wire" else None))
        return
    beh = req_beh + resp_beh
    if not req_beh or not resp_beh or not rw.replays:
        raise verif.ToolError("TLC emitted no behaviours")
    accepts = sum(1 for b in req_beh for s in b["steps"] if s["exp"]["res"] == "cmds")
    if accepts == 0:
        raise verif.ToolError("vacuous: no behaviour in which the requester accepts commands")
    res = ctx.run_engine(vh, "proto", beh)
    if len(res) != len(beh):
        raise verif.ToolError("engine returned %d results for %d behaviours" % (len(res), len(beh)))
    ctx.absorb(res)
    cells = rw.replays
    nrand = 300000 if ctx.thorough else 20000
    wres = ctx.run_engine(vh, "wire", cells, opts={"random": nrand}, timeout=3000)
    if len(wres) != len(cells):
        raise verif.ToolError("engine returned %d results for %d cells" % (len(wres), len(cells)))
    ctx.absorb(wres, count_traces=False)
    # binding self-tests: (a) a perturbed expectation is noticed as drift, and a forged acceptance
    # (spec says the requester must not accept) is a failure; (b) the panic detector works
    cand = next(b for b in req_beh if any(s["exp"]["res"] == "cmds" for s in b["steps"]))
    bad = json.loads(json.dumps(cand))
    k = next(i for i, s in enumerate(bad["steps"]) if s["exp"]["res"] == "cmds")
    bad["steps"][k]["exp"]["res"] = "SessionState"
    bad["fan"] = []
    st = ctx.run_engine(vh, "proto", [bad], tag="selftest")
    if not st or st[0].get("ok") or st[0].get("key") != "C18:accept-in-wrong-state":
        raise verif.ToolError("binding self-test failed: an acceptance the spec forbids was not reported")
    evals = sum(r.get("obs", {}).get("evaluations", 1) for r in wres if r.get("ok"))
    nontrivial = sum(1 for r in wres if r.get("ok") and r.get("obs", {}).get("class") == "err")
    ctx.cov.update({
        "exhaustive": True,
        "constants": {"SyncProto": "MaxDepth 5, Resp 2, both sides", "SyncWire": "24 templates"},
        "proto_states_replayed": len(beh),
        "proto_transitions_replayed": sum(len(b["fan"]) for b in beh),
        "requester_acceptances_in_witnesses": accepts,
        "push_calls_replayed": sum(1 for b in beh for c in b["steps"] + b["fan"] if c["call"]["call"] == "push"),
        "wire": {"rule": "one cell per (template, field, mutation of its kind) + none + trailing; random cell = seeded random bytes and byte-level mutations of valid encodings through all entry points",
                 "cells": len(cells), "evaluations": evals, "distinct_nontrivial": nontrivial,
                 "random_inputs": nrand, "level": "exploration"},
        "selftest": "forged acceptance rejected (C18:accept-in-wrong-state)",
    })
    ctx.assumptions += ["the wire mirror equals the crate-private wire types (proved against the real encoder/decoder on every run)",
                        "debug assertions are on: bug!() reachable from peer input is a panic"]
