"""C01 — Replicas holding the same commands converge (DESIGN §5 C01)."""
import graph_common

META = {
    "level": "model_checking",
    "engine": "graph",
    "technique": 'TLA+ specs Braid/MC_Braid and Replica model-checked with TLC (exhaustive small constants + seeded simulation); every emitted DAG / delivery history replayed step by step into real ClientState replicas and the projected state compared (spec->impl conformance)',
    "text": 'Replica.tla makes heads, facts and hello head functions of the committed set (invariant Convergence); the replay runs every TLC-chosen delivery history (permutation, batching, flush and commit points, sync source) on real replicas and fails when two real replicas with equal committed sets differ in head ids, any fact query or hello head (key C01:diverge), plus two seeded histories per enumerated DAG.',
    "note": 'Bounds: exhaustive DAGs <= 4 commands beyond init (5 in thorough), exhaustive histories for universe <= 3 / 5 steps / 2 replicas, seeded simulation to universe 8 / 16 steps / 3 replicas; STRETCH 14 (300 thorough). Audit policy stands in for real policies; memory-backed storage.',
}


def run(ctx):
    graph_common.full(ctx)
