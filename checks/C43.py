"""C43 — the shared-memory mutex is exclusive and loses no wake-ups.
MC ShmMutex.tla (safety + liveness) + SCHED replay of TLC's schedules on the real futex mutex
(DESIGN §5 C43)."""
import afc_util
import verif

META = {
    "level": "model_checking",
    "engine": "afc",
    "technique": "TLA+ spec ShmMutex (one action per atomic access of sys_lock/sys_unlock/futex) model-checked with TLC for MutualExclusion and NoLostWakeup; TLC's state graph is turned into edge-covering schedules that are replayed on the real mutex under the yield-point scheduler (spec->impl conformance), the verdict coming from the critical-section occupancy counter and the lost-wake-up detector; complemented by free-running races of the same operations on real unscheduled threads with the same oracle (stress, not exhaustive)",
    "text": "TLC checks the fine-grained PlusCal model of the futex mutex (CAS fast path, passive spin with the code's count, swap to SLEEPING, futex compare-and-block, swap to UNLOCKED, wake one) for mutual exclusion with and without spurious wake-ups and, under weak fairness without spurious wake-ups, that every locker eventually enters the critical section and all threads finish; a spec-level mutant (wake only when LOCKED was seen) must be rejected. The labelled state graphs for 2 threads x 2 rounds and 3 threads x 1 round with PASSIVE_SPIN=5, and for 3 threads with rounds (2,1,1) and PASSIVE_SPIN=1 (a spinning thread runs through the code's remaining loads within the step) are dumped, together with a targeted schedule family (a thread loses its spin-loop CAS, the lock is released before its next load, it then acquires); a set of complete paths covering every transition is computed and each path is executed step by step on the real Mutex (yield points before every atomic access, futex wait/wake routed to the scheduler), comparing key word, per-thread site and sleeper set after every step; random complete behaviours of 3 threads x 2 rounds come from TLC simulation. VIOLATION only if two threads are inside the critical section or a thread stays parked in futex_wait when nothing can wake it.",
    "note": "Bounds: <=3 threads, <=2 rounds; PASSIVE_SPIN=5 in all replayed schedules and in the 2x2 liveness run; 3x2 design-level runs: safety+liveness with PASSIVE_SPIN=1 (thorough also 2), safety with 5 (thorough). Additionally free-running contention on real unscheduled threads with the real futex (2 and 4 threads, 2.5 s each quick / 10 s thorough, ~10^7 critical sections) with the occupancy monitor, the mutex-protected plain counter and completion within 10 s as oracle: a stress complement that reaches interleavings inside a split atomic operation, not exhaustive. Sequentially consistent interleavings only in the schedules: weakening an atomic Ordering is not detectable (DESIGN §9). Test threads are coroutines on one OS thread (the scheduler serialises execution anyway). Trusts the yield points to sit before every access of the key word (a missing one shows as drift).",
}

ACTIONS = ["cas1", "spin", "scas", "swp", "fw", "slp", "cs", "cs2", "unl", "wk"]


def project(a, args, s):
    return {"a": a, "t": args[0], "key": s["key"], "pc": s["pc"], "sl": s["sleepers"], "wk": s["wakeTok"]}


def targeted(g):
    """Schedule family: a thread loses the CAS of its spin loop (the lock was taken in between),
    the lock is released again before the thread's next load, and the thread then takes it.
    Edge coverage visits each of these steps but not necessarily in this order on one path."""
    import pathcover
    out = []
    for ei, (src, dst, a, args) in enumerate(g.edges):
        if a != "scas":
            continue
        t = args[0]
        st = g.state(dst)
        if st["pc"][t - 1] != "spin" or st["key"] == 0:
            continue                       # not a failed CAS
        path = pathcover.prefix_to(g, src) + [ei]
        cur = dst
        # let whoever holds the lock finish its critical section and unlock
        for _ in range(12):
            s2 = g.state(cur)
            if s2["key"] == 0:
                break
            nxt = [e for e in g.out[cur] if g.edges[e][3] and g.edges[e][3][0] != t
                   and g.edges[e][2] in ("cs", "cs2", "unl")]
            if not nxt:
                break
            path.append(nxt[0])
            cur = g.edges[nxt[0]][1]
        if g.state(cur)["key"] != 0:
            continue
        # the thread's next load sees the free lock, its CAS succeeds
        ok = True
        for want in ("spin", "scas"):
            nxt = [e for e in g.out[cur] if g.edges[e][2] == want and g.edges[e][3][0] == t]
            if not nxt:
                ok = False
                break
            path.append(nxt[0])
            cur = g.edges[nxt[0]][1]
        if ok:
            out.append(path + pathcover.complete(g, cur))
    return out


def run(ctx):
    vh = ctx.build("afc")
    if ctx.replay:
        ctx.absorb(ctx.run_engine(vh, "mutex", [afc_util.load_replay(ctx)]))
        return

    # 1. design level: safety + liveness
    cfg = "MC_ShmMutex_thorough.cfg" if ctx.thorough else "MC_ShmMutex.cfg"
    r = ctx.tlc("ShmMutex", cfg, timeout=2400, cache=True)
    ctx.require_actions(r, ACTIONS)
    ctx.tlc("ShmMutex", "MC_ShmMutex_live5.cfg", timeout=1200, cache=True)
    if ctx.thorough:
        ctx.tlc("ShmMutex", "MC_ShmMutex.cfg", timeout=1200, cache=True)
        ctx.tlc("ShmMutex", "MC_ShmMutex_live2.cfg", timeout=2400, cache=True)
        ctx.tlc("ShmMutex", "MC_ShmMutex_spur.cfg", timeout=1200, cache=True)
    # 2. the liveness half is not vacuous: the spec-level lost-wake-up mutant must be rejected
    rm = ctx.tlc("ShmMutex", "MC_ShmMutex_mutant.cfg", allow_violation=True, timeout=600)
    if not rm.violated:
        raise verif.ToolError("self-test failed: TLC accepted the spec mutant 'unlock wakes only when it saw 1'")

    # 3. schedules: transition cover of the graphs with the code's PASSIVE_SPIN
    total = 0
    results = []
    cover_info = {}
    for gcfg, rounds, cap in (("MC_ShmMutex_g2.cfg", [2, 2], None), ("MC_ShmMutex_g3.cfg", [1, 1, 1], 4000),
                              ("MC_ShmMutex_g4.cfg", [2, 1, 1], 2500)):
        info, steps = afc_util.schedules(ctx, "ShmMutex", gcfg, project, timeout=1200, targeted=targeted)
        afc_util.require_graph_actions(info, ACTIONS)
        n = len(info["init"]["pc"])
        # PASSIVE_SPIN = 1 graphs: the engine runs a spinning thread through the code's further loads
        macro = afc_util.cfg_constants(gcfg)["PassiveSpin"] != "5"
        beh = [{"threads": n, "rounds": rounds, "spin_macro": macro, "steps": st} for st in steps]
        npaths = len(beh)
        ntarget = info.get("targeted_paths", 0)
        if cap and not ctx.thorough and npaths - ntarget > cap:
            # the targeted family is always replayed completely
            beh = verif.sample(ctx.rng, beh[:npaths - ntarget], cap) + beh[npaths - ntarget:]
        res = afc_util.replay(ctx, vh, "mutex", beh, tag="mutex-" + gcfg[11:-4])
        ctx.absorb(res)
        results += res
        total += len(beh)
        cover_info[gcfg] = {"states": info["states"], "transitions": info["transitions"],
                            "cover_paths": npaths - ntarget, "targeted_paths": ntarget, "replayed": len(beh)}
        if gcfg.endswith("g2.cfg"):
            g2beh = beh
    # 4. random complete behaviours of 3 threads x 2 rounds (simulation mode)
    nsim = 1500 if ctx.thorough else 150
    rs = ctx.tlc("ShmMutexSim", "Sim_ShmMutex.cfg", simulate=nsim, depth=600, workers=2, timeout=900, cache=True)
    if not rs.replays:
        raise verif.ToolError("TLC simulation emitted no behaviours")
    res = ctx.run_engine(vh, "mutex", rs.replays, tag="mutex-sim")
    ctx.absorb(res)
    results += res

    # 5. free-running contention: real unscheduled threads and the real futex
    ms = 10000 if ctx.thorough else 2500
    races = [{"race": "contend", "threads": k, "iters": 100000000, "ms": ms} for k in (2, 4)]
    rres = ctx.run_engine(vh, "mutex", races, tag="mutex-race")
    ctx.absorb(rres)
    ctx.cov["free_running_contention"] = {"x%d" % r["_in"]["threads"]: r.get("steps", 0) for r in rres if r.get("_in")}

    if ctx.nviol:
        # self-tests use the recorded results of this run; with violations present they prove nothing
        ctx.cov["selftests"] = ["skipped: the run found violations"]
        return
    # 5. binding self-tests: a swallowed wake-up and a skipped lock must be reported
    with_wk = [b for b in g2beh if any(s["a"] == "wk" and s["wk"] for s in b["steps"])][:40]
    st = ctx.run_engine(vh, "mutex", with_wk, opts={"selftest": "nowake"}, tag="selftest-nowake")
    if not any(x.get("key") == "C43:lost-wakeup" for x in st):
        raise verif.ToolError("binding self-test failed: swallowed futex wake-ups were not reported")
    st = ctx.run_engine(vh, "mutex", [{"race": "contend", "threads": 4, "iters": 100000000, "ms": 1000}],
                        opts={"selftest": "nolock"}, tag="selftest-race-nolock")
    if not any(x.get("key") == "C43:mutual-exclusion" for x in st):
        raise verif.ToolError("binding self-test failed: free-running threads that skip the mutex were not reported")
    st = ctx.run_engine(vh, "mutex", g2beh[:200], opts={"selftest": "nolock"}, tag="selftest-nolock")
    if not any(x.get("key") == "C43:mutual-exclusion" for x in st):
        raise verif.ToolError("binding self-test failed: unlocked critical sections were not reported")

    ctx.cov.update({
        "exhaustive": True,
        "constants": {"design": afc_util.cfg_constants(cfg), "schedules": {k: afc_util.cfg_constants(k) for k in cover_info},
                      "simulation": afc_util.cfg_constants("Sim_ShmMutex.cfg")},
        "schedule_graphs": cover_info,
        "simulated_behaviours": len(rs.replays),
        "steps_executed_on_real_mutex": sum(x.get("steps", 0) for x in results),
        "selftests": ["spec mutant WakeOn=1 rejected by TLC (%s)" % rm.violated,
                      "engine: swallowed wake-up reported", "engine: skipped lock reported"],
    })
    ctx.assumptions += [
        "yield points precede every atomic access of the mutex key (mutex.rs); futex_wait/futex_wake are routed to the scheduler shim",
        "sequentially consistent interleavings only (memory-ordering weakening out of scope, DESIGN §9)",
    ]
