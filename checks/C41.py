"""C41 — AFC channel removal takes effect for later operations.
MC AfcShm.tla + SCHED replay on the real WriteState/ReadState + I2S validation of the real
call/return history against AfcAbs.tla (DESIGN §5 C41)."""
import json
import afc_util
import verif

META = {
    "level": "model_checking",
    "engine": "afc",
    "technique": "TLA+ spec AfcShm (writer and readers of the shared-memory channel lists, one action per yield point) model-checked with TLC for the call-level removal predicate; edge-covering schedules of its state graph replayed on the real shm WriteState/ReadState under the yield-point scheduler; the recorded real call/return history validated against the property machine AfcAbs (trace validation)",
    "text": "TLC checks every interleaving of a writer running scripts of add/remove/remove_if/remove_all (generation bump, list change, offset swap, second list) with readers doing setup_*_ctx, seal and open with cached keys: a call invoked after a removal of its channel returned never finds the channel, a channel no removal was invoked for is never lost, removed ids never reappear. Spec mutants must be rejected: bumping only the first list's generation; bumping before the lookup (removal of an absent id leaves the generations one apart); an open lookup that trusts the cached slot without comparing the id. Every transition of the schedule graphs is executed on real WriteState/ReadState over POSIX shared memory (one process, writer + reader threads): after each step the lists, generations and offsets from a verification snapshot and the results of completed calls are compared with the spec. VIOLATION only if, in the real history ordered by the scheduler's step counter, a seal/open/setup invoked after a removal returned found the channel, NotFound was returned for a channel no removal was invoked for, a removed id is listed again, or the recorded history is rejected by AfcAbs.",
    "note": "Bounds: capacity 2; design run 7 writer scripts of 3 calls x 2 readers x 2 calls (thorough: 3 calls); schedule graphs: 1 reader x 4 calls over 9 scripts, 2 readers x 2 calls over 2 scripts, 1 reader x 3 calls over 9 capacity-4 scripts (swap_remove relocations of seal and open channels, removals of absent ids before real ones); quick replays a seeded sample of the cover paths. Sequentially consistent interleavings only (DESIGN §9). The in-memory state (memory::State) is covered by AfcMem (7 scripts incl. remove_all followed by add - ids must not start over -, 2 readers x 3 calls; schedule graph with 2 calls) replayed on the real memory::State with the tracking allocator.",
}


def run(ctx):
    vh = ctx.build("afc")
    if ctx.replay:
        case = afc_util.load_replay(ctx)
        ctx.absorb(ctx.run_engine(vh, "mem" if case.get("engine") == "mem" else "shm", [case], opts={"only": "C41"}))
        return
    cfgs = ["MC_AfcShm_c41_thorough.cfg"] if ctx.thorough else ["MC_AfcShm_c41.cfg"]
    (beh, trace), sel = afc_util.shm_check(ctx, vh, "C41", cfgs, [("MC_AfcShm_mut_bump.cfg", "RemovalEffective"), ("MC_AfcShm_mut_rmbump.cfg", "RemovalEffective"),
                                           ("MC_AfcShm_mut_openhint.cfg", "RemovalEffective")])
    afc_util.mem_check(ctx, vh, "C41")
    if ctx.nviol:
        # self-tests use the recorded results of this run; with violations present they prove nothing
        ctx.cov["selftests"] = ["skipped: the run found violations"]
        return
    # binding self-tests
    # (a) a corrupted history (a NotFound turned into success after the removal returned) must be rejected
    lines = open(trace).read().splitlines()
    evs = [json.loads(l) for l in lines]
    # a NotFound whose call was invoked after the removal of its channel had returned
    k, done, after = None, set(), {}
    for i, e in enumerate(evs):
        if e["ev"] == "reset":
            done, after = set(), {}
        elif e["ev"] == "ret" and e["th"] == 0 and e["what"] != "add":
            done |= set(e["targets"])
        elif e["ev"] == "inv" and e["th"] != 0:
            after[e["th"]] = e["id"] in done
        elif e["ev"] == "ret" and e["th"] != 0 and e["res"] == "notfound" and after.get(e["th"]):
            k = i
            break
    if k is None:
        raise verif.ToolError("binding self-test impossible: no NotFound after a returned removal in the recorded history")
    evs[k]["res"] = "ok"
    bad = ctx.write_ndjson("selftest.trace.ndjson", evs[:k + 1])
    ok, n, _ = ctx.validate_trace("Trace_AfcAbs", "Trace_AfcAbs.cfg", bad, env={"PROP": "C41"}, tag="trace-selftest")
    if ok or n != k + 1:
        raise verif.ToolError("binding self-test failed: corrupted history accepted (ok=%s at=%s, expected rejection at %d)" % (ok, n, k + 1))
    # (b) the engine's monitor with a stale abstract table must report
    st = ctx.run_engine(vh, "shm", beh[:300], opts={"selftest": "stale-table"}, tag="selftest-stale")
    if not any(not x.get("ok") for x in st):
        raise verif.ToolError("binding self-test failed: a stale abstract table was not noticed")
    ctx.cov["selftests"] = sel + ["trace: NotFound turned into ok after removal rejected at the corrupted event",
                                  "engine: stale abstract table reported"]
