"""C10 — A graph is bound to its init command (DESIGN §5 C10)."""
import graph_common

META = {
    "level": "model_checking",
    "engine": "graph",
    "technique": 'TLA+ specs Braid/MC_Braid and Replica model-checked with TLC (exhaustive small constants + seeded simulation); every emitted DAG / delivery history replayed step by step into real ClientState replicas and the projected state compared (spec->impl conformance)',
    "text": 'Replica actions DeliverInit/DeliverBad enumerate first-contact shapes x position; replay decides on InitError / creation / no-op, and that refused shapes create or change nothing.',
    "note": 'Bounds: exhaustive DAGs <= 4 commands beyond init (5 in thorough), exhaustive histories for universe <= 3 / 5 steps / 2 replicas, seeded simulation to universe 8 / 16 steps / 3 replicas; STRETCH 14 (300 thorough). Audit policy stands in for real policies; memory-backed storage.',
}


def run(ctx):
    graph_common.full(ctx)
