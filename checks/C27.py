"""C27 — Policy front ends are total.

TABLE pattern with PolicyFront.tla as enumerator and oracle: TLC enumerates nine families of
texts (untyped expression skeletons, every statement kind in every statement context,
defective definition sets, token-level mutations of generated programs and of the repository's
policy documents, Markdown front-matter/fence structure, deep nesting) and the spec's
parse/compile verdict where it has one.  vh-vmtable feeds each text to parse_policy_document /
parse_policy_str / parse_expression and Compiler::compile under catch_unwind."""
import glob
import json
import os
import re
import subprocess
import time
import verif

META = {
    "level": "exploration",
    "engine": "vmtable",
    "technique": "TLA+ spec PolicyFront (generators of expression/statement/definition skeletons, token-mutation classes, Markdown structure classes, the compiler's statement-placement table) enumerated with TLC; every cell rendered to text and executed against parse_policy_document / parse_policy_str / parse_expression and Compiler::compile (TABLE binding); a panic or abort is a violation, the spec's parse/compile verdicts are compared as drift",
    "text": "TLC enumerates: every expression atom, every unary constructor over each atom and every binary constructor over two atoms (no type filter; deeper nesting by seeded simulation), each parsed alone and compiled inside a host function; all 16 statement kinds in all 8 statement contexts with the compiler's placement table as oracle; ~65 definition sets with one defect each (duplicates of every kind, recursive structs, duplicate fields, undefined names, wrong arity, missing command blocks, reserved words); every callable kind (function, builtin, finish function, action, recall block as statement and as expression) with fewer/equal/more/ill-typed arguments and struct/effect/command/fact literals with missing/surplus/repeated fields; match over types with just under/exactly/over 2^64 inhabitants, bare and under option/result; delete/duplicate/swap/insert-delimiter/replace mutations at every token of two generated programs and at sampled tokens of every policy document in the repository; 13 front-matter x 15 fence x 3 preceding-text x 8 body x 2 line-ending Markdown documents; 13 recursive constructs nested 64/512/4096 deep.  Decides: each call returns a result or a structured error, no panic, no abort.  Display of errors is exercised in its own catch and reported separately (adjacent, outside the property).",
    "note": "Exploration: 'all texts' is approximated by the generated families; compile verdicts are predicted only for the statement-placement and definition-defect families.  Inputs nested >= 4096 levels abort the process by stack overflow (recursive-descent parser/compiler without a depth limit) — listed as a known finding and run in isolated processes so that every other cell is still decided.",
}

SUBST = {"@e@": "\u00e9", "@chk@": "\u2713", "@cjk@": "\u65e5\u672c\u8a9e"}
LEX = re.compile(r'("(?:\\.|[^"\\])*"|[A-Za-z_][A-Za-z0-9_]*|\d+|```+|~~~+|---|=>|::|==|!=|>=|<=|&&|\|\||\.\.\.|\S)(\s*)')


def join(toks):
    return " ".join(toks)


def repo_docs(thorough):
    pats = ["/crates/aranya-policy-lang/tests/data/**/*.md", "/crates/aranya-policy-lang/test-policy.md",
            "/crates/aranya-policy-ifgen/tests/data/*.md", "/crates/aranya-model/src/tests/*.md"]
    files = []
    for p in pats:
        files += sorted(glob.glob(verif.REPO + p, recursive=True))
    docs = [(f, "doc") for f in files]
    if thorough:
        docs += [(f, "str") for f in sorted(glob.glob(verif.REPO + "/crates/aranya-policy-compiler/tests/data/**/*.policy", recursive=True))]
    out = []
    for f, entry in docs:
        try:
            text = open(f, encoding="utf-8").read()
        except Exception:
            continue
        lead = re.match(r"\s*", text).group(0)
        toks = LEX.findall(text[len(lead):])
        out.append({"file": f[len(verif.REPO):], "entry": entry, "lead": lead, "toks": toks})
    return out


def mutate_repo(doc, cls, arg, pos):
    toks = [list(t) for t in doc["toks"]]
    i = pos - 1
    if cls == "del":
        toks[i][0] = ""
    elif cls == "dup":
        toks.insert(i, [toks[i][0], " "])
    elif cls == "swap" and i + 1 < len(toks):
        toks[i][0], toks[i + 1][0] = toks[i + 1][0], toks[i][0]
    elif cls == "ins":
        toks.insert(i, [arg, " "])
    elif cls == "rep":
        toks[i][0] = arg
    return doc["lead"] + "".join(t + w for t, w in toks)


def nest_text(kind, d):
    fn = lambda body: ("str", "function f() int { " + body + " return 1 }")
    if kind == "paren":
        return "expr", "(" * d + "1" + ")" * d
    if kind == "some":
        return "expr", "Some(" * d + "1" + ")" * d
    if kind == "not":
        return "expr", "!" * d + "true"
    if kind == "block":
        return "expr", "{ : " * d + "1" + " }" * d
    if kind == "call":
        return "expr", "g(" * d + "1" + ")" * d
    if kind == "dot":
        return "expr", "s" + ".a" * d
    if kind == "struct-lit":
        return "expr", "S { a: " * d + "1" + " }" * d
    if kind == "binary-chain":
        return "expr", "(" * d + "1" + " + 1)" * d
    if kind == "comment-open":
        return "str", "/*" * d + " function f() int { return 1 }"
    if kind == "if-stmt":
        return fn("if true { " * d + "}" * d)
    if kind == "match-stmt":
        return fn("match 1 { _ => { " * d + "} }" * d)
    if kind == "else-if-chain":
        return fn("if true { }" + " else if true { }" * d)
    if kind == "option-type":
        return "str", "struct N { a " + "option[" * d + "int" + "]" * d + " }"
    raise verif.ToolError("unknown nest kind " + kind)


def cases_of(cells, tb, docs):
    pre, host = tb["prelude"], tb["host"]
    out = []
    for x in cells:
        fam, c = x["fam"], x["c"]
        base = {"fam": fam, "cell": {k: v for k, v in c.items() if k not in ("t", "lines", "e")}}
        if fam == "expr":
            e = join(c["e"])
            out.append(dict(base, entry="expr", text=e, exp={"parse": c["parse"], "compile": "any"}, depth=x["d"]))
            out.append(dict(base, entry="str", text=join(pre + host["pre"] + c["e"] + host["post"]),
                            exp={"parse": c["parse"], "compile": "any"}, depth=x["d"], hosted=True))
        elif fam in ("stmt", "defs", "mut", "arity", "card"):
            out.append(dict(base, entry="str", text=join(c["t"]), exp={"parse": c["parse"], "compile": c["compile"]}))
        elif fam == "doc":
            eol = "\r\n" if c["eol"] == "crlf" else "\n"
            text = eol.join(c["lines"]) + eol
            for k, v in SUBST.items():
                text = text.replace(k, v)
            out.append(dict(base, entry="doc", text=text, exp={"parse": c["parse"], "compile": c["compile"]}))
        elif fam == "repo":
            d = docs[c["doc"] - 1]
            text = d["lead"] + "".join(t + w for t, w in d["toks"]) if c["cls"] == "none" \
                else mutate_repo(d, c["cls"], c["arg"], c["pos"])
            base["cell"]["file"] = d["file"]
            out.append(dict(base, entry=d["entry"], text=text, exp={"parse": "any", "compile": "any"}))
        elif fam == "nest":
            entry, text = nest_text(c["kind"], c["depth"])
            out.append(dict(base, entry=entry, text=text, exp={"parse": "any", "compile": "any"}))
    return out


STALL_S = 60   # a single case alone without a result for this long = the call does not return (typical: milliseconds)


def klass(case):
    c = case.get("cell", {})
    if case.get("fam") == "nest":
        return "nest:%s:%s" % (c.get("kind"), c.get("depth"))
    if case.get("fam") == "expr":
        return "expr:%s" % c.get("op")
    return "%s:%s" % (case.get("fam"), c.get("cls") or c.get("name") or c.get("k") or c.get("fence") or c.get("kind") or c.get("ty") or "")


CHUNK = 20000  # cases per engine process (keeps start-up short, so the watchdog measures the call)


def engine_once(ctx, vh, chunk, name, opts, stall):
    """One engine process over `chunk`.  Returns (results, status) with status in
    "done" | "hung" | "died:<rc>:<last stderr line>"."""
    inp = ctx.write_ndjson(name + ".in.ndjson", chunk)
    outp = os.path.join(ctx.workdir, name + ".out.ndjson")
    if os.path.exists(outp):
        os.unlink(outp)
    cmd = [vh, "front", "--in", inp, "--out", outp, "--seed", str(ctx.seed)]
    for k, v in (opts or {}).items():
        cmd += ["--opt", "%s=%s" % (k, v)]
    p = subprocess.Popen(cmd, cwd=ctx.workdir, stdout=subprocess.DEVNULL, stderr=subprocess.PIPE, text=True)
    last_size, last_t, hung = -1, time.time(), False
    while p.poll() is None:
        time.sleep(0.2)
        size = os.path.getsize(outp) if os.path.exists(outp) else 0
        now = time.time()
        if size != last_size:
            last_size, last_t = size, now
        elif now - last_t > stall:
            p.kill()
            hung = True
            break
    err = (p.communicate()[1] or "").strip().splitlines()
    rc = p.returncode
    res = []
    if os.path.exists(outp):
        for line in open(outp):
            line = line.strip()
            if line:
                try:
                    res.append(json.loads(line))
                except ValueError:
                    break   # a torn last line of a killed process
    if hung:
        return res, "hung"
    if rc == 2:
        raise verif.ToolError("engine vh-vmtable front reported a tool error: %s" % err[-1:])
    if rc != 0:
        return res, "died:%s:%s" % (rc, (err or ["?"])[-1])
    return res, "done"


def run_front(ctx, vh, cases, tag="front", opts=None):
    """Run the front engine with a watchdog.  The engine flushes one result per case.  If the
    process dies (stack overflow = abort) the case it was working on gets a failing result; if
    it stops producing results the suspect case is run again *alone* and only if that run
    stalls too (so neither start-up time nor machine load can raise the alarm) it is recorded
    as a call that does not return.  The engine is then restarted on the rest."""
    results, start, part = [], 0, 0
    t0 = time.time()
    while start < len(cases):
        chunk = cases[start:start + CHUNK]
        res, status = engine_once(ctx, vh, chunk, "%s-%d" % (tag, part), opts, 3 * STALL_S)
        part += 1
        for r in res:
            r["i"] += start
            r["_in"] = cases[r["i"]]
        results += res
        done = len(res)
        if status == "done":
            if done < len(chunk):
                raise verif.ToolError("engine stopped early without failing")
            start += done
            continue
        case = cases[start + done]
        if status == "hung":
            one, st1 = engine_once(ctx, vh, [case], "%s-confirm-%d" % (tag, part), opts, STALL_S)
            if st1 == "done":
                one[0]["i"] = start + done
                one[0]["_in"] = case
                results.append(one[0])      # it was the machine, not the code
                start += done + 1
                continue
            status = st1 if st1 != "done" else status
        short = {k: (v if k != "text" or len(v) < 2000 else v[:300] + "...") for k, v in case.items()}
        deep = case.get("fam") == "nest" and case["cell"]["depth"] >= 4096
        if status == "hung":
            key = "C27:no-return:" + klass(case)
            msg = "no result after %d s (alone, twice): the front end did not return on this %d-byte text" % (STALL_S, len(case["text"]))
        else:
            _, rc, last = status.split(":", 2)
            key = "C27:abort:deep-nesting" if deep else "C27:abort:" + klass(case)
            msg = "process aborted (status %s: %s) on this %d-byte text" % (rc, last, len(case["text"]))
        results.append({"i": start + done, "ok": False, "step": -1, "key": key, "msg": msg,
                        "obs": {"parse": "hang" if status == "hung" else "abort"}, "_in": short})
        start += done + 1
    ctx.log("vh-vmtable %s: %d cases, %d results, %d failing, %d engine runs, %.1fs" % (
        tag, len(cases), len(results), sum(1 for r in results if not r.get("ok")), part, time.time() - t0))
    return results


def run(ctx):
    vh = ctx.build("vmtable")
    ctx.level = "exploration"
    if ctx.replay:
        case = json.load(open(ctx.replay))["case"]["input"]
        if case.get("fam") == "nest":
            case = dict(case)
            case["entry"], case["text"] = nest_text(case["cell"]["kind"], case["cell"]["depth"])
        ctx.absorb(run_front(ctx, vh, [case], tag="replay"))
        ctx.cov.update({"evaluations": 1, "distinct_nontrivial": 1, "rule": "replay of one stored case"})
        return

    docs = repo_docs(ctx.thorough)
    if len(docs) < 5:
        raise verif.ToolError("repository policy documents not found")
    docs_json = os.path.join(ctx.workdir, "docs.json")
    json.dump([len(d["toks"]) for d in docs], open(docs_json, "w"))
    env = {"VERIF_C27_DOCS": docs_json, "VERIF_C27_SEED": ctx.seed}

    r = ctx.tlc("PolicyFront", "MC_PolicyFront.cfg", timeout=1500, env=env, coverage=False)   # vacuity: per-family cell counts below
    tb = None
    for p in r.prints:
        if p.startswith("TABLES "):
            tb = json.loads(p[7:])
    if tb is None:
        raise verif.ToolError("PolicyFront did not print its tables")
    cells = list(r.replays)
    r2 = ctx.tlc("PolicyFront", "MC_PolicyFront_repo_thorough.cfg" if ctx.thorough else "MC_PolicyFront_repo.cfg",
                 timeout=1500, env=env, coverage=False)
    cells += r2.replays
    sim_n = max(1, (96 if ctx.thorough else 8) // ctx.tlc_workers)
    r3 = ctx.tlc("PolicyFront", "MC_PolicyFront_sim.cfg", simulate=sim_n, depth=5, timeout=900,
                 coverage=False, env=env)
    seen = set()
    for b in r3.replays:
        k = json.dumps(b, sort_keys=True)
        if k not in seen and b["d"] >= 2:
            seen.add(k)
            cells.append(b)
    fams = {}
    for x in cells:
        fams[x["fam"]] = fams.get(x["fam"], 0) + 1
    for f in ("expr", "stmt", "defs", "arity", "card", "mut", "repo", "doc", "nest"):
        if not fams.get(f):
            raise verif.ToolError("vacuous: family %s produced no cells" % f)

    cases = cases_of(cells, tb, docs)
    # texts that may abort the process go last, so that restarts are few
    cases.sort(key=lambda c: (c["fam"] == "nest", c["cell"].get("depth", 0) if c["fam"] == "nest" else 0))
    batch = cases
    res = run_front(ctx, vh, cases, opts={"full": 1} if ctx.thorough else None)
    dres = []
    ctx.absorb(res)

    # binding self-test: flipped predictions must be noticed
    good = next(c for c in batch if c["fam"] == "stmt" and c["exp"]["compile"] == "ok")
    bad = json.loads(json.dumps(good))
    bad["exp"]["compile"] = "err"
    bad2 = json.loads(json.dumps(good))
    bad2["exp"]["parse"] = "err"
    st = run_front(ctx, vh, [good, bad, bad2], opts={"strict": 1}, tag="selftest")
    if len(st) != 3 or not st[0].get("ok") or st[1].get("ok") or st[2].get("ok"):
        raise verif.ToolError("binding self-test failed: %s" % [x.get("ok") for x in st])

    outcome, adjacent, drift_notes, nontrivial = {}, {}, {}, set()
    for x in res + dres:
        obs = x.get("obs") if isinstance(x.get("obs"), dict) else {}
        o = "%s/%s" % (obs.get("parse", "abort"), obs.get("compile", "-"))
        outcome[o] = outcome.get(o, 0) + 1
        for a in obs.get("adjacent", []):
            k = a.split(":")[0]
            adjacent[k] = adjacent.get(k, 0) + 1
        fam = (x.get("_in") or {}).get("fam", "?")
        for n in obs.get("notes", []):
            k = fam + ": " + n
            drift_notes[k] = drift_notes.get(k, 0) + 1
        if o != "ok/ok" and o != "ok/none" and x.get("_in"):
            nontrivial.add(x["_in"].get("text", "")[:4000])
    ctx.cov.update({
        "evaluations": len(cases),
        "distinct_nontrivial": len(nontrivial),
        "rule": "cell = one generated text (family, constructor/statement/defect/mutation class, position) from "
                "PolicyFront; trivial accept = parses and compiles; distinct_nontrivial counts distinct texts "
                "the front ends rejected (parse or compile error) or aborted on, measured on this run",
        "cells_by_family": fams,
        "repo_documents": len(docs),
        "repo_tokens": sum(len(d["toks"]) for d in docs),
        "outcomes": outcome,
        "adjacent_display_panics": adjacent,
        "drift_notes": dict(sorted(drift_notes.items(), key=lambda kv: -kv[1])[:40]),
        "exhaustive": True,
        "exhaustive_scope": "every cell of the MC configurations; deeper expressions by simulation; repo token positions with a stride",
        "selftest": "flipped parse / compile prediction rejected in strict mode",
    })
    ctx.assumptions += [
        "tokens are rendered with single spaces; repository documents keep their own whitespace",
        "Display of ParseError/CompileError is outside the property (exercised separately, reported as adjacent)",
        "process-level stack size is the platform default (8 MiB main thread)",
    ]
