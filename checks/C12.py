"""C12 — fact storage behaves as a key-value map.

MC of FactStore.tla (chain of immutable fact indexes with tombstones and depth-limited
compaction, perspectives with prior none / index / nested perspective, mid-segment
reconstruction refine the flat map) + S2I replay into the real linear storage through the public
storage traits, comparing query and query_prefix over the whole small key universe after the
steps (DESIGN §5 C12)."""
import json
import verif
import storage_util

META = {
    "level": "model_checking",
    "engine": "storage",
    "technique": "TLA+ spec FactStore (implementation-shaped index chain / perspectives refining a flat map) model-checked with TLC; one TLC behaviour per transition plus seeded TLC simulation behaviours with the real compaction depth replayed into LinearStorageProvider/LinearStorage/LinearPerspective/LinearFactIndex (spec->impl conformance)",
    "text": "TLC explores every storage of up to 3 segments / 3 commands / 3 updates over two fact keys (one a prefix of the other with an empty component) with compaction limit 2 and checks in every state that every committed fact index, every perspective reconstructed at any command of any segment, every bare fact perspective, every merge perspective over a written braid index and the open perspective show exactly the flat map obtained by applying the commands' updates in order. One behaviour per transition is replayed into the real memory-backed linear storage; query for every key and query_prefix for every prefix of the universe (key sequences of length <=2 over {'', a, b}, a longer key, two used and one unused name) must return exactly the flat map's facts in ascending key order without deleted facts, on the perspective, on bare fact perspectives, on written indexes and on every committed segment. Seeded TLC simulation with the code's real MAX_FACT_INDEX_DEPTH=16 writes 25-30 chained segments per behaviour (crossing compaction) with mid-segment reopening, bare fact perspectives, written braid indexes and merge perspectives.",
    "note": "Bounds: exhaustive part 2 keys/1 name, <=3 segments, compaction limit 2 (thorough: limit 3, <=4 segments, design level only); simulation 26 fact keys, 200 (thorough 300) steps per behaviour. write() is only called on perspectives without pending updates (as the runtime does). Values are decimal strings; ordering reference is lexicographic order of the key components.",
}

ACTIONS = ["InsertAny", "DeleteAny", "AddCommand", "Create", "Write", "OpenAny"]


def replay(ctx, vh, items, tag, prop="C12"):
    res = ctx.run_engine(vh, "facts", items, opts={"prop": prop}, tag=tag)
    if len([x for x in res if isinstance(x.get("i"), int) and x["i"] >= 0]) < len(items):
        raise verif.ToolError("engine returned %d results for %d behaviours" % (len(res), len(items)))
    ctx.absorb(res)
    return res


def simulate(ctx, cfg, num, depth, tag, workers=4):
    r = ctx.tlc("MC_FactStore", cfg, simulate=num, depth=depth + 1, workers=workers, timeout=1500, tag=tag)
    if r.violated:
        raise verif.ToolError("simulation reported " + str(r.violated))
    beh = storage_util.dedupe_by_prefix(r.replays)
    if len(beh) < num:
        raise verif.ToolError("simulation produced only %d behaviours" % len(beh))
    return beh


def selftest(ctx, vh, beh, prop="C12"):
    """A perturbed expectation must be rejected by the engine."""
    good = next((b for b in beh if b.get("sv") and any(b["sv"])), None)
    if good is None:
        raise verif.ToolError("no behaviour usable for the self-test")
    bad = json.loads(json.dumps(good))
    seg = next(s for s in bad["sv"] if s)
    seg[0]["v"] += 1
    st = ctx.run_engine(vh, "facts", [bad], opts={"prop": prop}, tag="selftest")
    if st[0].get("ok"):
        raise verif.ToolError("binding self-test failed: perturbed expected fact value accepted")
    bad = json.loads(json.dumps(good))
    seg = next(s for s in bad["sv"] if s)
    del seg[0]
    st = ctx.run_engine(vh, "facts", [bad], opts={"prop": prop}, tag="selftest2")
    if st[0].get("ok"):
        raise verif.ToolError("binding self-test failed: dropped expected fact accepted")


def run(ctx):
    vh = ctx.build("storage")
    if ctx.replay:
        case = json.load(open(ctx.replay))["case"]["input"]
        replay(ctx, vh, [case], "replay")
        return
    r = ctx.tlc("MC_FactStore", "MC_FactStore.cfg", timeout=1500)
    ctx.require_actions(storage_util.parse_action_coverage(r), ACTIONS)
    beh = r.replays
    if not beh:
        raise verif.ToolError("TLC emitted no behaviours")
    replay(ctx, vh, beh, "facts-mc")
    r2 = ctx.tlc("MC_FactStore", "MC_FactStore_facts.cfg", timeout=600)
    ctx.require_actions(storage_util.parse_action_coverage(r2), ["OpenFactsAny", "FInsertAny", "FDeleteAny", "WriteFacts", "OpenMergeAny", "Write", "OpenAny"])
    replay(ctx, vh, r2.replays, "facts-fp")
    # mid-segment reconstruction by replay of per-command updates over a committed prior index
    r5 = ctx.tlc("MC_FactStore", "MC_FactStore_midseg.cfg", timeout=900)
    ctx.require_actions(storage_util.parse_action_coverage(r5), ["InsertAny", "DeleteAny", "AddCommand", "Write", "OpenAny", "OpenFactsAny"])
    nmid = sum(1 for b in r5.replays if b["e"]["o"] in ("open", "open_facts") and b["e"]["i"] < b["h"][-2]["i"])
    if nmid == 0:
        raise verif.ToolError("no mid-segment reopening among the behaviours")
    replay(ctx, vh, r5.replays, "facts-mid")
    nsim, depth = (16, 200) if not ctx.thorough else (160, 300)
    sim = simulate(ctx, "Sim_FactStore.cfg" if not ctx.thorough else "Sim_FactStore_thorough.cfg",
                   max(1, nsim // 4), depth, "sim")
    writes = [sum(1 for s in b["h"] if s["o"] == "write" and s["r"] == "ok") for b in sim]
    if max(writes) < 20:
        raise verif.ToolError("simulation never chained enough segments to cross the compaction depth (max %d)" % max(writes))
    replay(ctx, vh, sim, "facts-sim")
    if ctx.thorough:
        r3 = ctx.tlc("MC_FactStore", "MC_FactStore_thorough.cfg", timeout=3000)
        ctx.require_actions(storage_util.parse_action_coverage(r3), ACTIONS)
    selftest(ctx, vh, beh)
    ctx.cov.update({
        "exhaustive": True,
        "constants": storage_util.cfg_constants(verif.TLA, "MC_FactStore.cfg"),
        "one_behaviour_per_transition": len(beh),
        "fact_perspective_behaviours": len(r2.replays),
        "midsegment_behaviours": len(r5.replays),
        "midsegment_reopenings_below_head": nmid,
        "simulation_behaviours": len(sim),
        "simulation_steps_per_behaviour": depth,
        "segments_chained_per_simulation_behaviour": {"min": min(writes), "max": max(writes)},
        "real_compaction_depth": 16,
        "selftest": "perturbed / dropped expected fact rejected by the engine",
    })
    ctx.assumptions += [
        "write() is called only on perspectives without pending updates (as ClientState/Transaction do)",
        "fact values are decimal strings; the abstraction function issues query for every key and query_prefix for every prefix of the key universe",
    ]
