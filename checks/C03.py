"""C03 — braided fact state equals the reference braid (DESIGN §5 C03)."""
import graph_common
import verif

META = {
    "level": "model_checking",
    "engine": "graph",
    "technique": "TLA+ Braid/MC_Braid: TLC checks AlgBraid (transcribed braid.rs) = RefBraid (C03's reference) on every DAG <= 4 commands; every emitted DAG is replayed into real replicas and the real fact state compared with RefBraid",
    "text": "Design level: TLC enumerates every command DAG with <= 4 commands beyond init (priorities {0,1}, finalize, every id order, nested merges; N=5 over {basic, finalize} in thorough) and checks that the transcription of braid()/convergence counts equals the storage-independent reference braid, that the pairwise LCA walk is order independent and that the max_cut cut-off is sound. Code level: the DAGs TLC emits (all for N=3 incl. set/delete/set-if-absent fact semantics and merge-ids-first; 1 in 6 of the 58 789 N=4 DAGs, seed-selected) are delivered into real ClientState replicas (two histories each, STRETCH chains up to 14 — 300 in thorough — crossing skip-list and spill thresholds) and the committed `seq` fact (exact application order) and keyed facts must equal the reference braid's.",
    "note": 'Bounds: exhaustive DAGs <= 4 commands beyond init (all DAGs with >= 3 heads replayed, others 1 in 6; N=5 in thorough), fact ops incl. quiet and rejected-in-braid commands at N=3/4, exhaustive histories for universe <= 3 / 5 steps / 2 replicas (two-command actions, forged merges), exhaustive poison positions (22 300 behaviours), C10 first-contact shapes, seeded simulation to universe 8 / 16 steps / 3 replicas; harness-parameterised families ladder (<= 900 rungs, 2 500 thorough), fan (<= 600 forks), star (<= 130 heads); STRETCH 14 (24/60 for C11, 300 thorough). Audit policy stands in for real policies; memory-backed storage; RuntimeBuffers shared by all replayed replicas; no storage fault injection.',
}


def run(ctx):
    return graph_common.full(ctx)


def _old_run(ctx):
    vh = ctx.build("graph")
    if ctx.replay:
        return graph_common.replay_only(ctx, vh, "braid")
    res = graph_common.braid_suite(ctx, vh)
    ctx.absorb(res, only_own=True)
    ctx.assumptions += ["audit policy semantics = Braid!Apply", "structural ids: byte order equals the spec's id order"]
