"""C29 — fact queries in policies match a fact-store model.
MC PolicyFacts.tla (model fact store: key order, prefix scan, fact_match, counting loops; model-level
invariants on every store of every schema shape) + S2I: every (store x operation) behaviour and
seeded simulated histories are rendered to policy documents, compiled with the real compiler and run
through VmPolicy + VmPolicyIO on a runtime linear-storage perspective (DESIGN §5 C29)."""
import collections
import json
import os

import verif

META = {
    "level": "model_checking",
    "engine": "vmpolicy",
    "technique": "TLA+ spec PolicyFacts model-checked with TLC (invariants tie the storage scan and the VM's "
                 "query/count loops to the property-level match set); TLC-generated behaviours (every store x "
                 "every operation, plus simulated histories) replayed through parser -> compiler -> VM -> "
                 "VmPolicy/VmPolicyIO on runtime storage, comparing returned values, visit order and the stored "
                 "fact set after every step (spec->impl conformance)",
    "text": "PolicyFacts.tla models the fact store of one schema as a sorted map, the storage prefix scan "
            "(range + take_while), the VM's fact_match, Query, FactCount loop and the compiler's encodings of "
            "exists / count_up_to / at_least / at_most / exactly / map, and create / update / delete / commit. "
            "TLC checks on every store (<= 4 facts) of every schema shape that these agree with the property-level "
            "match set (counts capped at the limit, exists <=> at_least 1, query = least match in key order, map "
            "visits exactly the matches in key order). Every (store, operation) pair of the cover configuration and "
            "seeded simulated histories over all 155 key-type lists (int/bool/string/id/enum, 1..3 key fields, 0..2 "
            "value fields) are replayed through the real compiler, VM, VmPolicyIO key encoding and linear-storage "
            "perspective with varied index/perspective layering; results, iteration order and the stored fact set "
            "(read back with query_prefix and decoded independently) must equal the spec's after every step.",
    "note": "Bounds: quick — invariants on all stores <= 4 facts of the quick schema shapes; cover = all stores <= 3 facts x "
            "all one-step operations of 11 typed schemas (incl. two key-less ones) (~20k behaviours, all replayed); 300 simulated histories of "
            "8 steps over 345 schemas. Thorough — invariants on 13 shapes, cover of the 9 schemas with <= 4 facts and of 4 more with <= 3 (~70k behaviours), 4000 histories. Key/value "
            "domains are 2-3 ranks per field, concretised per behaviour from ascending tables (i64 extremes, "
            "prefix-related strings, multi-byte UTF-8, ids differing in first/last byte). Trusted: the harness' "
            "decoder of stored keys/values, TestFfiEnvelope seal/open, the in-memory linear-storage I/O manager.",
}

MUT_OUTS = {"create": ["ok", "overwrite"], "update": ["ok", "invalid_fact"], "delete": ["ok", "absent"]}


def op_histogram(beh):
    c = collections.Counter()
    for b in beh:
        for st in b["steps"]:
            op = st["op"]
            if op == "observe":
                r = st["res"]
                c["observe"] += 1
                c["observe:found" if r["query"]["found"] else "observe:none"] += 1
                if len(r["map"]) >= 2:
                    c["observe:map>=2"] += 1
                if any(x for x in st["vb"]):
                    c["observe:value-bound"] += 1
                if any(a != b2 for a, b2 in zip(r["count"], r["limits"])) and r["count"][-1] > 0:
                    c["observe:count-below-limit"] += 1
                if r["count"][0] == r["limits"][0] and len(r["map"]) > r["limits"][0]:
                    c["observe:count-capped"] += 1
            elif op == "commit":
                c["commit"] += 1
            else:
                c["%s:%s" % (op, st["out"])] += 1
    return c


NEEDED = ["create:ok", "update:ok", "update:invalid_fact", "delete:ok", "delete:absent", "observe:found",
          "observe:none", "observe:map>=2", "observe:value-bound", "observe:count-capped",
          "observe:count-below-limit"]


def stamp(beh, base):
    """concretisation seed per behaviour (value tables, seeding order, layering)"""
    for i, b in enumerate(beh):
        b["cx"] = base + i
    return beh


def dedupe(beh):
    seen, out = set(), []
    for b in beh:
        k = json.dumps(b, sort_keys=True)
        if k not in seen:
            seen.add(k)
            out.append(b)
    return out


def corrupt(b):
    """binding self-test: perturb one expected value of a behaviour (first observe: count_up_to 1;
    else the stored set after the first mutation)"""
    b = json.loads(json.dumps(b))
    for st in b["steps"]:
        if st["op"] == "observe":
            st["res"]["count"][0] = 1 - min(st["res"]["count"][0], 1)
            return b
    for st in b["steps"]:
        if st["op"] in ("create", "update", "delete") and st["store"]:
            st["store"] = st["store"][1:]
            return b
    return None


def pinned(prop):
    d = verif.PINNED
    out = []
    if os.path.isdir(d):
        for f in sorted(os.listdir(d)):
            if f.startswith(prop + "-") and f.endswith(".json"):
                out.append(json.load(open(os.path.join(d, f)))["case"]["input"])
    return out


def run(ctx):
    vh = ctx.build("vmpolicy")
    if ctx.replay:
        case = json.load(open(ctx.replay))["case"]["input"]
        ctx.absorb(ctx.run_engine(vh, "facts", [case]))
        return
    thorough = ctx.thorough
    # 1. model-level invariants on every store of every schema shape
    sub = {"Schemas <- ShapesQuick": "Schemas <- ShapesThorough"} if thorough else None
    r = ctx.tlc("MC_PolicyFacts", "MC_PolicyFacts.cfg", timeout=3000, cache=True, subst=sub,
                tag="MC_PolicyFacts_inv")
    inv_states = r.states
    # 2. cover: every store x every one-step operation, emitted
    if thorough:
        r = ctx.tlc("MC_PolicyFacts", "MC_PolicyFacts_cover.cfg", timeout=3000, cache=True,
                    subst={"MaxFacts = 3": "MaxFacts = 4"}, tag="MC_PolicyFacts_cover4")
        cover = r.replays
        r = ctx.tlc("MC_PolicyFacts", "MC_PolicyFacts_cover.cfg", timeout=3000, cache=True,
                    subst={"Schemas <- SchemasQuick": "Schemas <- SchemasExtra"}, tag="MC_PolicyFacts_coverX")
        cover = cover + r.replays
    else:
        r = ctx.tlc("MC_PolicyFacts", "MC_PolicyFacts_cover.cfg", timeout=3000, cache=True,
                    tag="MC_PolicyFacts_cover")
        cover = r.replays
    if not cover:
        raise verif.ToolError("TLC emitted no behaviours (cover)")
    hist = op_histogram(cover)
    missing = [k for k in NEEDED if hist[k] == 0]
    if missing:
        raise verif.ToolError("vacuous cover run: never generated: %s" % ", ".join(missing))
    stamp(cover, ctx.seed * 1000003)
    cover = cover + pinned("C29")          # regressions of the two fixed findings (keep their own cx)
    res = ctx.run_engine(vh, "facts", cover, tag="cover", timeout=1800)
    if len(res) != len(cover):
        raise verif.ToolError("engine returned %d results for %d behaviours" % (len(res), len(cover)))
    ctx.absorb(res)
    # 3. simulated histories over all key-type lists (seeded)
    nsim = 4000 if thorough else 300
    r = ctx.tlc("MC_PolicyFacts", "Sim_PolicyFacts.cfg", workers=1, simulate=nsim, depth=9, timeout=3000,
                cache=True, tag="Sim_PolicyFacts")
    sim = dedupe(r.replays)
    if len(sim) < nsim // 2:
        raise verif.ToolError("simulation produced only %d behaviours" % len(sim))
    shist = op_histogram(sim)
    if shist["commit"] == 0 or shist["observe"] == 0:
        raise verif.ToolError("vacuous simulation: no commit/observe steps")
    stamp(sim, ctx.seed * 1000003 + 500000)
    res2 = ctx.run_engine(vh, "facts", sim, tag="sim", timeout=1800)
    if len(res2) != len(sim):
        raise verif.ToolError("engine returned %d results for %d behaviours" % (len(res2), len(sim)))
    ctx.absorb(res2)
    # 4. binding self-test: a perturbed expectation must be rejected by the engine
    good = [x["_in"] for x in res if x.get("ok") and any(s["op"] == "observe" for s in x["_in"]["steps"])][:3]
    good += [x["_in"] for x in res if x.get("ok") and x["_in"]["steps"][0]["op"] in ("update", "delete")
             and x["_in"]["steps"][0]["store"]][:3]
    bad = [c for c in (corrupt(b) for b in good) if c]
    if bad:
        st = ctx.run_engine(vh, "facts", bad, tag="selftest")
        if len(st) != len(bad) or any(x.get("ok") for x in st):
            raise verif.ToolError("binding self-test failed: a perturbed expectation was accepted")
    elif ctx.nviol == 0:
        raise verif.ToolError("binding self-test: no passing behaviour to perturb")
    schemas = {json.dumps(b["schema"], sort_keys=True) for b in cover + sim}
    ctx.cov.update({
        "exhaustive": True,
        "constants": {"ValDom": 2, "Limits": [1, 2, 3],
                      "invariant_run": "all stores <= 4 facts of %s" % ("the thorough shapes" if thorough else "the quick shapes"),
                      "cover_run": ("SchemasQuick with MaxFacts=4 and SchemasExtra with MaxFacts=3" if thorough
                                    else "SchemasQuick, MaxFacts=3") + ", one step from every store",
                      "simulation": "%d histories x 8 steps, SchemasAll (345 schemas), MaxFacts=4" % nsim},
        "invariant_states": inv_states,
        "behaviours_replayed": len(cover) + len(sim),
        "cover_behaviours": len(cover),
        "simulated_histories": len(sim),
        "schemas_compiled": len(schemas),
        "coverage_actions": dict(hist),
        "coverage_actions_sim": dict(shist),
        "selftest": "%d perturbed expectations rejected" % len(bad),
    })
    ctx.assumptions += [
        "rank order of the spec = stated key order on the concrete values (engine asserts its value tables are ascending in numeric / bytewise / ordinal order)",
        "the harness' independent decoder of stored keys (u64-BE name length, name, tag, value bytes) and values (postcard Vec<FactValue>) is correct",
        "results are observed through effects emitted by the querying command's finish block and through Visit commands published from map bodies",
        "create on a present key (overwrite) is outside the property and compared as drift only",
    ]
