"""C20 — Peer caches only record what the peer really has.
MC PeerCache.tla (every DAG shape x committed/flushed/unknown labelling x add_command sequences) +
S2I replay of one witness per reachable state and of every transition out of it into the real
PeerCache::add_command on real storage (DESIGN §5 C20)."""
import json
import verif
import sync_util as su

META = {
    "level": "model_checking",
    "engine": "sync",
    "technique": "TLA+ spec PeerCache model-checked with TLC; every reachable state's witness path and every outgoing transition replayed into aranya_runtime::PeerCache::add_command on real committed/flushed storage (spec->impl conformance)",
    "text": "TLC enumerates every DAG shape (canonical numbering) up to the bound, every labelling of its commands as committed / flushed-but-uncommitted / unknown, and every sequence of add_command calls over right and wrong-max-cut addresses (invariants: <= Cap entries, entries committed, antichain, no duplicates; action property: only ancestors of the recorded command are removed, uncommitted or covered commands are ignored, a recordable command is recorded unless the cache is full).  The cache is a sequence, so spec state = implementation state and covering every transition covers every behaviour: for each reachable state the engine builds a real replica (stretched chains, seeded segment layout, open flushed transaction), replays the witness path and then every address from that state, deciding the property on heads() after every call and comparing with the spec's successor.  A 12-wide star exercises the capacity rule with the code's capacity.  At system level the caches filled by real sync sessions (requester side through update_heads, responder side through poll and subscribe) are read at every session start/end and Trace_Sync checks them against both replicas' command sets: at most ten distinct entries, each committed by the owner, each held by the peer, no entry an ancestor of another.",
    "note": "Bounds: shapes <= 4 nodes (thorough 5), sequences <= 6, star 12 siblings + grandchild with sequences <= 14 (sibling symmetry), design-level run with Cap=2 on shapes <= 5.  Trusts the harness policy (accept-all) and the in-memory linear storage backend; storage errors inside retain are not modelled.",
}


def concretise(ctx, beh, profile):
    """Attach stretch/layout per (par, st) group and sort so that groups are contiguous."""
    groups = {}
    for b in beh:
        groups.setdefault(su.group_key(b), []).append(b)
    out = []
    for k in sorted(groups):
        g = groups[k]
        n = len(g[0]["par"])
        plan = su.stretch_plan(ctx.rng, n, profile if n <= 8 else "small")
        lay = su.layout(ctx.rng)
        for b in g:
            b = dict(b)
            b["stretch"] = plan
            b["layout"] = lay
            out.append(b)
    return out


def run(ctx):
    vh = ctx.build("sync")
    cfg = "MC_PeerCache_thorough.cfg" if ctx.thorough else "MC_PeerCache.cfg"
    r = ctx.tlc("PeerCache", cfg, timeout=1500)
    ctx.require_actions(r, ["Next"])
    if ctx.replay:   # the stored case only (the design-level run above keeps the evidence complete)
        case = json.load(open(ctx.replay))["case"]["input"]
        if "pattern" in case:       # a recorded-session case (system-level cache clauses)
            res, bad, _ = su.run_sessions(ctx, vh, [case], tag="replay")
            su.report(ctx, "C20", [case], res, bad)
            ctx.traces += 1
            ctx.samples.append(case)
        else:
            ctx.absorb(ctx.run_engine(vh, "peercache", [case]))
        return
    rs = ctx.tlc("PeerCache", "MC_PeerCache_star.cfg", timeout=900)
    beh = concretise(ctx, r.replays, "skip" if ctx.thorough else "small")
    star = concretise(ctx, rs.replays, "small")
    if not beh or not star:
        raise verif.ToolError("TLC emitted no behaviours")
    full = sum(1 for b in rs.replays if b["steps"] and len(b["steps"][-1]["cache"]) == 10)
    if full == 0:
        raise verif.ToolError("vacuous: the star configuration never filled the cache")
    if ctx.thorough:
        ctx.tlc("PeerCache", "MC_PeerCache_cap.cfg", timeout=1500)
        beh += concretise(ctx, verif.sample(ctx.rng, r.replays, 1500), "mixed")
    res = ctx.run_engine(vh, "peercache", beh, timeout=1500)
    res2 = ctx.run_engine(vh, "peercache", star, tag="peercache-star", timeout=900)
    if len(res) != len(beh) or len(res2) != len(star):
        raise verif.ToolError("engine returned %d+%d results for %d+%d behaviours" % (len(res), len(res2), len(beh), len(star)))
    ctx.absorb(res)
    ctx.absorb(res2)
    # binding self-test: a perturbed expectation (an entry dropped from an expected cache) must be noticed
    cand = next((b for b in beh if b["steps"] and b["steps"][-1]["cache"]), None)
    if cand is None:
        raise verif.ToolError("no behaviour with a non-empty cache for the self-test")
    bad = json.loads(json.dumps(cand))
    bad["steps"][-1]["cache"] = bad["steps"][-1]["cache"][:-1]
    st = ctx.run_engine(vh, "peercache", [bad], tag="selftest")
    if not st or st[0].get("ok"):
        raise verif.ToolError("binding self-test failed: perturbed expectation accepted")
    # system level: the caches that real sessions fill (requester's via update_heads, responder's via
    # poll / subscribe) checked by Trace_Sync on recorded sessions
    rp = ctx.tlc("SyncAbs", "MC_SyncAbs_pairs5.cfg" if ctx.thorough else "MC_SyncAbs_pairs4.cfg", timeout=900, coverage=False)
    scases, npinned = su.build_cases(ctx, rp.replays, pingpong=0.6, deep=True, limit=400 if ctx.thorough else 90)
    for c in scases[:npinned]:
        c["deep"] = True
    sres, sbad, slines = su.run_sessions(ctx, vh, scases, tag="cache-sessions")
    su.report(ctx, "C20", scases, sres, sbad)
    ctx.traces += len(scases)
    steps = sum(len(b["steps"]) + len(b["fan"]) * (len(b["steps"]) + 1) for b in beh + star)
    ctx.cov.update({
        "exhaustive": True,
        "constants": {"cfg": cfg, "Cap": 10, "MaxDepth": 6, "star": "12 siblings + grandchild, MaxDepth 14"},
        "states_replayed": len(beh) + len(star),
        "transitions_replayed": sum(len(b["fan"]) for b in beh + star),
        "add_command_calls": steps,
        "star_states_with_full_cache": full,
        "labellings": len({su.group_key(b) for b in beh}),
        "selftest": "dropped expected entry rejected",
        "session_cases_with_cache_clauses": len(scases), "session_trace_events": slines,
    })
    ctx.assumptions += ["harness accept-all policy and in-memory linear storage stand in for production policy/storage",
                        "addresses offered are the attach points of abstract nodes (chain heads / first fan element), with right or off-by-one max cut"]
