"""C28 — compiled modules are deterministic and survive serialization.
For every policy document built from the programs of PolicyLang.tla that the compiler accepts:
compile six times => equal Modules; encode/decode through CBOR (serde, as the policy-compiler CLI writes
it) and rkyv => equal Module and equal Machine; the machine loaded from each decoded form gives the
outcome the spec predicted for every function and argument tuple (DESIGN §5 C28)."""
import verif
import vm_util

META = {
    "level": "exploration",
    "engine": "vm",
    "technique": "TLA+ spec PolicyLang generates policy documents and predicts every function's outcome; the engine compiles each document twice, round-trips the Module through its serialized forms, loads Machines and re-runs every function against the spec's prediction",
    "text": "Documents of 50 generated functions (typed grammar: depth 1 exhaustive, statement forms, seeded simulation to depth 3, effects mode with foreign calls and panics) plus the prelude (enum/struct definitions, helper functions). Per document: Module(compile #1) == Module(compile #k) for k = 2..6 (hash-order nondeterminism is probabilistic); for CBOR via ciborium (the CLI's format) and rkyv: decode(encode(m)) == m and Machine::from_module(decoded) == Machine::from_module(m); then every function is executed on the original and on each decoded machine and exit reason, value and foreign-call log must equal the spec's Eval outcome. postcard is attempted and only reported (the internally tagged ModuleData enum is not postcard-decodable by construction).",
    "note": "Exploration over generated policies (pure functions; actions/commands with facts are covered by C29/C30's engine). rule: equality of modules, machines and outcomes. Trusted: PartialEq of Module/Machine is structural (derived).",
}


def run(ctx):
    ctx.level = "exploration"
    vh = ctx.build("vm")
    if ctx.replay:
        pre, prog = vm_util.load_replay(ctx)
        ctx.absorb(vm_util.replay(ctx, vh, "C28", pre, [prog], "replay", batch=1))
        return
    vm_util.run_pinned(ctx, vh, "C28")
    runs = []
    sub = {"MC_RetQuick": "MC_RetAll"} if ctx.thorough else None
    pre, progs, _ = vm_util.generate(ctx, "MC_PolicyLang.cfg", subst=sub)
    runs.append(("depth1", progs))
    _, ps, _ = vm_util.generate(ctx, "MC_PolicyLang_stmt.cfg")
    runs.append(("stmt", ps))
    _, ps, _ = vm_util.generate(ctx, "MC_PolicyLang_fx.cfg")
    runs.append(("fx", ps))
    _, ps, _ = vm_util.generate(ctx, "MC_PolicyLang_sim.cfg", simulate=5000 if ctx.thorough else 150, depth=400)
    runs.append(("sim", ps))
    allres = []
    docs = 0
    forms = set()
    for tag, ps in runs:
        res = vm_util.replay(ctx, vh, "C28", pre, ps, tag, batch=50)
        ctx.absorb(res)
        allres += res
        docs += (len(ps) + 49) // 50
        for r in res:
            forms.update(r.get("obs", {}).get("forms", []) if r.get("ok") else [])
    t = vm_util.tally(allres)
    if ctx.nviol == 0 and not {"cbor", "rkyv"} <= forms:
        raise verif.ToolError("vacuous: serialized forms exercised: %s" % sorted(forms))
    ctx.cov.update({
        "evaluations": t["envs"] * (1 + len(forms)),
        "documents": docs,
        "programs": t["ran"],
        "forms": sorted(forms),
        "distinct_nontrivial": docs,
        "rule": "Module(compile 1) = Module(compile 2); decode(encode(m)) = m and equal Machine for cbor and rkyv; outcomes on every machine = spec's Eval",
        "by_run": {tag: len(ps) for tag, ps in runs},
        "tally": t,
        "selftest": vm_util.selftest(ctx, vh, "C28", pre, progs),
    })
    ctx.assumptions += ["postcard round trip is reported, not required (ModuleData is an internally tagged enum)"]
