"""C09 — The head set is exactly the frontier (DESIGN §5 C09)."""
import graph_common

META = {
    "level": "model_checking",
    "engine": "graph",
    "technique": 'TLA+ specs Braid/MC_Braid and Replica model-checked with TLC (exhaustive small constants + seeded simulation); every emitted DAG / delivery history replayed step by step into real ClientState replicas and the projected state compared (spec->impl conformance)',
    "text": "Replica invariant Frontier; replay recomputes the frontier from a full walk of the real storage with the harness's own parent table and requires heads = sorted frontier after every commit/action, for histories with duplicates, deep parents, merges of non-tips, flushes.",
    "note": 'Bounds: exhaustive DAGs <= 4 commands beyond init (5 in thorough), exhaustive histories for universe <= 3 / 5 steps / 2 replicas, seeded simulation to universe 8 / 16 steps / 3 replicas; STRETCH 14 (300 thorough). Audit policy stands in for real policies; memory-backed storage.',
}


def run(ctx):
    graph_common.full(ctx)
