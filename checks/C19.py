"""C19 — Hello notifications never suppress a needed sync (DESIGN §5 C19)."""
import graph_common

META = {
    "level": "model_checking",
    "engine": "graph",
    "technique": 'TLA+ specs Braid/MC_Braid and Replica model-checked with TLC (exhaustive small constants + seeded simulation); every emitted DAG / delivery history replayed step by step into real ClientState replicas and the projected state compared (spec->impl conformance)',
    "text": 'Replica invariant HelloSound (weakened to the class that can hold, see DESIGN §7.7); replay evaluates the real should_sync_on_hello for every ordered replica pair after every step against the real command sets; missing graph => true. The lazy-heads vs materialised-merge class is a KNOWN-FINDING keyed C19:lazy-merge-surplus.',
    "note": 'Bounds: exhaustive DAGs <= 4 commands beyond init (5 in thorough), exhaustive histories for universe <= 3 / 5 steps / 2 replicas, seeded simulation to universe 8 / 16 steps / 3 replicas; STRETCH 14 (300 thorough). Audit policy stands in for real policies; memory-backed storage.',
}


def run(ctx):
    graph_common.full(ctx)
