"""C26 — Command struct serialization round-trips and rejects bad input.

TABLE pattern with StructCodec.tla as enumerator and oracle: the spec states the schema-directed
wire format as a token grammar (encoder, decoder, mutation classes) and TLC checks on the
format itself that every conforming value round-trips and that every class of bad input the
property lists is an error for every schema, value and position.  Each cell is then executed
against Machine::serialize_struct / Machine::deserialize_struct."""
import json
import verif

META = {
    "level": "exploration",
    "engine": "vmtable",
    "technique": "TLA+ spec StructCodec (token grammar of the schema-directed struct wire format: encoder, decoder, mutation classes) model-checked with TLC; every cell (schema x conforming value x mutation class x position) rendered to bytes and executed against the real Machine::serialize_struct / deserialize_struct (TABLE binding)",
    "text": "TLC enumerates every struct schema with one field whose type nests up to depth 2, and with two fields (first of depth <= 1, thorough <= 2) over all field kinds (int, bool, string, bytes, id, enum, unit, optional, result, nested struct), every conforming value over boundary representatives (1/2/10-byte varints, empty and multi-byte text, empty bytes), and every mutation: truncation at every token boundary and inside every multi-byte token, a trailing byte, option/result tag 2 and 255, enum value outside the definition, invalid UTF-8, NUL, a cut multi-byte character, id length 31/33/0, bool byte 2, seeded random and bit-flipped byte strings.  TLC proves RoundTrip and RequiredRejected on the token grammar.  Decides on the real code: deserialize(serialize(v)) = v; each listed class is Err; no panic; anything accepted from arbitrary bytes round-trips.  The real wire bytes are also compared with the spec's tokens and the error kind with the spec's (drift).",
    "note": "Exploration, not proof: depth <= 2, one or two fields, a handful of values per kind; entry point Machine::deserialize_struct (where trailing data is rejected).  Non-canonical varints and bool bytes other than 0/1 are outside the property's list: reported as drift only.  Trusted: the engine's token renderer (independent re-implementation of zig-zag varints).",
}


def run(ctx):
    vh = ctx.build("vmtable")
    ctx.level = "exploration"
    if ctx.replay:
        case = json.load(open(ctx.replay))["case"]["input"]
        ctx.absorb(ctx.run_engine(vh, "codec", [case]))
        ctx.cov.update({"evaluations": 1, "distinct_nontrivial": 1, "rule": "replay of one stored case"})
        return
    cfg = "MC_StructCodec_thorough.cfg" if ctx.thorough else "MC_StructCodec.cfg"
    # no -coverage (an order of magnitude slower on this spec); vacuity is checked below on the cells
    r = ctx.tlc("StructCodec", cfg, timeout=1800, coverage=False)
    cells = r.replays
    if not cells:
        raise verif.ToolError("TLC emitted no cells")
    by_cls = {}
    for c in cells:
        by_cls[c["c"]] = by_cls.get(c["c"], 0) + 1
    need = {"roundtrip", "trunc", "trunc-mid", "trailing", "otag2", "otag255", "rtag2", "rtag255",
            "enum-out", "utf8", "nul", "utf8-cut", "idlen31", "idlen33", "random"}
    if not need <= set(by_cls):
        raise verif.ToolError("vacuous: classes never generated: %s" % sorted(need - set(by_cls)))
    res = ctx.run_engine(vh, "codec", cells, opts={"random": 48 if ctx.thorough else 24}, timeout=1500)
    if len(res) < len(cells):
        ctx.log("engine returned %d results for %d cells" % (len(res), len(cells)))
    ctx.absorb(res)

    # binding self-test: a cell whose tokens were altered must be noticed (strict mode turns
    # drift into failures), and a valid encoding presented as a required class must be a violation
    rt = next(c for c in cells if c["c"] == "roundtrip" and any(t[0] == "zz" for t in c["t"]))
    alt = json.loads(json.dumps(rt))
    for t in alt["t"]:
        if t[0] == "zz":
            t[1] = 7 if t[1] != 7 else 8
            break
    fake = json.loads(json.dumps(rt))
    fake["c"] = "otag2"
    fake["e"] = ["BadInput"]
    st = ctx.run_engine(vh, "codec", [rt, alt, fake], opts={"strict": 1}, tag="selftest")
    if len(st) != 3 or not st[0].get("ok") or st[1].get("ok") or st[2].get("ok") \
            or st[2].get("key") != "C26:accepted:otag2":
        raise verif.ToolError("binding self-test failed: %s" % [(x.get("ok"), x.get("key")) for x in st])

    notes = {}
    compiled_same = 0
    for x in res:
        obs = x.get("obs") if isinstance(x.get("obs"), dict) else {}
        compiled_same += obs.get("schema") == "compiled-same"
        for n in obs.get("notes", []):
            k = n.split(":")[0][:60]
            notes[k] = notes.get(k, 0) + 1
    schemas = {json.dumps(c["sc"]) for c in cells}
    values = {json.dumps([c["sc"], c["v"]]) for c in cells}
    ctx.cov.update({
        "evaluations": len(cells),
        "distinct_nontrivial": sum(1 for c in cells if c["c"] != "roundtrip"),
        "rule": "cell = (schema, conforming value, mutation class, token position) enumerated by TLC from "
                "StructCodec; trivial accept = the unmutated round trip; every other cell is a distinct bad input "
                "(distinct by construction: TLC states) whose expected outcome is StructCodec!DecTop",
        "exhaustive": True,
        "schemas": len(schemas),
        "schema_value_pairs": len(values),
        "roundtrips_on_schemas_the_real_compiler_reproduces": compiled_same,
        "cells_by_class": by_cls,
        "random_strings_per_cell": 48 if ctx.thorough else 24,
        "drift_notes": notes,
        "constants": open(verif.TLA + "/" + cfg).read().split("CONSTANTS")[1].split("INVARIANTS")[0].split("\n")[1:-1],
        "selftest": "altered token and relabelled valid encoding rejected",
    })
    ctx.assumptions += [
        "struct definitions are built directly in Machine.struct_defs; each schema is also written as policy source, parsed and compiled, and the compiled definitions are compared with them (drift if they differ)",
        "entry point Machine::deserialize_struct; the VM instruction path is covered by C25",
    ]
